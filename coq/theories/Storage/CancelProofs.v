(* Cancellation safety (C14): what a dropped future of a public operation may leave behind (Cancel.v:
   cancel_outcomes), and what holds of every such state.

   Results (all for every outcome s' of every public operation o; s: BlobsOk K s, s_open s = true):
     cancel_other_keys   (A) for every key k other than the key of o: same records in the log, same answer to every read
     cancel_no_harm      (B) good s s': every blob keeps its id, its records are a prefix of its new records
     cancel_later_ops    (C) ActiveInMemory, s_alive, IdsOk, s_open are kept; hence cancel_then_no_index_error,
                             cancel_then_write_acknowledged; restore_retry_completes
     cancel_safety / reach_cancel_safety   (A)+(B)+(C) under Inv K s /\ ActiveInMemory s, and for reach K cfg ops
     cancelled_write_log, cancelled_write_session, unindexed_same_files, unindexed_regenerated   (D)
     unindexed_then_dump_hides   finding F18 in general: a dump between the cancellation and the next start hides the record
     cancelled_delete_log, cancelled_delete_read   (E): markers in a subset of the blobs the completed delete marks;
                         every read of the key answers as before the delete or as after the completed delete

   Hypotheses used, and why:
     BlobsOk K s        the indexes are the indexes of the records (blob_ok), needed because a delete or a restore
                        (cancelled or not) may have (re)loaded the index of a closed blob from its index file;
     ActiveInMemory s   only as the premise of its own preservation (InvProofs.run_ActiveInMemory: it always holds);
     s_open s = true    the operations are the ones of a running session.
   All hold of every `reach K cfg ops` state with s_open = true (Theorems.reach_Inv, reach_ActiveInMemory).

   Method: every outcome is `shape R s0 s'` for s0 = s or s0 = ensure_active s: slot by slot (closed list, active
   blob) the blob of s' is R-related to the blob of s0; s_next grows by at most one; nothing else changes. For R
   we take `stage_ok r` (same id; records: the old ones or the old ones ++ [r]; index: the old one or the old one
   with r pushed; an index in memory stays in memory), refined to `dstage` for deletes and `quiet` for the
   lifecycle operations. The completed write and delete are decomposed in the same way. *)
Require Import Pearl.Base.Prelude Pearl.Storage.Model Pearl.Storage.Spec Pearl.Storage.Inv Pearl.Storage.IndexProofs
               Pearl.Storage.ReadProofs Pearl.Storage.ReadAllProofs Pearl.Storage.InvProofs Pearl.Storage.NoHarmProofs
               Pearl.Storage.WorkerProofs Pearl.Storage.Theorems Pearl.Storage.Cancel.

(* ================= 1. a read of key k looks at the entry of k in each index, nothing else ================= *)

Lemma blob_get_latest_ext m m' k meta :
  imap_get m' k = imap_get m k -> blob_get_latest m' k meta = blob_get_latest m k meta.
Proof.
  intros H. destruct meta as [mt|]; cbn [blob_get_latest].
  - unfold blob_get_with_meta, idx_get_all_dm. rewrite H. reflexivity.
  - unfold idx_get_latest. rewrite H. reflexivity.
Qed.

Lemma blob_get_latest_nil k meta : blob_get_latest [] k meta = NotFound.
Proof. destruct meta; reflexivity. Qed.

Lemma gle_as_fold s k meta :
  get_latest_entry s k meta =
  fold_left (rr_latest r_ts) (rev (map (fun b => blob_get_latest (b_idx b) k meta) (blobs_in_order s))) NotFound.
Proof. rewrite get_latest_entry_newest_first, newest_first_rev, fold_left_map_rr, map_rev. reflexivity. Qed.

Lemma abs_of_key_bio s k : of_key k (abs s) = of_key k (flat_map b_recs (blobs_in_order s)).
Proof. reflexivity. Qed.

(* the index of b' has for key k the entry the index of b has *)
Definition isame (k : N) (b b' : blob) : Prop := imap_get (b_idx b') k = imap_get (b_idx b) k.

(* blob b' is to key k what blob b is *)
Definition bsame (k : N) (b b' : blob) : Prop := of_key k (b_recs b') = of_key k (b_recs b) /\ isame k b b'.

Lemma bsame_refl k b : bsame k b b.
Proof. split; reflexivity. Qed.

(* every read of key k is answered as before *)
Definition rsame (k : N) (s s' : storage) : Prop :=
  forall meta, get_latest_entry s' k meta = get_latest_entry s k meta.

(* key k is unaffected: same records in the log, same answer to every read *)
Definition keeps (k : N) (s s' : storage) : Prop := of_key k (abs s') = of_key k (abs s) /\ rsame k s s'.

Lemma rsame_refl k s : rsame k s s.
Proof. intros meta. reflexivity. Qed.

Lemma rsame_trans k s1 s2 s3 : rsame k s1 s2 -> rsame k s2 s3 -> rsame k s1 s3.
Proof. intros B1 B2 meta. rewrite B2. apply B1. Qed.

Lemma keeps_refl k s : keeps k s s.
Proof. split; [reflexivity|apply rsame_refl]. Qed.

Lemma keeps_trans k s1 s2 s3 : keeps k s1 s2 -> keeps k s2 s3 -> keeps k s1 s3.
Proof.
  intros [A1 B1] [A2 B2]. split; [rewrite A2; exact A1|]. apply (rsame_trans _ _ _ _ B1 B2).
Qed.

Lemma F2_impl {A B} (R R' : A -> B -> Prop) l l' :
  (forall a b, R a b -> R' a b) -> Forall2 R l l' -> Forall2 R' l l'.
Proof. intros HI. induction 1 as [|a b l l' Hab HF IH]; constructor; [apply HI, Hab|exact IH]. Qed.

Lemma F2_of_key k l l' :
  Forall2 (bsame k) l l' -> of_key k (flat_map b_recs l') = of_key k (flat_map b_recs l).
Proof.
  induction 1 as [|b b' l l' Hb HF IH]; [reflexivity|].
  cbn [flat_map]. rewrite !of_key_app, IH, (proj1 Hb). reflexivity.
Qed.

Lemma F2_reads k meta l l' :
  Forall2 (isame k) l l' ->
  map (fun b => blob_get_latest (b_idx b) k meta) l' = map (fun b => blob_get_latest (b_idx b) k meta) l.
Proof.
  induction 1 as [|b b' l l' Hb HF IH]; [reflexivity|].
  cbn [map]. rewrite IH, (blob_get_latest_ext (b_idx b) (b_idx b') k meta Hb). reflexivity.
Qed.

Lemma rsame_F2 k s s' : Forall2 (isame k) (blobs_in_order s) (blobs_in_order s') -> rsame k s s'.
Proof. intros HF meta. rewrite !gle_as_fold, (F2_reads k meta _ _ HF). reflexivity. Qed.

Lemma keeps_F2 k s s' : Forall2 (bsame k) (blobs_in_order s) (blobs_in_order s') -> keeps k s s'.
Proof.
  intros HF. split.
  - rewrite !abs_of_key_bio. apply F2_of_key, HF.
  - apply rsame_F2. apply (F2_impl (bsame k) (isame k)) with (2 := HF). intros b b' H. apply H.
Qed.

Lemma F2_bsame_refl k l : Forall2 (bsame k) l l.
Proof. induction l as [|x l IH]; constructor; [apply bsame_refl|exact IH]. Qed.

Lemma keeps_bio k s s' : blobs_in_order s' = blobs_in_order s -> keeps k s s'.
Proof.
  intros H. apply keeps_F2. rewrite H. apply F2_bsame_refl.
Qed.

Lemma keeps_ext k s s' : s_closed s' = s_closed s -> s_active s' = s_active s -> keeps k s s'.
Proof. intros Hc Ha. apply keeps_bio. rewrite !bio_eq, Hc, Ha. reflexivity. Qed.

(* a fresh, empty blob at the end *)
Lemma keeps_grow k s s' nb :
  blobs_in_order s' = blobs_in_order s ++ [nb] -> b_recs nb = [] -> b_idx nb = [] -> keeps k s s'.
Proof.
  intros H Hr Hi. split.
  - rewrite !abs_of_key_bio, H, flat_map_app. cbn [flat_map]. rewrite Hr, !app_nil_r. reflexivity.
  - intros meta. rewrite !gle_as_fold, H, map_app, rev_app_distr. cbn [map rev app fold_left].
    rewrite Hi, blob_get_latest_nil, rr_latest_NotFound_l. reflexivity.
Qed.

Lemma keeps_ensure_active k s : keeps k s (ensure_active s).
Proof.
  unfold ensure_active. destruct (s_active s) as [a|] eqn:E; [apply keeps_refl|].
  apply (keeps_grow k _ _ (new_blob (s_next s))); [|reflexivity|reflexivity].
  rewrite !bio_eq, E. cbn [s_closed s_active oa]. rewrite app_nil_r. reflexivity.
Qed.

Lemma keeps_request_dump k s : keeps k s (request_dump s).
Proof. unfold request_dump. destruct (s_alive s); [apply keeps_ext; reflexivity|apply keeps_refl]. Qed.

Lemma keeps_replace_active k s : keeps k s (replace_active s).
Proof.
  apply (keeps_grow k _ _ (new_blob (s_next s))); [|reflexivity|reflexivity].
  unfold replace_active. rewrite !bio_eq. cbn [s_closed s_active oa].
  destruct (s_active s) as [a|]; cbn [push_closed upd_closed s_closed oa].
  - rewrite cb_app. reflexivity.
  - rewrite app_nil_r. reflexivity.
Qed.

(* ================= 2. ReadResult::latest as an operation: what markers merged into a list of answers can do ================= *)

(* ---------- ReadResult::latest is "leftmost maximum" ---------- *)
Definition lv (a : rr rec) : N := match rr_ts r_ts a with Some t => t + 1 | None => 0 end.

Lemma latest_cases (a b : rr rec) :
  (lv a < lv b /\ rr_latest r_ts a b = b) \/ (lv b <= lv a /\ rr_latest r_ts a b = a).
Proof.
  unfold rr_latest, lv. destruct (rr_ts r_ts a) as [ta|], (rr_ts r_ts b) as [tb|]; cbn [opt_gt].
  - destruct (N.ltb_spec ta tb); [left|right]; split; try reflexivity; lia.
  - right. split; [lia|reflexivity].
  - left. split; [lia|reflexivity].
  - right. split; [lia|reflexivity].
Qed.

Ltac lat_step :=
  match goal with
  | |- context [rr_latest r_ts ?a ?b] =>
    lazymatch a with context [rr_latest] => fail | _ => idtac end;
    lazymatch b with context [rr_latest] => fail | _ => idtac end;
    let H := fresh "H" in let E := fresh "E" in
    destruct (latest_cases a b) as [[H E]|[H E]]; rewrite !E
  end.
Ltac lat := repeat lat_step; first [reflexivity | left; reflexivity | right; reflexivity | exfalso; lia].

Section Tri.
Variable D : rr rec.

Lemma lat_L1 (X x : rr rec) :
  rr_latest r_ts X (rr_latest r_ts D x) = rr_latest r_ts X x \/
  rr_latest r_ts X (rr_latest r_ts D x) = rr_latest r_ts D (rr_latest r_ts X x).
Proof. lat. Qed.

Lemma lat_L2 (X x : rr rec) :
  rr_latest r_ts (rr_latest r_ts D X) (rr_latest r_ts D x) = rr_latest r_ts D (rr_latest r_ts X x).
Proof. lat. Qed.

(* x: the answer of a blob before the delete; y: in the state left by the dropped delete; z: after the completed one *)
Inductive tri : rr rec -> rr rec -> rr rec -> Prop :=
| tri_none x : tri x x x                                               (* the delete does not touch the blob *)
| tri_later x : tri x x (rr_latest r_ts D x)                           (* not yet indexed *)
| tri_done x : tri x (rr_latest r_ts D x) (rr_latest r_ts D x).        (* indexed *)

Inductive Tri : list (rr rec) -> list (rr rec) -> list (rr rec) -> Prop :=
| Tri_nil : Tri [] [] []
| Tri_cons x y z xs ys zs : tri x y z -> Tri xs ys zs -> Tri (x :: xs) (y :: ys) (z :: zs).

Lemma Tri_app xs1 ys1 zs1 xs2 ys2 zs2 :
  Tri xs1 ys1 zs1 -> Tri xs2 ys2 zs2 -> Tri (xs1 ++ xs2) (ys1 ++ ys2) (zs1 ++ zs2).
Proof. induction 1 as [|x y z xs ys zs Ht HT IH]; intros H2; [exact H2|]. cbn [app]. constructor; [exact Ht|apply IH, H2]. Qed.

(* the storage's answer, from the answers of the blobs in creation order *)
Definition merged (l : list (rr rec)) : rr rec := fold_left (rr_latest r_ts) (rev l) NotFound.

Lemma merged_cons x l : merged (x :: l) = rr_latest r_ts (merged l) x.
Proof. unfold merged. cbn [rev]. rewrite fold_left_app. reflexivity. Qed.

Lemma Tri_merged xs ys zs :
  Tri xs ys zs ->
  (merged ys = merged xs \/ merged ys = merged zs) /\
  (merged zs = merged xs \/ merged zs = rr_latest r_ts D (merged xs)).
Proof.
  induction 1 as [|x y z xs ys zs Ht HT [IHy IHz]]; [split; left; reflexivity|].
  rewrite !merged_cons. set (X := merged xs) in *. set (Y := merged ys) in *. set (Z := merged zs) in *.
  clearbody X Y Z. split.
  - destruct Ht as [x|x|x].
    + destruct IHy as [-> | ->]; [left|right]; reflexivity.
    + destruct IHy as [-> | ->]; [left; reflexivity|].
      destruct IHz as [-> | ->]; [left; reflexivity|]. right.
      rewrite lat_L2. symmetry. apply rr_latest_assoc.
    + destruct IHy as [-> | ->]; [|right; reflexivity].
      destruct IHz as [-> | ->]; [right; reflexivity|]. rewrite lat_L2. apply lat_L1.
  - destruct Ht as [x|x|x].
    + destruct IHz as [-> | ->]; [left; reflexivity|right]. symmetry. apply rr_latest_assoc.
    + destruct IHz as [-> | ->]; [apply lat_L1|right; apply lat_L2].
    + destruct IHz as [-> | ->]; [apply lat_L1|right; apply lat_L2].
Qed.

End Tri.

(* ---------- one blob: pushing a marker into its index ---------- *)
Definition vec_at (m : imap) (k : N) : list rec := match imap_get m k with Some v => v | None => [] end.

Lemma bgl_vec m k meta :
  blob_get_latest m k meta =
  match meta with Some mt => scan mt (rev (vec_at m k)) | None => to_rr (last_opt (vec_at m k)) end.
Proof.
  destruct meta as [mt|]; cbn [blob_get_latest].
  - change (blob_get_with_meta m k mt) with (res mt (idx_get_all_dm m k)).
    replace (idx_get_all_dm m k) with (cut_after_del (rev (vec_at m k))); [apply res_cut|].
    unfold idx_get_all_dm, vec_at. destruct (imap_get m k); reflexivity.
  - unfold idx_get_latest, vec_at, last_opt, to_rr. destruct (imap_get m k) as [v|]; [|reflexivity].
    destruct (rev v); reflexivity.
Qed.

Lemma push_vec_at m mk : vec_at (imap_push m mk) (r_key mk) = vec_insert (vec_at m (r_key mk)) mk.
Proof. unfold vec_at. rewrite imap_get_push, N.eqb_refl. destruct (imap_get m (r_key mk)); reflexivity. Qed.

Lemma vec_at_index_of rs k : vec_at (index_of rs) k = vec_of (of_key k rs).
Proof. unfold vec_at. rewrite imap_get_index_of. destruct (of_key k rs); reflexivity. Qed.

(* the answer of the blob with the marker indexed = the marker merged, as the OLDER of the two at equal
   timestamps, with the answer of the blob without it *)
Lemma bgl_push b mk meta :
  idx_ok b -> r_del mk = true ->
  blob_get_latest (imap_push (b_idx b) mk) (r_key mk) meta =
  rr_latest r_ts (Deleted (r_ts mk)) (blob_get_latest (b_idx b) (r_key mk) meta).
Proof.
  intros Hi Hd. unfold idx_ok in Hi. rewrite !bgl_vec, push_vec_at.
  assert (Hs : sorted_ts (vec_at (b_idx b) (r_key mk))) by (rewrite Hi, vec_at_index_of; apply vec_of_sorted).
  assert (Hr : sdesc (rev (vec_at (b_idx b) (r_key mk)))).
  { rewrite Hi, vec_at_index_of, rev_vec_of. apply sort_desc_sdesc. }
  set (v := vec_at (b_idx b) (r_key mk)) in *. clearbody v.
  destruct meta as [mt|].
  - rewrite rev_vec_insert by exact Hs. rewrite scan_ins by exact Hr. cbn [scan]. rewrite Hd. reflexivity.
  - rewrite last_vec_insert by exact Hs. rewrite pick_combine.
    assert (E : to_rr (Some mk) = Deleted (r_ts mk)) by (cbn [to_rr]; rewrite Hd; reflexivity).
    rewrite <- E, rr_latest_to_rr. reflexivity.
Qed.

(* ================= 3. states related slot by slot ================= *)

Inductive orel (R : blob -> blob -> Prop) : option blob -> option blob -> Prop :=
| orel_none : orel R None None
| orel_some b b' : R b b' -> orel R (Some b) (Some b').

Lemma orel_refl (R : blob -> blob -> Prop) o : (forall b, R b b) -> orel R o o.
Proof. intros H. destruct o; constructor. apply H. Qed.

Lemma F2_orel_refl (R : blob -> blob -> Prop) l : (forall b, R b b) -> Forall2 (orel R) l l.
Proof. intros H. induction l as [|x l IH]; constructor; [apply orel_refl, H|exact IH]. Qed.

Record shape (R : blob -> blob -> Prop) (s s' : storage) : Prop := mk_shape {
  sh_closed : Forall2 (orel R) (s_closed s) (s_closed s');
  sh_active : orel R (s_active s) (s_active s');
  sh_next : s_next s' = s_next s \/ s_next s' = s_next s + 1;
  sh_alive : s_alive s' = s_alive s;
  sh_open : s_open s' = s_open s;
  sh_qf : qf s' = qf s
}.

Lemma cb_F2 (R : blob -> blob -> Prop) l l' : Forall2 (orel R) l l' -> Forall2 R (cb l) (cb l').
Proof.
  induction 1 as [|o o' l l' Ho HF IH]; [constructor|].
  destruct Ho as [|b b' Hb]; [rewrite !cb_cons_none; exact IH|].
  rewrite !cb_cons_some. constructor; [exact Hb|exact IH].
Qed.

Lemma shape_bio (R : blob -> blob -> Prop) s s' : shape R s s' -> Forall2 R (blobs_in_order s) (blobs_in_order s').
Proof.
  intros H. rewrite !bio_eq. apply Forall2_app; [apply cb_F2, (sh_closed _ _ _ H)|].
  destruct (sh_active _ _ _ H) as [|b b' Hb]; cbn [oa]; [constructor|]. constructor; [exact Hb|constructor].
Qed.

Lemma shape_impl (R R' : blob -> blob -> Prop) s s' :
  (forall b b', R b b' -> R' b b') -> shape R s s' -> shape R' s s'.
Proof.
  intros HI [Hc Ha Hn Hl Ho Hq]. constructor; try assumption.
  - apply (F2_impl (orel R) (orel R')) with (2 := Hc). intros o o' [|b b' Hb]; constructor. apply HI, Hb.
  - destruct Ha as [|b b' Hb]; constructor. apply HI, Hb.
Qed.

Lemma shape_keeps (R : blob -> blob -> Prop) k s s' : (forall b b', R b b' -> bsame k b b') -> shape R s s' -> keeps k s s'.
Proof.
  intros HI H. apply keeps_F2. apply (F2_impl R (bsame k)) with (2 := shape_bio _ _ _ H). exact HI.
Qed.

Lemma shape_good (R : blob -> blob -> Prop) s s' : (forall b b', R b b' -> bext b b') -> shape R s s' -> good s s'.
Proof.
  intros HI H.
  assert (HF : Forall2 bext (blobs_in_order s) (blobs_in_order s')).
  { apply (F2_impl R bext) with (2 := shape_bio _ _ _ H). exact HI. }
  split; [apply F2_lext, HF|]. split; [destruct (sh_next _ _ _ H) as [E|E]; rewrite E; lia|].
  intros b' Hb'. left. apply (F2_ids _ _ HF b' Hb').
Qed.

Lemma shape_aim (R : blob -> blob -> Prop) s s' :
  (forall b b', R b b' -> b_ondisk b = false -> b_ondisk b' = false) ->
  shape R s s' -> ActiveInMemory s -> ActiveInMemory s'.
Proof.
  intros HI H HA b' Hb'. pose proof (sh_active _ _ _ H) as Ha. rewrite Hb' in Ha.
  inversion Ha as [|b b0 Hb Eb E0]. subst b0. apply (HI b b' Hb). apply HA. symmetry. exact Eb.
Qed.

Lemma F2_ids_eq (R : blob -> blob -> Prop) l l' :
  (forall b b', R b b' -> b_id b' = b_id b) -> Forall2 R l l' -> map b_id l' = map b_id l.
Proof.
  intros HI. induction 1 as [|b b' l l' Hb HF IH]; [reflexivity|]. cbn [map]. rewrite IH, (HI b b' Hb). reflexivity.
Qed.

Lemma shape_ids (R : blob -> blob -> Prop) s s' : (forall b b', R b b' -> b_id b' = b_id b) -> shape R s s' -> IdsOk s -> IdsOk s'.
Proof.
  intros HI H HK. apply IdsOk_iff in HK. destruct HK as (Hinc & Hlt & H3 & H4 & H5 & H6).
  pose proof (F2_ids_eq R _ _ HI (shape_bio _ _ _ H)) as E. fold (ids s') in E. fold (ids s) in E.
  destruct (qf_inv _ _ (sh_qf _ _ _ H)) as (Eq & Eb & Ec).
  apply IdsOk_iff. rewrite E, (sh_open _ _ _ H), Eq, Eb, Ec.
  split; [exact Hinc|]. split; [|split; [|split; [exact H4|split; [exact H5|exact H6]]]].
  - intros Ho i Hi. specialize (Hlt Ho i Hi). destruct (sh_next _ _ _ H) as [En|En]; rewrite En; lia.
  - intros Ho q Hq. specialize (H3 Ho q Hq). destruct (sh_next _ _ _ H) as [En|En]; rewrite En; lia.
Qed.

(* ---------- building shapes ---------- *)
Lemma shape_upd_active (R : blob -> blob -> Prop) s b b' :
  (forall x, R x x) -> s_active s = Some b -> R b b' -> shape R s (upd_active s (Some b')).
Proof.
  intros Hr E Hb. constructor; cbn [upd_active s_closed s_active s_next s_alive s_open]; auto.
  - apply F2_orel_refl, Hr.
  - rewrite E. constructor. exact Hb.
Qed.

Lemma shape_burn_id (R : blob -> blob -> Prop) s : (forall x, R x x) -> shape R s (burn_id s).
Proof.
  intros Hr. constructor; cbn [burn_id s_closed s_active s_next s_alive s_open]; auto.
  - apply F2_orel_refl, Hr.
  - apply orel_refl, Hr.
Qed.

Lemma shape_refl (R : blob -> blob -> Prop) s : (forall x, R x x) -> shape R s s.
Proof. intros Hr. constructor; auto; [apply F2_orel_refl, Hr|apply orel_refl, Hr]. Qed.

Section K.
Variable K : N.
Variable cfg : config.

(* ================= 4. one blob ================= *)

(* what any stage of an append of r (write: r = the record; delete: r = the marker) makes of a blob *)
Definition stage_ok (r : rec) (b b' : blob) : Prop :=
  b_id b' = b_id b /\
  (b_recs b' = b_recs b \/ b_recs b' = b_recs b ++ [r]) /\
  (b_idx b' = b_idx b \/ b_idx b' = imap_push (b_idx b) r) /\
  (b_ondisk b = false -> b_ondisk b' = false).

Lemma stage_ok_refl r b : stage_ok r b b.
Proof. repeat split; auto. Qed.

Lemma stage_ok_id r b b' : stage_ok r b b' -> b_id b' = b_id b.
Proof. intros H. apply H. Qed.

Lemma stage_ok_mem r b b' : stage_ok r b b' -> b_ondisk b = false -> b_ondisk b' = false.
Proof. intros H. apply H. Qed.

Lemma stage_ok_bext r b b' : stage_ok r b b' -> bext b b'.
Proof.
  intros (Hi & [Hr|Hr] & _). 
  - apply bext_same; assumption.
  - split; [exact Hi|]. exists [r]. exact Hr.
Qed.

Lemma of_key_other r k : r_key r <> k -> of_key k [r] = [].
Proof. intros H. cbn [of_key filter]. destruct (N.eqb_spec (r_key r) k); [contradiction|reflexivity]. Qed.

Lemma stage_ok_bsame r k b b' : r_key r <> k -> stage_ok r b b' -> bsame k b b'.
Proof.
  intros Hk (_ & Hr & Hx & _). split.
  - destruct Hr as [->| ->]; [reflexivity|]. rewrite of_key_app, of_key_other by exact Hk. apply app_nil_r.
  - unfold isame. destruct Hx as [->| ->]; [reflexivity|]. rewrite imap_get_push.
    destruct (N.eqb_spec (r_key r) k); [contradiction|reflexivity].
Qed.

(* loading the index of a blob whose index file is trusted only when it describes the whole blob *)
Lemma load_index_idx b : blob_ok K b -> b_idx (blob_load_index K b) = b_idx b.
Proof.
  intros [Hi Hf]. unfold blob_load_index. destruct (b_ondisk b); [|reflexivity]. cbn [b_idx].
  destruct (b_idxfile b) as [[sz m]|] eqn:E; [|symmetry; exact Hi].
  destruct (N.eqb_spec sz (blob_size K b)) as [Hs|_]; [|symmetry; exact Hi].
  rewrite (idxfile_full K b sz m Hf E Hs). symmetry. exact Hi.
Qed.

Lemma load_index_ok r b : blob_ok K b -> stage_ok r b (blob_load_index K b).
Proof.
  intros Hb. split; [apply blob_load_index_id|]. split; [left; apply blob_load_index_recs|].
  split; [left; apply load_index_idx, Hb|]. intros _. apply blob_load_index_mem.
Qed.

Lemma unindexed_ok r b : stage_ok r b (append_unindexed b r).
Proof. repeat split; cbn [append_unindexed b_id b_recs b_idx b_ondisk]; auto. Qed.

Lemma append_ok r b : stage_ok r b (fst (blob_append b r)).
Proof.
  unfold stage_ok, blob_append. destruct (b_ondisk b) eqn:E; cbn [fst b_id b_recs b_idx b_ondisk].
  - split; [reflexivity|]. split; [right; reflexivity|]. split; [left; reflexivity|]. intros H. discriminate H.
  - split; [reflexivity|]. split; [right; reflexivity|]. split; [right; reflexivity|]. intros _. reflexivity.
Qed.

(* a stage of an append to the loaded blob is a stage of an append to the blob *)
Lemma stage_after_load r b b' : blob_ok K b -> stage_ok r (blob_load_index K b) b' -> stage_ok r b b'.
Proof.
  intros Hb (Hi & Hr & Hx & Hm).
  rewrite blob_load_index_id in Hi. rewrite blob_load_index_recs in Hr. rewrite (load_index_idx b Hb) in Hx.
  split; [exact Hi|]. split; [exact Hr|]. split; [exact Hx|]. intros _. apply Hm, blob_load_index_mem.
Qed.

Lemma delete_stage_ok mk b b' : blob_ok K b -> delete_stage K mk b b' -> stage_ok mk b b'.
Proof.
  intros Hb [ | | | ].
  - apply stage_ok_refl.
  - apply load_index_ok, Hb.
  - apply stage_after_load; [exact Hb|apply unindexed_ok].
  - apply stage_after_load; [exact Hb|apply append_ok].
Qed.

Lemma blob_delete_eq b mk oip :
  blob_delete K b mk oip =
  if delete_applies b mk oip
  then (fst (blob_append (blob_load_index K b) mk), true, snd (blob_append (blob_load_index K b) mk))
  else (b, false, true).
Proof.
  unfold blob_delete, delete_applies, is_found.
  destruct (negb oip || match idx_get_latest (b_idx b) (r_key mk) with Found _ => true | _ => false end); [|reflexivity].
  destruct (blob_append (blob_load_index K b) mk); reflexivity.
Qed.

(* the completed Blob::delete is the last stage (or nothing, when the blob does not hold the key) *)
Lemma blob_delete_stage b mk oip :
  fst (fst (blob_delete K b mk oip)) = if delete_applies b mk oip then fst (blob_append (blob_load_index K b) mk) else b.
Proof. rewrite blob_delete_eq. destruct (delete_applies b mk oip); reflexivity. Qed.

Lemma blob_delete_ok b mk oip : blob_ok K b -> stage_ok mk b (fst (fst (blob_delete K b mk oip))).
Proof.
  intros Hb. rewrite blob_delete_stage. destruct (delete_applies b mk oip); [|apply stage_ok_refl].
  apply delete_stage_ok; [exact Hb|apply ds_done].
Qed.

(* a stage of Blob::delete, remembering that a marker is written only where Blob::delete applies *)
Definition dstage (mk : rec) (oip : bool) (b b' : blob) : Prop :=
  stage_ok mk b b' /\ (delete_applies b mk oip = true \/ (b_recs b' = b_recs b /\ b_idx b' = b_idx b)).

Lemma dstage_refl mk oip b : dstage mk oip b b.
Proof. split; [apply stage_ok_refl|right; split; reflexivity]. Qed.

Lemma dstage_ok mk oip b b' : dstage mk oip b b' -> stage_ok mk b b'.
Proof. intros H. apply H. Qed.

Lemma delete_stage_d mk oip b b' :
  blob_ok K b -> delete_applies b mk oip = true -> delete_stage K mk b b' -> dstage mk oip b b'.
Proof. intros Hb Ha Hs. split; [apply delete_stage_ok; assumption|left; exact Ha]. Qed.

Lemma blob_delete_d b mk oip : blob_ok K b -> dstage mk oip b (fst (fst (blob_delete K b mk oip))).
Proof.
  intros Hb. rewrite blob_delete_stage. destruct (delete_applies b mk oip) eqn:A; [|apply dstage_refl].
  apply delete_stage_d; [exact Hb|exact A|apply ds_done].
Qed.

Lemma slot_stage_d mk o o' :
  (forall b, o = Some b -> blob_ok K b) -> slot_stage K mk o o' -> orel (dstage mk true) o o'.
Proof.
  intros Hb H. revert Hb. destruct H as [|b Hn|b b' Ha Hs]; intros Hb; constructor.
  - apply dstage_refl.
  - apply delete_stage_d; [apply Hb; reflexivity|exact Ha|exact Hs].
Qed.

Lemma slots_stage_d mk l l' :
  (forall b, In (Some b) l -> blob_ok K b) -> Forall2 (slot_stage K mk) l l' -> Forall2 (orel (dstage mk true)) l l'.
Proof.
  intros Hb HF. induction HF as [|o o' l l' Ho HF IH]; constructor.
  - apply slot_stage_d; [|exact Ho]. intros b ->. apply Hb. left. reflexivity.
  - apply IH. intros b Hin. apply Hb. right. exact Hin.
Qed.

(* a state of a delete: closed slots at a stage of Blob::delete(only_if_presented = true), the active blob at a
   stage of Blob::delete(only_if_presented = oip) *)
Record dshape (mk : rec) (oip : bool) (s s' : storage) : Prop := mk_dshape {
  dsh_closed : Forall2 (orel (dstage mk true)) (s_closed s) (s_closed s');
  dsh_active : orel (dstage mk oip) (s_active s) (s_active s');
  dsh_next : s_next s' = s_next s \/ s_next s' = s_next s + 1;
  dsh_alive : s_alive s' = s_alive s;
  dsh_open : s_open s' = s_open s;
  dsh_qf : qf s' = qf s
}.

Lemma dshape_shape mk oip s s' : dshape mk oip s s' -> shape (stage_ok mk) s s'.
Proof.
  intros [Hc Ha Hn Hl Ho Hq]. constructor; try assumption.
  - apply (F2_impl (orel (dstage mk true)) (orel (stage_ok mk))) with (2 := Hc).
    intros o o' [|b b' Hb]; constructor. apply (dstage_ok _ _ _ _ Hb).
  - destruct Ha as [|b b' Hb]; constructor. apply (dstage_ok _ _ _ _ Hb).
Qed.

Lemma dshape_refl mk oip s : dshape mk oip s s.
Proof.
  constructor; auto; [apply F2_orel_refl; intros b; apply dstage_refl|apply orel_refl; intros b; apply dstage_refl].
Qed.

(* the completed loop over the closed blobs is the instance "every slot fully processed" *)
Lemma delete_in_closed_slots l mk : forall l' n f,
  delete_in_closed K l mk = (l', n, f) -> Forall2 (slot_stage K mk) l l'.
Proof.
  induction l as [|[x|] l IH]; intros l' n f E; cbn [delete_in_closed] in E.
  - injection E as <- <- <-. constructor.
  - destruct (delete_in_closed K l mk) as [[r' n1] f1] eqn:D.
    pose proof (blob_delete_stage x mk true) as HS.
    destruct (blob_delete K x mk true) as [[b' d] ok] eqn:B. cbn [fst] in HS.
    injection E as <- <- <-. constructor; [|apply (IH _ _ _ eq_refl)].
    destruct (delete_applies x mk true) eqn:A; subst b'.
    + apply ss_stage; [exact A|apply ds_done].
    + apply ss_skip, A.
  - destruct (delete_in_closed K l mk) as [[r' n1] f1] eqn:D.
    injection E as <- <- <-. constructor; [constructor|apply (IH _ _ _ eq_refl)].
Qed.

(* ================= 5. what "safe" means, and how it composes ================= *)

(* P : the keys that must not be affected *)
Definition safe (P : N -> Prop) (s s' : storage) : Prop :=
  (forall k, P k -> keeps k s s') /\ good s s' /\ (ActiveInMemory s -> ActiveInMemory s') /\
  s_alive s' = s_alive s /\ (IdsOk s -> IdsOk s') /\ s_open s' = s_open s.

Lemma safe_refl P s : safe P s s.
Proof.
  split; [intros k _; apply keeps_refl|]. split; [apply good_refl|].
  split; [auto|]. split; [reflexivity|]. split; [auto|reflexivity].
Qed.

Lemma safe_trans P s1 s2 s3 : safe P s1 s2 -> safe P s2 s3 -> safe P s1 s3.
Proof.
  intros (A1 & B1 & C1 & D1 & E1 & F1) (A2 & B2 & C2 & D2 & E2 & F2).
  split; [intros k Hk; apply (keeps_trans _ _ _ _ (A1 k Hk) (A2 k Hk))|].
  split; [apply (good_trans _ _ _ B1 B2)|]. split; [auto|]. split; [congruence|]. split; [auto|congruence].
Qed.

Lemma safe_shape r s s' : shape (stage_ok r) s s' -> safe (fun k => r_key r <> k) s s'.
Proof.
  intros H. split.
  { intros k Hk. apply (shape_keeps (stage_ok r)); [|exact H]. intros b b'. apply stage_ok_bsame, Hk. }
  split; [apply (shape_good (stage_ok r)); [apply stage_ok_bext|exact H]|].
  split; [apply (shape_aim (stage_ok r)); [apply stage_ok_mem|exact H]|].
  split; [apply (sh_alive _ _ _ H)|].
  split; [apply (shape_ids (stage_ok r)); [apply stage_ok_id|exact H]|apply (sh_open _ _ _ H)].
Qed.

Lemma safe_ensure_active P s : s_open s = true -> safe P s (ensure_active s).
Proof.
  intros Ho. split; [intros k _; apply keeps_ensure_active|]. split; [apply good_ensure_active|].
  split; [apply aim_ensure_active|]. split; [apply alive_ensure_active|].
  split; [|apply open_ensure_active].
  intros H. apply IdsOkS_IdsOk, IdsOkS_ensure_active, IdsOk_IdsOkS; assumption.
Qed.

(* ================= 6. the completed operations do not affect other keys ================= *)

Definition same_blobs (s s' : storage) : Prop :=
  s_closed s' = s_closed s /\ s_active s' = s_active s /\ s_next s' = s_next s /\
  s_alive s' = s_alive s /\ s_open s' = s_open s /\ qf s' = qf s.

Lemma shape_same (R : blob -> blob -> Prop) s s1 s2 : shape R s s1 -> same_blobs s1 s2 -> shape R s s2.
Proof.
  intros [Hc Ha Hn Hl Ho Hq] (E1 & E2 & E3 & E4 & E5 & E6). constructor; rewrite ?E1, ?E2, ?E3, ?E4, ?E5, ?E6; assumption.
Qed.

Lemma dshape_same mk oip s s1 s2 : dshape mk oip s s1 -> same_blobs s1 s2 -> dshape mk oip s s2.
Proof.
  intros [Hc Ha Hn Hl Ho Hq] (E1 & E2 & E3 & E4 & E5 & E6). constructor; rewrite ?E1, ?E2, ?E3, ?E4, ?E5, ?E6; assumption.
Qed.

Lemma same_blobs_refl s : same_blobs s s.
Proof. repeat split. Qed.

Lemma same_blobs_request_dump s : same_blobs s (request_dump s).
Proof. unfold request_dump. destruct (s_alive s); repeat split. Qed.

Lemma keeps_maybe_rotate k s : keeps k s (maybe_rotate K cfg s).
Proof.
  unfold maybe_rotate. destruct (s_active s) as [a|]; [|apply keeps_refl].
  destruct (blob_full K cfg a && s_aged s && s_alive s); [|apply keeps_refl].
  apply (keeps_trans _ _ _ _ (keeps_replace_active k s)), keeps_request_dump.
Qed.

Lemma keeps_close_active k s : keeps k s (fst (close_active s)).
Proof.
  unfold close_active. destruct (s_active s) as [a|] eqn:E; cbn [fst]; [|apply keeps_refl].
  apply keeps_bio. rewrite !bio_eq, E.
  cbn [push_closed upd_closed upd_active s_closed s_active oa]. rewrite cb_app, app_nil_r. reflexivity.
Qed.

Lemma keeps_create_active k s : keeps k s (fst (create_active s)).
Proof.
  unfold create_active. destruct (s_active s) as [a|] eqn:E; cbn [fst]; [apply keeps_refl|apply keeps_ensure_active].
Qed.

Lemma load_index_bsame k b : blob_ok K b -> bsame k b (blob_load_index K b).
Proof.
  intros Hb. split; [rewrite blob_load_index_recs; reflexivity|].
  unfold isame. rewrite (load_index_idx b Hb). reflexivity.
Qed.

Lemma keeps_restore_active k s : BlobsOk K s -> keeps k s (fst (restore_active K s)).
Proof.
  intros HB. unfold restore_active. destruct (s_active s) as [a|] eqn:E; cbn [fst]; [apply keeps_refl|].
  destruct (pop_last (s_closed s)) as [[b c]|] eqn:P; cbn [fst]; [|apply keeps_refl].
  apply keeps_F2. rewrite !bio_eq, E. cbn [upd_closed upd_active s_closed s_active oa].
  rewrite (pop_last_cb _ _ _ P), app_nil_r.
  apply Forall2_app; [apply F2_bsame_refl|]. constructor; [|constructor].
  apply load_index_bsame. apply (proj1 HB). exact (proj1 (pop_last_in _ _ _ P)).
Qed.

(* the completed write, slot by slot, before the rotation request *)
Lemma do_write_shape s k ts meta msize dlen dseed :
  let r := mk_rec k ts false meta msize dlen dseed in
  exists s2, shape (stage_ok r) (ensure_active s) s2 /\
             (abs s2 = abs (ensure_active s) \/ abs s2 = abs (ensure_active s) ++ [r]) /\
             (fst (do_write K cfg s k ts meta msize dlen dseed) = maybe_rotate K cfg s2 \/
              same_blobs s2 (fst (do_write K cfg s k ts meta msize dlen dseed))).
Proof.
  intros r. unfold do_write. set (s1 := ensure_active s).
  destruct (negb (c_dup cfg) && is_found (get_latest_entry s1 k meta)); cbn [fst].
  { exists s1. split; [apply shape_refl, stage_ok_refl|]. split; [left; reflexivity|right; apply same_blobs_refl]. }
  destruct (s_active s1) as [a|] eqn:EA; cbn [fst].
  2:{ exists s1. split; [apply shape_refl, stage_ok_refl|]. split; [left; reflexivity|right; apply same_blobs_refl]. }
  fold r. pose proof (append_ok r a) as Hb.
  assert (Hr : b_recs (fst (blob_append a r)) = b_recs a ++ [r]).
  { unfold blob_append. destruct (b_ondisk a); reflexivity. }
  destruct (blob_append a r) as [b' ok]. cbn [fst] in Hb, Hr.
  exists (upd_active s1 (Some b')). split; [apply (shape_upd_active _ _ a b'); [apply stage_ok_refl|exact EA|exact Hb]|].
  split.
  - right. rewrite !abs_eq, EA. cbn [upd_active s_closed s_active]. rewrite Hr, app_assoc. reflexivity.
  - destruct ok; cbn [fst]; [left; reflexivity|right; repeat split].
Qed.

Lemma keeps_do_write s k ts meta msize dlen dseed k' :
  k <> k' -> keeps k' s (fst (do_write K cfg s k ts meta msize dlen dseed)).
Proof.
  intros Hk. destruct (do_write_shape s k ts meta msize dlen dseed) as (s2 & Hs & _ & Hd).
  apply (keeps_trans _ _ _ _ (keeps_ensure_active k' s)).
  assert (H2 : keeps k' (ensure_active s) s2).
  { apply (shape_keeps (stage_ok (mk_rec k ts false meta msize dlen dseed))); [|exact Hs].
    intros b b'. apply stage_ok_bsame. exact Hk. }
  apply (keeps_trans _ _ _ _ H2). destruct Hd as [-> | (E1 & E2 & _)]; [apply keeps_maybe_rotate|].
  apply keeps_ext; assumption.
Qed.

(* the completed delete, slot by slot: an instance of dp_closed, plus the dump request *)
Lemma delete_in_closed_map l mk :
  fst (fst (delete_in_closed K l mk)) = map (option_map (fun b => fst (fst (blob_delete K b mk true)))) l.
Proof.
  induction l as [|[x|] l IH]; cbn [delete_in_closed map option_map]; [reflexivity| |].
  - destruct (delete_in_closed K l mk) as [[r' n1] f1]. cbn [fst] in IH. subst r'.
    destruct (blob_delete K x mk true) as [[b' d] ok]. reflexivity.
  - destruct (delete_in_closed K l mk) as [[r' n1] f1]. cbn [fst] in IH. subst r'. reflexivity.
Qed.

Lemma do_delete_same s k ts meta msize oip :
  let mk := mk_rec k ts true meta msize 0 0 in
  let s0 := delete_start s oip in
  same_blobs (upd_closed (delete_active_done K s0 mk oip) (fst (fst (delete_in_closed K (s_closed s0) mk))))
             (fst (do_delete K s k ts meta msize oip)).
Proof.
  intros mk s0. unfold do_delete. fold (delete_start s oip). fold mk. fold s0.
  unfold delete_active_done. destruct (s_active s0) as [a|] eqn:EA.
  - pose proof (blob_delete_spec K a mk oip) as HS.
    destruct (blob_delete K a mk oip) as [[b' d] ok] eqn:B. destruct (HS _ _ _ eq_refl) as (-> & _ & _).
    cbn [negb fst]. change (s_closed (upd_active s0 (Some b'))) with (s_closed s0).
    destruct (delete_in_closed K (s_closed s0) mk) as [[c' nc] f]. cbn [fst].
    destruct (0 <? nc); cbn [fst].
    + unfold request_dump. cbn [s_alive upd_f2 upd_closed upd_active]. destruct (s_alive s0); repeat split.
    + repeat split.
  - cbn [negb].
    destruct (delete_in_closed K (s_closed s0) mk) as [[c' nc] f]. cbn [fst].
    destruct (0 <? nc); cbn [fst].
    + unfold request_dump. cbn [s_alive upd_f2 upd_closed]. destruct (s_alive s0); repeat split.
    + repeat split.
Qed.

Lemma do_delete_decomp s k ts meta msize oip :
  let mk := mk_rec k ts true meta msize 0 0 in
  exists c', Forall2 (slot_stage K mk) (s_closed (delete_start s oip)) c' /\
             same_blobs (upd_closed (delete_active_done K (delete_start s oip) mk oip) c')
                        (fst (do_delete K s k ts meta msize oip)).
Proof.
  intros mk. exists (fst (fst (delete_in_closed K (s_closed (delete_start s oip)) mk))).
  split; [|apply do_delete_same].
  pose proof (delete_in_closed_slots (s_closed (delete_start s oip)) mk) as HD.
  destruct (delete_in_closed K (s_closed (delete_start s oip)) mk) as [[c' nc] f]. apply (HD _ _ _ eq_refl).
Qed.

(* the completed delete is Blob::delete applied to every slot *)
Lemma do_delete_slots s k ts meta msize oip :
  let mk := mk_rec k ts true meta msize 0 0 in
  s_closed (fst (do_delete K s k ts meta msize oip)) =
    map (option_map (fun b => fst (fst (blob_delete K b mk true)))) (s_closed (delete_start s oip)) /\
  s_active (fst (do_delete K s k ts meta msize oip)) =
    option_map (fun b => fst (fst (blob_delete K b mk oip))) (s_active (delete_start s oip)).
Proof.
  intros mk. destruct (do_delete_same s k ts meta msize oip) as (E1 & E2 & _). fold mk in E1, E2.
  rewrite E1, E2. cbn [upd_closed s_closed s_active]. split; [apply delete_in_closed_map|].
  unfold delete_active_done. destruct (s_active (delete_start s oip)) as [a|] eqn:EA; [reflexivity|].
  rewrite EA. reflexivity.
Qed.

Lemma BlobsOk_delete_start s oip : BlobsOk K s -> BlobsOk K (delete_start s oip).
Proof. intros H. unfold delete_start. destruct oip; [exact H|apply BlobsOk_ensure_active, H]. Qed.

(* every state of the loop over the closed blobs, the active blob being done *)
Lemma dshape_dp_closed s0 mk oip c' :
  BlobsOk K s0 -> Forall2 (slot_stage K mk) (s_closed s0) c' ->
  dshape mk oip s0 (upd_closed (delete_active_done K s0 mk oip) c').
Proof.
  intros [HBc HBa] HF. unfold delete_active_done.
  destruct (s_active s0) as [a|] eqn:EA; constructor; cbn [upd_closed upd_active s_closed s_active s_next s_alive s_open]; auto.
  - apply slots_stage_d; assumption.
  - rewrite EA. constructor. apply blob_delete_d, HBa. reflexivity.
  - apply slots_stage_d; assumption.
  - rewrite EA. constructor.
Qed.

Lemma do_delete_dshape s k ts meta msize oip :
  BlobsOk K s ->
  dshape (mk_rec k ts true meta msize 0 0) oip (delete_start s oip) (fst (do_delete K s k ts meta msize oip)).
Proof.
  intros HB. destruct (do_delete_decomp s k ts meta msize oip) as (c' & HF & HS).
  apply (dshape_same _ _ _ _ _ (dshape_dp_closed _ _ oip c' (BlobsOk_delete_start s oip HB) HF) HS).
Qed.

Lemma do_delete_shape s k ts meta msize oip :
  BlobsOk K s ->
  shape (stage_ok (mk_rec k ts true meta msize 0 0)) (delete_start s oip) (fst (do_delete K s k ts meta msize oip)).
Proof. intros HB. apply (dshape_shape _ oip), do_delete_dshape, HB. Qed.

Lemma keeps_delete_start k s oip : keeps k s (delete_start s oip).
Proof. unfold delete_start. destruct oip; [apply keeps_refl|apply keeps_ensure_active]. Qed.

Lemma keeps_do_delete s k ts meta msize oip k' :
  BlobsOk K s -> k <> k' -> keeps k' s (fst (do_delete K s k ts meta msize oip)).
Proof.
  intros HB Hk. apply (keeps_trans _ _ _ _ (keeps_delete_start k' s oip)).
  apply (shape_keeps (stage_ok (mk_rec k ts true meta msize 0 0))); [|apply do_delete_shape, HB].
  intros b b'. apply stage_ok_bsame. exact Hk.
Qed.

Lemma keeps_step s o k :
  public_op o = true -> s_open s = true -> BlobsOk K s -> op_key o <> Some k ->
  keeps k s (fst (step K cfg s o)).
Proof.
  intros Hp Ho HB Hk. rewrite (step_open K cfg s o Ho).
  destruct o; try discriminate Hp; cbn [fst]; try apply keeps_refl.
  - apply keeps_do_write. intros ->. apply Hk. reflexivity.
  - apply keeps_do_delete; [exact HB|]. intros ->. apply Hk. reflexivity.
  - pose proof (keeps_close_active k s) as H1. destruct (close_active s) as [s' e]. cbn [fst] in *.
    apply (keeps_trans _ _ _ _ H1), keeps_request_dump.
  - pose proof (keeps_create_active k s) as H1. destruct (create_active s) as [s' e]. exact H1.
  - pose proof (keeps_restore_active k s HB) as H1. destruct (restore_active K s) as [s' e]. exact H1.
Qed.

Lemma alive_step s o : public_op o = true -> s_open s = true -> s_alive (fst (step K cfg s o)) = s_alive s.
Proof.
  intros Hp Ho. rewrite (step_open K cfg s o Ho).
  destruct o; try discriminate Hp; cbn [fst]; try reflexivity.
  - apply alive_do_write.
  - apply alive_do_delete.
  - pose proof (alive_close_active s) as H1. destruct (close_active s) as [s' e]. cbn [fst] in *.
    rewrite alive_request_dump. exact H1.
  - pose proof (alive_create_active s) as H1. destruct (create_active s) as [s' e]. exact H1.
  - pose proof (alive_restore_active K s) as H1. destruct (restore_active K s) as [s' e]. exact H1.
Qed.

Lemma open_step s o : public_op o = true -> s_open s = true -> s_open (fst (step K cfg s o)) = s_open s.
Proof.
  intros Hp Ho. rewrite (step_open K cfg s o Ho).
  destruct o; try discriminate Hp; cbn [fst]; try reflexivity.
  - apply open_do_write.
  - apply open_do_delete.
  - pose proof (open_close_active s) as H1. destruct (close_active s) as [s' e]. cbn [fst] in *.
    rewrite open_request_dump. exact H1.
  - pose proof (open_create_active s) as H1. destruct (create_active s) as [s' e]. exact H1.
  - pose proof (open_restore_active K s) as H1. destruct (restore_active K s) as [s' e]. exact H1.
Qed.

Lemma safe_step s o :
  public_op o = true -> s_open s = true -> BlobsOk K s ->
  safe (fun k => op_key o <> Some k) s (fst (step K cfg s o)).
Proof.
  intros Hp Ho HB. split; [intros k Hk; apply keeps_step; assumption|].
  split; [apply step_good; intros; exact Ho|].
  split; [apply step_ActiveInMemory|]. split; [apply alive_step; assumption|].
  split; [apply step_IdsOk|apply open_step; assumption].
Qed.

(* ================= 7. the states left by a dropped future ================= *)

(* nothing but the place of the index (disk -> memory) changes *)
Definition quiet (b b' : blob) : Prop :=
  b_id b' = b_id b /\ b_recs b' = b_recs b /\ b_idx b' = b_idx b /\ (b_ondisk b = false -> b_ondisk b' = false).

Lemma quiet_refl b : quiet b b.
Proof. repeat split; auto. Qed.

Lemma quiet_stage r b b' : quiet b b' -> stage_ok r b b'.
Proof. intros (H1 & H2 & H3 & H4). repeat split; auto. Qed.

Lemma quiet_bsame k b b' : quiet b b' -> bsame k b b'.
Proof. intros (_ & H2 & H3 & _). split; [rewrite H2; reflexivity|unfold isame; rewrite H3; reflexivity]. Qed.

Lemma quiet_load b : blob_ok K b -> quiet b (blob_load_index K b).
Proof.
  intros Hb. split; [apply blob_load_index_id|]. split; [apply blob_load_index_recs|].
  split; [apply load_index_idx, Hb|]. intros _. apply blob_load_index_mem.
Qed.

Definition r_dummy : rec := mk_rec 0 0 false None 0 0 0.

Lemma safe_quiet s s' : shape quiet s s' -> safe (fun _ => True) s s'.
Proof.
  intros H.
  destruct (safe_shape r_dummy s s' (shape_impl quiet (stage_ok r_dummy) s s' (quiet_stage r_dummy) H))
    as (_ & B & C & D & E & F).
  split; [|split; [exact B|]; split; [exact C|]; split; [exact D|]; split; [exact E|exact F]].
  intros k _. apply (shape_keeps quiet); [apply quiet_bsame|exact H].
Qed.

Lemma safe_weaken (P Q : N -> Prop) s s' : (forall k, Q k -> P k) -> safe P s s' -> safe Q s s'.
Proof. intros HI (A & B). split; [intros k Hk; apply A, HI, Hk|exact B]. Qed.

Lemma via_safe r s s0 s' :
  s_open s = true -> s0 = s \/ s0 = ensure_active s -> shape (stage_ok r) s0 s' ->
  safe (fun k => r_key r <> k) s s'.
Proof.
  intros Ho [-> | ->] H; [apply safe_shape, H|].
  apply (safe_trans _ _ (ensure_active s)); [apply safe_ensure_active, Ho|apply safe_shape, H].
Qed.

Lemma mlo_F2 (R : blob -> blob -> Prop) f l :
  (forall b, R b b) -> (forall b, In (Some b) l -> R b (f b)) -> Forall2 (orel R) l (map_last_occupied f l).
Proof.
  intros Hr. induction l as [|x l IH]; intros Hf; cbn [map_last_occupied]; [constructor|].
  destruct (pop_last l) as [p|].
  - constructor; [apply orel_refl, Hr|]. apply IH. intros b Hb. apply Hf. right. exact Hb.
  - destruct x as [b|]; (constructor; [|apply F2_orel_refl, Hr]); constructor.
    apply Hf. left. reflexivity.
Qed.

(* ---------- write ---------- *)
(* the index of no blob has changed *)
Definition unidx (r : rec) (b b' : blob) : Prop := stage_ok r b b' /\ b_idx b' = b_idx b.

Lemma unidx_refl r b : unidx r b b.
Proof. split; [apply stage_ok_refl|reflexivity]. Qed.

Lemma write_partial_via s k meta r s' :
  write_partial cfg s k meta r s' ->
  exists s0, (s0 = s \/ s0 = ensure_active s) /\ shape (unidx r) s0 s' /\
             (abs s' = abs s0 \/ abs s' = abs s0 ++ [r]).
Proof.
  intros [Hn | | Hd].
  - exists s. split; [left; reflexivity|]. split; [apply shape_burn_id, unidx_refl|left; reflexivity].
  - exists (ensure_active s). split; [right; reflexivity|]. split; [apply shape_refl, unidx_refl|left; reflexivity].
  - exists (ensure_active s). split; [right; reflexivity|].
    destruct (ensure_active_some s) as [a Ea]. unfold cancel_write_midway. rewrite Ea. split.
    + apply (shape_upd_active _ _ a); [apply unidx_refl|exact Ea|]. split; [apply unindexed_ok|reflexivity].
    + right. rewrite !abs_eq, Ea. cbn [upd_active s_closed s_active append_unindexed b_recs].
      rewrite app_assoc. reflexivity.
Qed.

(* ---------- delete ---------- *)
Lemma delete_start_cases s oip :
  delete_start s oip = s \/ (oip = false /\ delete_start s oip = ensure_active s).
Proof. destruct oip; [left; reflexivity|right; split; reflexivity]. Qed.

Lemma dshape_burn_id mk oip s : dshape mk oip s (burn_id s).
Proof.
  constructor; cbn [burn_id s_closed s_active s_next s_alive s_open]; auto.
  - apply F2_orel_refl. intros b. apply dstage_refl.
  - apply orel_refl. intros b. apply dstage_refl.
Qed.

(* a delete dropped midway: the id of a blob that was being created is consumed, or the state is, slot by slot,
   the state in which the delete started its work (the active blob exists) at some stage of Blob::delete *)
Lemma delete_partial_cases s mk oip s' :
  BlobsOk K s -> delete_partial K s mk oip s' ->
  s' = burn_id s \/ dshape mk oip (delete_start s oip) s'.
Proof.
  intros HB [Hoip Hn | | b b' Ea Happ Hst | c' HF]; [left; reflexivity|right..].
  - apply dshape_refl.
  - pose proof (BlobsOk_delete_start s oip HB) as [_ HBa].
    constructor; cbn [upd_active s_closed s_active s_next s_alive s_open]; auto.
    + apply F2_orel_refl. intros x. apply dstage_refl.
    + rewrite Ea. constructor. apply delete_stage_d; [apply HBa, Ea|exact Happ|exact Hst].
  - apply dshape_dp_closed; [apply BlobsOk_delete_start, HB|exact HF].
Qed.

Lemma delete_partial_via s mk oip s' :
  BlobsOk K s -> delete_partial K s mk oip s' ->
  exists s0, (s0 = s \/ (oip = false /\ s0 = ensure_active s)) /\ dshape mk oip s0 s'.
Proof.
  intros HB H. destruct (delete_partial_cases s mk oip s' HB H) as [-> | Hd].
  - exists s. split; [left; reflexivity|apply dshape_burn_id].
  - exists (delete_start s oip). split; [apply delete_start_cases|exact Hd].
Qed.

(* ---------- restore_active, create_active ---------- *)
Lemma restore_partial_quiet s s' : BlobsOk K s -> restore_partial K s s' -> shape quiet s s'.
Proof.
  intros [HBc _] [Hn]. constructor; cbn [upd_closed s_closed s_active s_next s_alive s_open]; auto.
  - apply mlo_F2; [apply quiet_refl|]. intros b Hb. apply quiet_load, HBc, Hb.
  - apply orel_refl, quiet_refl.
Qed.

Lemma create_partial_quiet s s' : create_partial s s' -> shape quiet s s'.
Proof. intros [Hn]. apply shape_burn_id, quiet_refl. Qed.

(* ================= 8. (A) (B) (C): the theorems ================= *)

Theorem cancel_safe s o s' :
  BlobsOk K s -> s_open s = true -> cancel_outcomes K cfg s o s' ->
  safe (fun k => op_key o <> Some k) s s'.
Proof.
  intros HB Ho [Hp [-> | [-> | [_ Hpar]]]].
  - apply safe_refl.
  - apply safe_step; assumption.
  - destruct o; cbn [partial_outcomes] in Hpar; try contradiction.
    + destruct (write_partial_via _ _ _ _ _ Hpar) as (s0 & H0 & Hs & _).
      apply (safe_weaken (fun k' => r_key (mk_rec k ts false meta msize dlen dseed) <> k')).
      { intros k' Hk' E. apply Hk'. cbn [op_key]. f_equal. exact E. }
      apply (via_safe _ s s0); [exact Ho|exact H0|].
      apply (shape_impl (unidx (mk_rec k ts false meta msize dlen dseed))) with (2 := Hs). intros b b' H. apply H.
    + destruct (delete_partial_via _ _ _ _ HB Hpar) as (s0 & H0 & Hs).
      apply (safe_weaken (fun k' => r_key (mk_rec k ts true meta msize 0 0) <> k')).
      { intros k' Hk' E. apply Hk'. cbn [op_key]. f_equal. exact E. }
      apply (via_safe _ s s0); [exact Ho| |apply (dshape_shape _ oip), Hs].
      destruct H0 as [H0|[_ H0]]; [left|right]; exact H0.
    + apply (safe_weaken (fun _ => True)); [auto|]. apply safe_quiet, create_partial_quiet, Hpar.
    + apply (safe_weaken (fun _ => True)); [auto|]. apply safe_quiet, restore_partial_quiet; assumption.
Qed.

(* (A) no other key is affected *)
Theorem cancel_other_keys s o s' k :
  BlobsOk K s -> s_open s = true -> cancel_outcomes K cfg s o s' -> op_key o <> Some k ->
  of_key k (abs s') = of_key k (abs s) /\
  forall meta, get_latest_entry s' k meta = get_latest_entry s k meta.
Proof. intros HB Ho Hc Hk. apply (proj1 (cancel_safe s o s' HB Ho Hc) k Hk). Qed.

(* (B) nothing stored is harmed *)
Theorem cancel_no_harm s o s' :
  BlobsOk K s -> s_open s = true -> cancel_outcomes K cfg s o s' -> good s s'.
Proof. intros HB Ho Hc. apply (cancel_safe s o s' HB Ho Hc). Qed.

(* (C) later operations work *)
Theorem cancel_later_ops s o s' :
  BlobsOk K s -> s_open s = true -> cancel_outcomes K cfg s o s' ->
  (ActiveInMemory s -> ActiveInMemory s') /\ s_alive s' = s_alive s /\ (IdsOk s -> IdsOk s') /\ s_open s' = true.
Proof.
  intros HB Ho Hc. destruct (cancel_safe s o s' HB Ho Hc) as (_ & _ & C & D & E & F).
  split; [exact C|]. split; [exact D|]. split; [exact E|congruence].
Qed.

(* hence: after a cancellation no operation is answered with the index error, and every write is acknowledged *)
Theorem cancel_then_no_index_error s o s' o2 :
  BlobsOk K s -> ActiveInMemory s -> s_open s = true -> cancel_outcomes K cfg s o s' ->
  snd (step K cfg s' o2) <> RErr EIndex.
Proof.
  intros HB HA Ho Hc. apply step_no_index_error. apply (cancel_later_ops s o s' HB Ho Hc), HA.
Qed.

Theorem cancel_then_write_acknowledged s o s' k ts meta msize dlen dseed :
  BlobsOk K s -> ActiveInMemory s -> s_open s = true -> cancel_outcomes K cfg s o s' ->
  snd (step K cfg s' (OWrite k ts meta msize dlen dseed)) = RUnit.
Proof.
  intros HB HA Ho Hc. destruct (cancel_later_ops s o s' HB Ho Hc) as (C & _ & _ & F).
  rewrite (step_open K cfg s' _ F). apply do_write_ack, C, HA.
Qed.

(* ================= 9. (D) a cancelled write: not at all in the session, entirely once the index is regenerated ================= *)

Lemma abs_maybe_rotate s : abs (maybe_rotate K cfg s) = abs s.
Proof.
  unfold maybe_rotate. destruct (s_active s) as [a|]; [|reflexivity].
  destruct (blob_full K cfg a && s_aged s && s_alive s); [|reflexivity].
  rewrite abs_request_dump. apply abs_replace_active.
Qed.

(* the log is the old log, or the old log with the record at its end (= at the end of the active blob) *)
Theorem cancelled_write_log s k ts meta msize dlen dseed s' :
  s_open s = true -> cancel_outcomes K cfg s (OWrite k ts meta msize dlen dseed) s' ->
  abs s' = abs s \/ abs s' = abs s ++ [mk_rec k ts false meta msize dlen dseed].
Proof.
  intros Ho [_ [-> | [-> | [_ Hpar]]]].
  - left. reflexivity.
  - rewrite (step_open K cfg s _ Ho). cbn [fst].
    destruct (do_write_shape s k ts meta msize dlen dseed) as (s2 & _ & Habs & Hd).
    rewrite abs_ensure_active in Habs.
    assert (E : abs (fst (do_write K cfg s k ts meta msize dlen dseed)) = abs s2).
    { destruct Hd as [-> | (E1 & E2 & _)]; [apply abs_maybe_rotate|apply abs_ext; assumption]. }
    rewrite E. exact Habs.
  - cbn [partial_outcomes] in Hpar. destruct (write_partial_via _ _ _ _ _ Hpar) as (s0 & H0 & _ & Habs).
    destruct H0 as [-> | ->]; [exact Habs|]. rewrite abs_ensure_active in Habs. exact Habs.
Qed.

(* in the session a write that did not complete is not there at all: EVERY read (of its key too) answers as before *)
Theorem cancelled_write_session s k ts meta msize dlen dseed s' :
  partial_outcomes K cfg s (OWrite k ts meta msize dlen dseed) s' ->
  forall k' meta', get_latest_entry s' k' meta' = get_latest_entry s k' meta'.
Proof.
  intros Hpar k'. cbn [partial_outcomes] in Hpar.
  destruct (write_partial_via _ _ _ _ _ Hpar) as (s0 & H0 & Hs & _).
  apply (rsame_trans k' s s0 s').
  - destruct H0 as [-> | ->]; [apply rsame_refl|apply keeps_ensure_active].
  - apply rsame_F2. apply (F2_impl (unidx (mk_rec k ts false meta msize dlen dseed)) (isame k')) with (2 := shape_bio _ _ _ Hs).
    intros b b' [_ E]. unfold isame. rewrite E. reflexivity.
Qed.

Corollary cancelled_write_before_or_after s k ts meta msize dlen dseed s' :
  cancel_outcomes K cfg s (OWrite k ts meta msize dlen dseed) s' ->
  forall k' meta', get_latest_entry s' k' meta' = get_latest_entry s k' meta' \/
                   get_latest_entry s' k' meta' = get_latest_entry (fst (step K cfg s (OWrite k ts meta msize dlen dseed))) k' meta'.
Proof.
  intros [_ [-> | [-> | [_ Hpar]]]] k' meta'; [left; reflexivity|right; reflexivity|left].
  apply (cancelled_write_session _ _ _ _ _ _ _ _ Hpar).
Qed.

(* on disk the cancelled write and the completed write are the same files: a start that reads the blob as the
   session left it (no index dump in between) sees the write entirely *)
Lemma unindexed_same_files b r :
  blob_from_file K (append_unindexed b r) = blob_from_file K (fst (blob_append b r)).
Proof. unfold blob_append. destruct (b_ondisk b); reflexivity. Qed.

Lemma size_of_firstn_le n l : size_of K (firstn n l) <= size_of K l.
Proof.
  rewrite <- (firstn_skipn n l) at 2. unfold size_of. rewrite fold_left_app. apply fold_size_ge.
Qed.

(* ... and its index is then regenerated from the records, the new one included: the index file of the blob, if
   there is one, describes a strict prefix of the file and is rejected *)
Lemma unindexed_regenerated b r :
  blob_ok K b ->
  b_recs (blob_from_file K (append_unindexed b r)) = b_recs b ++ [r] /\
  b_idx (blob_from_file K (append_unindexed b r)) = index_of (b_recs b ++ [r]) /\
  b_idx (blob_from_file K (append_unindexed b r)) = imap_push (b_idx b) r.
Proof.
  intros [Hi Hf].
  assert (H12 : b_recs (blob_from_file K (append_unindexed b r)) = b_recs b ++ [r] /\
                b_idx (blob_from_file K (append_unindexed b r)) = index_of (b_recs b ++ [r])).
  { split; [apply blob_from_file_recs|].
    unfold blob_from_file. cbn [append_unindexed b_idxfile b_recs b_id].
    unfold idxfile_ok in Hf. destruct (b_idxfile b) as [[sz m]|]; [|reflexivity].
    destruct Hf as (n & Hn & Hs & Hm).
    destruct (N.eqb_spec sz (blob_size K (append_unindexed b r))) as [E|_]; [|reflexivity].
    exfalso. rewrite blob_size_size_of in E. cbn [append_unindexed b_recs] in E.
    unfold size_of in E at 1. rewrite fold_left_app in E. cbn [fold_left] in E.
    fold (size_of K (b_recs b)) in E. pose proof (size_of_firstn_le n (b_recs b)). pose proof (rec_size_pos K r). lia. }
  destruct H12 as [H1 H2]. split; [exact H1|]. split; [exact H2|].
  rewrite H2, index_of_snoc, <- Hi. reflexivity.
Qed.

(* finding F18, in general: when the blob is dumped first (Storage::close), the dumped index lacks the record but
   records the size of the file that contains it; the next start trusts it *)
Lemma unindexed_then_dump_hides b r :
  b_ondisk b = false -> b_idx b <> [] ->
  b_recs (blob_from_file K (blob_dump K (append_unindexed b r))) = b_recs b ++ [r] /\
  b_idx (blob_from_file K (blob_dump K (append_unindexed b r))) = b_idx b.
Proof.
  intros Hm Hne. split; [rewrite blob_from_file_recs, blob_dump_recs; reflexivity|].
  unfold blob_dump. cbn [append_unindexed b_ondisk b_idx]. rewrite Hm.
  destruct (b_idx b) as [|p t] eqn:E; [contradiction|].
  unfold blob_from_file. cbn [b_idxfile b_recs b_id b_idx].
  rewrite N.eqb_refl. reflexivity.
Qed.

(* ================= 10. (E) a cancelled delete: the log ================= *)

Lemma delete_outcome_dshape s k ts meta msize oip s' :
  BlobsOk K s -> s_open s = true -> cancel_outcomes K cfg s (ODelete k ts meta msize oip) s' ->
  exists s0, (s0 = s \/ (oip = false /\ s0 = ensure_active s)) /\
             dshape (mk_rec k ts true meta msize 0 0) oip s0 s'.
Proof.
  intros HB Ho [_ [-> | [-> | [_ Hpar]]]].
  - exists s. split; [left; reflexivity|apply dshape_refl].
  - exists (delete_start s oip). split; [apply delete_start_cases|].
    rewrite (step_open K cfg s _ Ho). apply do_delete_dshape, HB.
  - apply delete_partial_via; assumption.
Qed.

(* the blob keeps its id; its records are the old ones, or -- only where Blob::delete applies -- the old ones and
   the marker *)
Definition marker_ext (mk : rec) (oip : bool) (b b' : blob) : Prop :=
  b_id b' = b_id b /\
  (b_recs b' = b_recs b \/ (delete_applies b mk oip = true /\ b_recs b' = b_recs b ++ [mk])).

Lemma dstage_marker mk oip b b' : dstage mk oip b b' -> marker_ext mk oip b b'.
Proof.
  intros [(Hi & Hr & _) Ha]. split; [exact Hi|].
  destruct Hr as [Hr|Hr]; [left; exact Hr|]. destruct Ha as [Ha|[Hr' _]]; [right; split; assumption|left; exact Hr'].
Qed.

(* every outcome: the old blobs (after the creation of the active blob, if the delete got that far), each one
   with or without ONE marker at its end -- any subset of the blobs the completed delete marks *)
Theorem cancelled_delete_log s k ts meta msize oip s' :
  BlobsOk K s -> s_open s = true -> cancel_outcomes K cfg s (ODelete k ts meta msize oip) s' ->
  exists s0, (s0 = s \/ (oip = false /\ s0 = ensure_active s)) /\
    Forall2 (orel (marker_ext (mk_rec k ts true meta msize 0 0) true)) (s_closed s0) (s_closed s') /\
    orel (marker_ext (mk_rec k ts true meta msize 0 0) oip) (s_active s0) (s_active s').
Proof.
  intros HB Ho Hc. destruct (delete_outcome_dshape s k ts meta msize oip s' HB Ho Hc) as (s0 & H0 & [Hcl Ha _ _ _]).
  exists s0. split; [exact H0|]. split.
  - apply (F2_impl (orel (dstage (mk_rec k ts true meta msize 0 0) true))
                   (orel (marker_ext (mk_rec k ts true meta msize 0 0) true))) with (2 := Hcl).
    intros o o' [|b b' Hb]; constructor. apply dstage_marker, Hb.
  - destruct Ha as [|b b' Hb]; constructor. apply dstage_marker, Hb.
Qed.

(* ================= 11. (E) a cancelled delete: the read of the key ================= *)

Lemma done_idx b mk : blob_ok K b -> b_idx (fst (blob_append (blob_load_index K b) mk)) = imap_push (b_idx b) mk.
Proof.
  intros Hb. unfold blob_append. rewrite blob_load_index_mem. cbn [fst b_idx]. rewrite (load_index_idx b Hb). reflexivity.
Qed.

Section DeleteRead.
Variable mk : rec.
Hypothesis Hdel : r_del mk = true.
Variable meta : option N.

Let g (b : blob) : rr rec := blob_get_latest (b_idx b) (r_key mk) meta.
Let D : rr rec := Deleted (r_ts mk).

Lemma tri_blob o b b' :
  blob_ok K b -> dstage mk o b b' -> tri D (g b) (g b') (g (fst (fst (blob_delete K b mk o)))).
Proof.
  intros Hb [(_ & _ & Hx & _) Ha]. rewrite blob_delete_stage. unfold g.
  destruct (delete_applies b mk o) eqn:A.
  - rewrite (done_idx b mk Hb), (bgl_push b mk meta (proj1 Hb) Hdel).
    destruct Hx as [E|E]; rewrite E; [apply tri_later|].
    rewrite (bgl_push b mk meta (proj1 Hb) Hdel). apply tri_done.
  - destruct Ha as [Ha|[_ E]]; [discriminate Ha|]. rewrite E. apply tri_none.
Qed.

Lemma Tri_slots o l l' :
  (forall b, In (Some b) l -> blob_ok K b) -> Forall2 (orel (dstage mk o)) l l' ->
  Tri D (map g (cb l)) (map g (cb l'))
        (map g (cb (map (option_map (fun b => fst (fst (blob_delete K b mk o)))) l))).
Proof.
  intros Hb HF. induction HF as [|x x' l l' Hx HF IH]; [constructor|].
  assert (IH' := IH (fun b Hin => Hb b (or_intror Hin))). clear IH.
  revert Hb. destruct Hx as [|b b' Hbb]; intros Hb; cbn [map option_map].
  - rewrite !cb_cons_none. exact IH'.
  - rewrite !cb_cons_some. cbn [map]. constructor; [|exact IH'].
    apply tri_blob; [apply Hb; left; reflexivity|exact Hbb].
Qed.

Lemma Tri_active o a a' :
  (forall b, a = Some b -> blob_ok K b) -> orel (dstage mk o) a a' ->
  Tri D (map g (oa a)) (map g (oa a')) (map g (oa (option_map (fun b => fst (fst (blob_delete K b mk o))) a))).
Proof.
  intros Hb H. revert Hb. destruct H as [|b b' Hbb]; intros Hb; cbn [oa option_map map]; [constructor|].
  constructor; [|constructor]. apply tri_blob; [apply Hb; reflexivity|exact Hbb].
Qed.

Lemma gle_merged s : get_latest_entry s (r_key mk) meta = merged (map g (blobs_in_order s)).
Proof. apply gle_as_fold. Qed.

(* s0: the state in which the delete starts its work; s': dropped; sc: completed *)
Lemma dshape_read oip s0 s' sc :
  BlobsOk K s0 -> dshape mk oip s0 s' ->
  s_closed sc = map (option_map (fun b => fst (fst (blob_delete K b mk true)))) (s_closed s0) ->
  s_active sc = option_map (fun b => fst (fst (blob_delete K b mk oip))) (s_active s0) ->
  get_latest_entry s' (r_key mk) meta = get_latest_entry s0 (r_key mk) meta \/
  get_latest_entry s' (r_key mk) meta = get_latest_entry sc (r_key mk) meta.
Proof.
  intros [HBc HBa] Hd Ec Ea. rewrite !gle_merged, !bio_eq, Ec, Ea, !map_app.
  apply (Tri_merged D). apply Tri_app.
  - apply Tri_slots; [exact HBc|apply (dsh_closed _ _ _ _ Hd)].
  - apply Tri_active; [exact HBa|apply (dsh_active _ _ _ _ Hd)].
Qed.

End DeleteRead.

(* In the session every read of the key answers as before the delete, or as after the completed delete -- whatever
   subset of the blobs has been processed, and how far *)
Theorem cancelled_delete_read s k ts meta msize oip s' :
  BlobsOk K s -> s_open s = true -> cancel_outcomes K cfg s (ODelete k ts meta msize oip) s' ->
  forall meta',
    get_latest_entry s' k meta' = get_latest_entry s k meta' \/
    get_latest_entry s' k meta' = get_latest_entry (fst (step K cfg s (ODelete k ts meta msize oip))) k meta'.
Proof.
  intros HB Ho [_ [-> | [-> | [_ Hpar]]]] meta'; [left; reflexivity|right; reflexivity|].
  cbn [partial_outcomes] in Hpar.
  destruct (delete_partial_cases s _ oip s' HB Hpar) as [-> | Hd]; [left; reflexivity|].
  rewrite (step_open K cfg s _ Ho). cbn [fst].
  destruct (do_delete_slots s k ts meta msize oip) as [Ec Ea].
  pose proof (dshape_read (mk_rec k ts true meta msize 0 0) eq_refl meta' oip (delete_start s oip) s'
                (fst (do_delete K s k ts meta msize oip)) (BlobsOk_delete_start s oip HB) Hd Ec Ea) as H.
  cbn [mk_rec r_key] in H.
  rewrite (proj2 (keeps_delete_start k s oip) meta') in H. exact H.
Qed.

(* ================= 12. retrying ================= *)

Lemma pop_last_mlo f l :
  pop_last (map_last_occupied f l) = match pop_last l with Some (b, c) => Some (f b, c) | None => None end.
Proof.
  induction l as [|x l IH]; [reflexivity|]. cbn [map_last_occupied pop_last].
  destruct (pop_last l) as [[b c]|] eqn:P.
  - cbn [pop_last]. rewrite IH. reflexivity.
  - destruct x as [b|]; cbn [pop_last]; rewrite P; reflexivity.
Qed.

Lemma load_index_idem b : blob_load_index K (blob_load_index K b) = blob_load_index K b.
Proof.
  pose proof (blob_load_index_mem K b) as Hm. set (b1 := blob_load_index K b) in *.
  unfold blob_load_index. rewrite Hm. reflexivity.
Qed.

Lemma mlo_none f l : pop_last l = None -> map_last_occupied f l = l.
Proof.
  induction l as [|x l IH]; [reflexivity|]. cbn [map_last_occupied pop_last].
  destruct (pop_last l) as [[b c]|]; [discriminate|]. destruct x; [discriminate|reflexivity].
Qed.

(* a restore_active dropped after the index was loaded: calling it again gives the state the first call would have given *)
Lemma restore_retry_completes s s' :
  restore_partial K s s' -> fst (restore_active K s') = fst (restore_active K s).
Proof.
  intros [Hn]. unfold restore_active. cbn [upd_closed s_active s_closed]. rewrite Hn, pop_last_mlo.
  destruct (pop_last (s_closed s)) as [[b c]|] eqn:P; cbn [fst].
  - rewrite load_index_idem. reflexivity.
  - rewrite (mlo_none _ _ P). destruct s; reflexivity.
Qed.

(* ================= 13. the statements for states that satisfy the invariants, and for reachable states ================= *)

Theorem cancel_safety s o s' :
  Inv K s -> ActiveInMemory s -> s_open s = true -> cancel_outcomes K cfg s o s' ->
  (forall k, op_key o <> Some k ->
     of_key k (abs s') = of_key k (abs s) /\ forall meta, get_latest_entry s' k meta = get_latest_entry s k meta) /\
  good s s' /\
  ActiveInMemory s' /\ s_alive s' = s_alive s /\ IdsOk s' /\ s_open s' = true.
Proof.
  intros (HB & HI & _) HA Ho Hc. destruct (cancel_safe s o s' HB Ho Hc) as (A & B & C & D & E & F).
  split; [exact A|]. split; [exact B|]. split; [apply C, HA|]. split; [exact D|]. split; [apply E, HI|congruence].
Qed.

(* (B) spelled out *)
Theorem cancel_append_only s o s' b :
  BlobsOk K s -> s_open s = true -> cancel_outcomes K cfg s o s' -> In b (blobs_in_order s) ->
  exists b', In b' (blobs_in_order s') /\ b_id b' = b_id b /\ prefix_of (b_recs b) (b_recs b').
Proof.
  intros HB Ho Hc Hb. destruct (cancel_no_harm s o s' HB Ho Hc) as (HL & _ & _).
  destruct (HL b Hb) as (b' & Hin & Hid & Hp). exists b'. split; [exact Hin|]. split; assumption.
Qed.

Theorem reach_cancel_safety ops o s' :
  s_open (reach K cfg ops) = true -> cancel_outcomes K cfg (reach K cfg ops) o s' ->
  (forall k, op_key o <> Some k ->
     of_key k (abs s') = of_key k (abs (reach K cfg ops)) /\
     forall meta, get_latest_entry s' k meta = get_latest_entry (reach K cfg ops) k meta) /\
  good (reach K cfg ops) s' /\
  ActiveInMemory s' /\ s_alive s' = s_alive (reach K cfg ops) /\ IdsOk s' /\ s_open s' = true.
Proof. intros Ho Hc. apply (cancel_safety _ o s'); [apply reach_Inv|apply reach_ActiveInMemory|exact Ho|exact Hc]. Qed.
End K.

(* ================= 14. computed examples ================= *)

Definition c_cfg : config := {| c_dup := true; c_maxrec := 1000; c_maxsize := 1000000 |}.
Definition c_rec : rec := mk_rec 2 7 false None 8 5 9001.
Definition c_state : storage := cancel_write_midway (reach 4 c_cfg [OOpen false; OWrite 1 7 None 8 5 1]) c_rec.

(* c_state is an outcome of the cancelled write in the sense of cancel_outcomes *)
Lemma c_state_is_outcome :
  cancel_outcomes 4 c_cfg (reach 4 c_cfg [OOpen false; OWrite 1 7 None 8 5 1]) (OWrite 2 7 None 8 5 9001) c_state.
Proof.
  split; [reflexivity|]. right. right. split; [reflexivity|].
  exact (wp_bytes c_cfg (reach 4 c_cfg [OOpen false; OWrite 1 7 None 8 5 1]) 2 None c_rec eq_refl).
Qed.

(* in the session the cancelled write is invisible ("not at all") *)
Lemma cancelled_write_invisible_in_session : get_latest_entry c_state 2 None = NotFound.
Proof. vm_compute. reflexivity. Qed.

(* if the session ends WITHOUT close, the next start regenerates the index and the write is there ("entirely") *)
Lemma cancelled_write_visible_after_drop_and_open :
  get_latest_entry (fst (run 4 c_cfg c_state [ODrop; OOpen false])) 2 None = Found c_rec.
Proof. vm_compute. reflexivity. Qed.

(* REFUTATION of "all or nothing at the latest from the next start" (finding F18): after a regular close the
   dumped index lacks the record but records a blob size that covers it, so the next start trusts it: the
   write is still invisible -- and it appears once the index file is removed *)
Lemma cancelled_write_surfaces_only_after_index_removal :
  get_latest_entry (fst (run 4 c_cfg c_state [OClose; OOpen false])) 2 None = NotFound /\
  get_latest_entry (fst (run 4 c_cfg c_state [OClose; OOpen false; OClose; ORmIndex 0; OOpen false])) 2 None = Found c_rec.
Proof. vm_compute. split; reflexivity. Qed.

(* other keys are untouched by the cancellation, in every state *)
Lemma cancel_keeps_other_keys s r k :
  r_key r <> k -> of_key k (abs (cancel_write_midway s r)) = of_key k (abs s).
Proof.
  intros Hk. unfold cancel_write_midway. destruct (s_active s) as [b|] eqn:E; [|reflexivity].
  unfold abs, blobs_in_order. cbn [s_active upd_active closed_blobs s_closed]. rewrite E.
  unfold closed_blobs. cbn [s_closed upd_active].
  rewrite !flat_map_app. unfold of_key. rewrite !filter_app. f_equal.
  cbn [flat_map append_unindexed b_recs]. rewrite !app_nil_r, filter_app. cbn [filter].
  destruct (N.eqb_spec (r_key r) k) as [|_]; [contradiction|]. rewrite app_nil_r. reflexivity.
Qed.

(* a delete dropped while the closed blobs are processed: two closed blobs hold key 1 (timestamps 7 and 8), the
   delete (timestamp 8) has fully processed the OLDER blob only. The marker is in the log, and the read of the
   key is the read BEFORE the delete (the newer blob answers Found 8, an equal timestamp does not replace it);
   the completed delete answers Deleted 8. *)
Definition d_state : storage :=
  reach 4 c_cfg [OOpen false; OWrite 1 7 None 8 5 1; OCloseActive; OCreateActive; OWrite 1 8 None 8 5 2; OCloseActive].
Definition d_op : op := ODelete 1 8 None 8 true.
Definition d_mk : rec := mk_rec 1 8 true None 8 0 0.
Definition d_out : storage :=
  upd_closed (delete_active_done 4 (delete_start d_state true) d_mk true)
             (match s_closed d_state with
              | Some b0 :: rest => Some (fst (blob_append (blob_load_index 4 b0) d_mk)) :: rest
              | l => l
              end).

Lemma d_out_is_outcome : cancel_outcomes 4 c_cfg d_state d_op d_out.
Proof.
  split; [reflexivity|]. right. right. split; [reflexivity|].
  apply (dp_closed 4 d_state d_mk true). vm_compute.
  constructor; [apply ss_stage; [reflexivity|apply (ds_done 4)]|].
  constructor; [apply ss_stage; [reflexivity|apply (ds_untouched 4)]|constructor].
Qed.

Lemma d_out_read :
  In d_mk (abs d_out) /\ ~ In d_mk (abs d_state) /\
  get_latest_entry d_out 1 None = get_latest_entry d_state 1 None /\
  get_latest_entry d_state 1 None = Found (mk_rec 1 8 false None 8 5 2) /\
  get_latest_entry (fst (step 4 c_cfg d_state d_op)) 1 None = Deleted 8.
Proof.
  split; [vm_compute; auto|]. split; [vm_compute; intros [H|[H|[]]]; discriminate H|].
  vm_compute. repeat split.
Qed.
