(* C11: every modelled I/O fault (Fault.v) is contained. Three of them used to be refuted here; the code was
   repaired and Fault.v follows it:
   - F9  (commit e3d3ed5 of the code): a failed index dump puts the headers back into the in-memory index;
   - F15 (commit 20e4a83): close_active_blob syncs the blob while it still is the active one;
   - F1  (commit 62103db): a failed blob creation during rotation is logged, the worker carries on. *)
Require Import Pearl.Base.Prelude Pearl.Storage.Model Pearl.Storage.Spec Pearl.Storage.Inv Pearl.Storage.ReadProofs
               Pearl.Storage.InvProofs Pearl.Storage.Theorems Pearl.Storage.Fault.

(* a failed append is contained: the log, every read and the invariant are untouched *)
Lemma append_failure_contained K cfg ops k :
  abs (append_fails (reach K cfg ops)) = abs (reach K cfg ops) /\
  get_latest_entry (append_fails (reach K cfg ops)) k None = get_latest_entry (reach K cfg ops) k None.
Proof. split; reflexivity. Qed.

(* ---------- a failed index dump (F9, repaired by commit e3d3ed5 of the code) ---------- *)

Lemma dump_fails_recs b : b_recs (dump_fails b) = b_recs b.
Proof. reflexivity. Qed.

Lemma map_slots_id (id : N) (l : list (option blob)) :
  map (fun o => match o with
                | Some b => Some (if b_id b =? id then dump_fails b else b)
                | None => None end) l = l.
Proof.
  induction l as [|[b|] l IH]; cbn [map]; [reflexivity| |rewrite IH; reflexivity].
  rewrite IH. unfold dump_fails. destruct (b_id b =? id); reflexivity.
Qed.

(* the storage is as it was: the blob is still closed, its index still in memory, no index file *)
Lemma dump_fails_on_id s id : dump_fails_on s id = s.
Proof. unfold dump_fails_on. rewrite map_slots_id. destruct s; reflexivity. Qed.

(* a failed index dump leaves the log intact (the bytes are all there) ... *)
Lemma dump_failure_keeps_log s id : abs (dump_fails_on s id) = abs s.
Proof. rewrite dump_fails_on_id. reflexivity. Qed.

(* ... and every read answers as before: the fault is contained *)
Lemma dump_failure_contained s id k :
  get_latest_entry (dump_fails_on s id) k None = get_latest_entry s k None /\ abs (dump_fails_on s id) = abs s.
Proof. rewrite dump_fails_on_id. split; reflexivity. Qed.

Lemma dump_failure_reads s id k meta :
  get_latest_entry (dump_fails_on s id) k meta = get_latest_entry s k meta /\
  read_all (dump_fails_on s id) k = read_all s k /\ read_all_dm (dump_fails_on s id) k = read_all_dm s k.
Proof. rewrite dump_fails_on_id. repeat split; reflexivity. Qed.

(* ---------- a failed fsync in close_active_blob (F15, repaired by commit 20e4a83 of the code) ---------- *)

Lemma close_fsync_failure_contained s : close_active_fsync_fails s = s.
Proof. reflexivity. Qed.

Lemma close_fsync_failure_reads s k meta :
  get_latest_entry (close_active_fsync_fails s) k meta = get_latest_entry s k meta /\
  abs (close_active_fsync_fails s) = abs s.
Proof. split; reflexivity. Qed.

(* ---------- a failed blob creation while the worker rotates (F1, repaired by commit 62103db of the code) ---------- *)

(* one blob id is used up, nothing else: log, reads and the worker are as before, and the ids stay fresh *)
Lemma rotation_failure_abs s : abs (rotation_create_fails s) = abs s.
Proof. reflexivity. Qed.

Lemma rotation_failure_reads s k meta :
  get_latest_entry (rotation_create_fails s) k meta = get_latest_entry s k meta /\
  read_all (rotation_create_fails s) k = read_all s k /\ read_all_dm (rotation_create_fails s) k = read_all_dm s k.
Proof. repeat split; reflexivity. Qed.

Lemma rotation_failure_alive s : s_alive (rotation_create_fails s) = s_alive s.
Proof. reflexivity. Qed.

Lemma rotation_failure_IdsOk s : IdsOk s -> IdsOk (rotation_create_fails s).
Proof.
  intros (Hinc & Hlt & H3 & H4 & H5 & H6). split; [exact Hinc|]. split; [|split; [|split; [exact H4|split; [exact H5|exact H6]]]].
  - intros Ho b Hb. change (blobs_in_order (rotation_create_fails s)) with (blobs_in_order s) in Hb.
    change (s_open (rotation_create_fails s)) with (s_open s) in Ho.
    change (s_next (rotation_create_fails s)) with (s_next s + 1).
    specialize (Hlt Ho b Hb). lia.
  - intros Ho q Hq. change (s_quar (rotation_create_fails s)) with (s_quar s) in Hq.
    change (s_open (rotation_create_fails s)) with (s_open s) in Ho.
    change (s_next (rotation_create_fails s)) with (s_next s + 1).
    specialize (H3 Ho q Hq). lia.
Qed.

Lemma rotation_failure_Inv K s : Inv K s -> Inv K (rotation_create_fails s).
Proof.
  intros (Hb & Hi & Hn). split; [exact Hb|]. split; [apply rotation_failure_IdsOk, Hi|exact Hn].
Qed.

Lemma rotation_failure_contained s k :
  abs (rotation_create_fails s) = abs s /\
  get_latest_entry (rotation_create_fails s) k None = get_latest_entry s k None /\
  s_alive (rotation_create_fails s) = s_alive s /\
  (IdsOk s -> IdsOk (rotation_create_fails s)).
Proof. repeat split; try reflexivity; apply rotation_failure_IdsOk; assumption. Qed.

(* ---------- computed, on a concrete history ---------- *)

Definition f_cfg : config := {| c_dup := true; c_maxrec := 1000; c_maxsize := 1000000 |}.
Definition f_hist : list op := [OOpen false; OWrite 1 7 None 8 5 1; OWrite 2 7 None 8 5 2].

(* the blob 0 is closed with its index still in memory, then its dump fails: the acknowledged record is still
   served, as the log says it must be (before commit e3d3ed5 of the code the read answered NotFound: F9) *)
Lemma dump_failure_keeps_records :
  let s := fst (step 4 f_cfg (reach 4 f_cfg f_hist) OCloseActive) in   (* closed, index still in memory *)
  get_latest_entry s 1 None = Found (mk_rec 1 7 false None 8 5 1) /\
  get_latest_entry (dump_fails_on s 0) 1 None = Found (mk_rec 1 7 false None 8 5 1) /\
  spec_read (abs (dump_fails_on s 0)) 1 = Found (mk_rec 1 7 false None 8 5 1).
Proof. vm_compute. repeat split; reflexivity. Qed.

(* the fsync inside close_active_blob fails: the blob is still there, still active, and the record is served
   (before commit 20e4a83 of the code the read answered NotFound and the log was empty: F15) *)
Lemma close_fsync_failure_keeps_blob :
  let s := reach 4 f_cfg f_hist in
  get_latest_entry s 2 None = Found (mk_rec 2 7 false None 8 5 2) /\
  get_latest_entry (close_active_fsync_fails s) 2 None = Found (mk_rec 2 7 false None 8 5 2) /\
  abs (close_active_fsync_fails s) = abs s /\ length (abs (close_active_fsync_fails s)) = 2%nat /\
  s_active (close_active_fsync_fails s) = s_active s.
Proof. vm_compute. repeat split; reflexivity. Qed.

(* the creation of the next blob fails during a rotation: both records are served, the worker lives, and the
   next write still lands (in the blob that stayed active) *)
Lemma rotation_failure_keeps_going :
  let s := rotation_create_fails (reach 4 f_cfg f_hist) in
  get_latest_entry s 1 None = Found (mk_rec 1 7 false None 8 5 1) /\
  get_latest_entry s 2 None = Found (mk_rec 2 7 false None 8 5 2) /\
  s_alive s = true /\ s_next s = 2 /\
  get_latest_entry (fst (step_q 4 f_cfg s (OWrite 3 7 None 8 5 3))) 3 None = Found (mk_rec 3 7 false None 8 5 3).
Proof. vm_compute. repeat split; reflexivity. Qed.

Print Assumptions append_failure_contained.
Print Assumptions dump_failure_contained.
Print Assumptions close_fsync_failure_contained.
Print Assumptions rotation_failure_contained.
Print Assumptions rotation_failure_Inv.
Print Assumptions dump_failure_keeps_records.
Print Assumptions close_fsync_failure_keeps_blob.
Print Assumptions rotation_failure_keeps_going.

(* ================= one failed file operation inside a client call (Fault.v: fault_outcomes) =================

   Results (s: BlobsOk K s, s_open s = true; s' any fault outcome of the public operation o):
     fault_outcomes_are_cancel_outcomes   s' is a cancel outcome of o, possibly followed by the request for the
                                          deferred index dump (a partially failed delete that marked some blob);
                                          without "possibly followed" for every o that is not a delete, and for
                                          every outcome in which the call returned an error
     fault_other_keys (A), fault_no_harm (B), fault_later_ops (C), fault_then_write_acknowledged
     fault_error_leaves_no_trace          STRONGER than cancellation: a call that returned an error left the log
                                          and EVERY read (of its own key too) as they were
     failed_delete_markers/_log/_read     a partially failed delete: blob by blob
     fault_keeps_BlobsOk / fault_keeps_Inv  STRONGER than cancellation: the whole invariant survives            *)
Require Import Pearl.Storage.IndexProofs Pearl.Storage.ReadAllProofs Pearl.Storage.NoHarmProofs
               Pearl.Storage.WorkerProofs Pearl.Storage.Cancel Pearl.Storage.CancelProofs.

(* s' is s1, or s1 with the deferred index dump requested *)
Definition upto_dump_request (s1 s' : storage) : Prop := s' = s1 \/ s' = request_dump s1.

Lemma safe_request_dump P s : safe P s (request_dump s).
Proof.
  split; [intros k _; apply keeps_request_dump|]. split; [apply good_request_dump|].
  split; [apply aim_request_dump|]. split; [apply alive_request_dump|]. split; [|apply open_request_dump].
  unfold request_dump. destruct (s_alive s); [|auto]. apply IdsOk_same; reflexivity.
Qed.

Lemma safe_upto_dump P s s1 s' : safe P s s1 -> upto_dump_request s1 s' -> safe P s s'.
Proof. intros H [-> | ->]; [exact H|]. apply (safe_trans _ _ _ _ H), safe_request_dump. Qed.

Section FaultOutcomes.
Variable K : N.
Variable cfg : config.

(* ---------- the loop over the closed blobs ---------- *)
Lemma faulty_slots l mk : forall fails,
  Forall2 (slot_stage K mk) l (fst (delete_in_closed_faulty K l mk fails)).
Proof.
  induction l as [|[b|] l IH]; intros fails; cbn [delete_in_closed_faulty]; [constructor| |].
  - specialize (IH (tl fails)). destruct (delete_in_closed_faulty K l mk (tl fails)) as [r' n]. cbn [fst] in IH.
    destruct (delete_applies b mk true) eqn:A.
    + destruct (hd false fails); cbn [fst]; (constructor; [|exact IH]).
      * apply ss_stage; [exact A|apply ds_loaded].
      * apply ss_stage; [exact A|apply ds_done].
    + cbn [fst]. constructor; [apply ss_skip, A|exact IH].
  - specialize (IH (tl fails)). destruct (delete_in_closed_faulty K l mk (tl fails)) as [r' n]. cbn [fst] in *.
    constructor; [constructor|exact IH].
Qed.

(* blob by blob: marked and indexed, or untouched up to the place of its index *)
Definition marked_or_loaded (mk : rec) (b b' : blob) : Prop :=
  b' = fst (fst (blob_delete K b mk true)) \/ (delete_applies b mk true = true /\ b' = blob_load_index K b).

Lemma faulty_slots_exact l mk : forall fails,
  Forall2 (orel (marked_or_loaded mk)) l (fst (delete_in_closed_faulty K l mk fails)).
Proof.
  induction l as [|[b|] l IH]; intros fails; cbn [delete_in_closed_faulty]; [constructor| |].
  - specialize (IH (tl fails)). destruct (delete_in_closed_faulty K l mk (tl fails)) as [r' n]. cbn [fst] in IH.
    pose proof (blob_delete_stage K b mk true) as HS.
    destruct (delete_applies b mk true) eqn:A.
    + destruct (hd false fails); cbn [fst]; (constructor; [constructor|exact IH]).
      * right. split; [exact A|reflexivity].
      * left. symmetry. exact HS.
    + cbn [fst]. constructor; [constructor; left; symmetry; exact HS|exact IH].
  - specialize (IH (tl fails)). destruct (delete_in_closed_faulty K l mk (tl fails)) as [r' n]. cbn [fst] in *.
    constructor; [constructor|exact IH].
Qed.

Lemma delete_faulty_blobs_partial s mk oip fails : delete_partial K s mk oip (delete_faulty_blobs K s mk oip fails).
Proof. apply dp_closed, faulty_slots. Qed.

Lemma delete_faulty_upto s mk oip fails :
  upto_dump_request (delete_faulty_blobs K s mk oip fails) (delete_faulty K s mk oip fails).
Proof. unfold delete_faulty. destruct (0 <? delete_faulty_marked K s mk oip fails); [right|left]; reflexivity. Qed.

(* ---------- TASK 2: every fault outcome is a cancel outcome ---------- *)
Lemma read_op_public o : read_op o = true -> public_op o = true.
Proof. destruct o; intros H; try discriminate H; reflexivity. Qed.

Lemma fault_outcomes_public s o s' : fault_outcomes K cfg s o s' -> public_op o = true.
Proof.
  intros [H|H]; destruct H; try reflexivity; try assumption. apply read_op_public. assumption.
Qed.

(* a call that returned an error stopped where a dropped future stops *)
Theorem fault_error_is_cancel_outcome s o s' : fault_error K s o s' -> cancel_outcomes K cfg s o s'.
Proof.
  intros H. destruct H as [k ts meta msize dlen dseed Ho Hn|k ts meta msize dlen dseed Ho
                          |k ts meta msize oip Ho Hoip Hn|k ts meta msize oip Ho| | |Ho Hn|Ho Hn|ro Hr].
  - split; [reflexivity|]. right. right. split; [exact Ho|]. apply wp_create_dropped, Hn.
  - split; [reflexivity|]. right. right. split; [exact Ho|]. apply wp_created.
  - split; [reflexivity|]. right. right. split; [exact Ho|]. apply dp_create_dropped; assumption.
  - split; [reflexivity|]. right. right. split; [exact Ho|]. apply dp_started.
  - split; [reflexivity|]. left. reflexivity.
  - split; [reflexivity|]. left. reflexivity.
  - split; [reflexivity|]. right. right. split; [exact Ho|]. apply rp_loaded, Hn.
  - split; [reflexivity|]. right. right. split; [exact Ho|]. apply cp_create_dropped, Hn.
  - split; [apply read_op_public, Hr|]. left. reflexivity.
Qed.

Theorem fault_logged_is_cancel_outcome s o s' :
  fault_logged K cfg s o s' -> exists s1, cancel_outcomes K cfg s o s1 /\ upto_dump_request s1 s'.
Proof.
  intros H. destruct H as [o Hp|k ts meta msize oip fails Ho].
  - exists (fst (step K cfg s o)). split; [|left; reflexivity]. split; [exact Hp|]. right. left. reflexivity.
  - exists (delete_faulty_blobs K s (mk_rec k ts true meta msize 0 0) oip fails). split; [|apply delete_faulty_upto].
    split; [reflexivity|]. right. right. split; [exact Ho|]. apply delete_faulty_blobs_partial.
Qed.

Theorem fault_outcomes_are_cancel_outcomes s o s' :
  fault_outcomes K cfg s o s' -> exists s1, cancel_outcomes K cfg s o s1 /\ upto_dump_request s1 s'.
Proof.
  intros [H|H]; [|apply fault_logged_is_cancel_outcome, H].
  exists s'. split; [apply fault_error_is_cancel_outcome, H|left; reflexivity].
Qed.

Definition is_delete (o : op) : bool := match o with ODelete _ _ _ _ _ => true | _ => false end.

(* literally a cancel outcome, for every operation but the delete *)
Theorem fault_outcomes_are_cancel_outcomes_strict s o s' :
  is_delete o = false -> fault_outcomes K cfg s o s' -> cancel_outcomes K cfg s o s'.
Proof.
  intros Hd [H|H]; [apply fault_error_is_cancel_outcome, H|].
  destruct H as [o Hp|k ts meta msize oip fails Ho]; [|discriminate Hd].
  split; [exact Hp|]. right. left. reflexivity.
Qed.

(* ... and for the delete when no closed blob was marked (no dump request) *)
Theorem failed_delete_is_cancel_outcome s k ts meta msize oip fails :
  s_open s = true -> delete_faulty_marked K s (mk_rec k ts true meta msize 0 0) oip fails = 0 ->
  cancel_outcomes K cfg s (ODelete k ts meta msize oip) (delete_faulty K s (mk_rec k ts true meta msize 0 0) oip fails).
Proof.
  intros Ho Hz. unfold delete_faulty. rewrite Hz. cbn [N.ltb N.compare].
  split; [reflexivity|]. right. right. split; [exact Ho|]. apply delete_faulty_blobs_partial.
Qed.

(* ---------- (A) (B) (C) ---------- *)
Theorem fault_safe s o s' :
  BlobsOk K s -> s_open s = true -> fault_outcomes K cfg s o s' -> safe (fun k => op_key o <> Some k) s s'.
Proof.
  intros HB Ho H. destruct (fault_outcomes_are_cancel_outcomes s o s' H) as (s1 & Hc & Hu).
  apply (safe_upto_dump _ s s1 s'); [apply (cancel_safe K cfg); assumption|exact Hu].
Qed.

(* (A) no other key is affected *)
Theorem fault_other_keys s o s' k :
  BlobsOk K s -> s_open s = true -> fault_outcomes K cfg s o s' -> op_key o <> Some k ->
  of_key k (abs s') = of_key k (abs s) /\
  forall meta, get_latest_entry s' k meta = get_latest_entry s k meta.
Proof. intros HB Ho H Hk. apply (proj1 (fault_safe s o s' HB Ho H) k Hk). Qed.

(* (B) nothing stored is harmed *)
Theorem fault_no_harm s o s' :
  BlobsOk K s -> s_open s = true -> fault_outcomes K cfg s o s' -> good s s'.
Proof. intros HB Ho H. apply (fault_safe s o s' HB Ho H). Qed.

(* (C) later operations work *)
Theorem fault_later_ops s o s' :
  BlobsOk K s -> s_open s = true -> fault_outcomes K cfg s o s' ->
  (ActiveInMemory s -> ActiveInMemory s') /\ s_alive s' = s_alive s /\ (IdsOk s -> IdsOk s') /\ s_open s' = true.
Proof.
  intros HB Ho H. destruct (fault_safe s o s' HB Ho H) as (_ & _ & C & D & E & F).
  split; [exact C|]. split; [exact D|]. split; [exact E|congruence].
Qed.

Theorem fault_then_no_index_error s o s' o2 :
  BlobsOk K s -> ActiveInMemory s -> s_open s = true -> fault_outcomes K cfg s o s' ->
  snd (step K cfg s' o2) <> RErr EIndex.
Proof. intros HB HA Ho H. apply step_no_index_error. apply (fault_later_ops s o s' HB Ho H), HA. Qed.

(* once the fault has cleared, a write is acknowledged *)
Theorem fault_then_write_acknowledged s o s' k ts meta msize dlen dseed :
  BlobsOk K s -> ActiveInMemory s -> s_open s = true -> fault_outcomes K cfg s o s' ->
  snd (step K cfg s' (OWrite k ts meta msize dlen dseed)) = RUnit.
Proof.
  intros HB HA Ho H. destruct (fault_later_ops s o s' HB Ho H) as (C & _ & _ & F).
  rewrite (step_open K cfg s' _ F). apply do_write_ack, C, HA.
Qed.

(* ---------- TASK 3 (i): a call that returned an error left no trace ---------- *)
Lemma F2_quiet_recs l l' : Forall2 quiet l l' -> flat_map b_recs l' = flat_map b_recs l.
Proof.
  induction 1 as [|b b' l l' Hb HF IH]; [reflexivity|]. cbn [flat_map]. rewrite IH, (proj1 (proj2 Hb)). reflexivity.
Qed.

Lemma shape_quiet_same s s' :
  shape quiet s s' -> abs s' = abs s /\ forall k meta, get_latest_entry s' k meta = get_latest_entry s k meta.
Proof.
  intros H. split; [apply F2_quiet_recs, shape_bio, H|].
  intros k. apply (proj1 (safe_quiet s s' H) k I).
Qed.

Lemma fault_error_no_trace_gen s o s' :
  fault_error K s o s' -> (o = ORestoreActive -> BlobsOk K s) ->
  abs s' = abs s /\ forall k meta, get_latest_entry s' k meta = get_latest_entry s k meta.
Proof.
  intros H. destruct H as [k ts meta msize dlen dseed Ho Hn|k ts meta msize dlen dseed Ho
                          |k ts meta msize oip Ho Hoip Hn|k ts meta msize oip Ho| | |Ho Hn|Ho Hn|ro Hr]; intros HB.
  - split; [reflexivity|intros k' meta'; reflexivity].
  - split; [apply abs_ensure_active|]. intros k'. apply (keeps_ensure_active k' s).
  - split; [reflexivity|intros k' meta'; reflexivity].
  - split; [|intros k'; apply (keeps_delete_start k' s oip)].
    unfold append_fails, delete_start. destruct oip; [reflexivity|apply abs_ensure_active].
  - split; [reflexivity|intros k' meta'; reflexivity].
  - split; [reflexivity|intros k' meta'; reflexivity].
  - apply shape_quiet_same, (restore_partial_quiet K); [apply HB; reflexivity|apply rp_loaded, Hn].
  - split; [reflexivity|intros k' meta'; reflexivity].
  - split; [reflexivity|intros k' meta'; reflexivity].
Qed.

(* whatever the operation: the log and every read are as before the call *)
Theorem fault_error_leaves_no_trace s o s' :
  BlobsOk K s -> fault_error K s o s' ->
  abs s' = abs s /\ forall k meta, get_latest_entry s' k meta = get_latest_entry s k meta.
Proof. intros HB H. apply (fault_error_no_trace_gen s o s' H). intros _. exact HB. Qed.

(* the failed WRITE: no record bytes in the log, the index untouched: every read, of the write's own key too,
   answers as before -- in every state *)
Theorem failed_write_leaves_no_trace s k ts meta msize dlen dseed s' :
  fault_error K s (OWrite k ts meta msize dlen dseed) s' ->
  abs s' = abs s /\ forall k' meta', get_latest_entry s' k' meta' = get_latest_entry s k' meta'.
Proof. intros H. apply (fault_error_no_trace_gen s _ s' H). intros E. discriminate E. Qed.

(* hence the specification's read of the log is the one before the call *)
Corollary failed_write_not_served s k ts meta msize dlen dseed s' k' :
  fault_error K s (OWrite k ts meta msize dlen dseed) s' -> spec_read (abs s') k' = spec_read (abs s) k'.
Proof. intros H. rewrite (proj1 (failed_write_leaves_no_trace _ _ _ _ _ _ _ _ H)). reflexivity. Qed.

(* ---------- TASK 3 (ii): the partially failed delete, blob by blob ---------- *)
Lemma closed_request_dump s : s_closed (request_dump s) = s_closed s.
Proof. unfold request_dump. destruct (s_alive s); reflexivity. Qed.

Lemma active_request_dump s : s_active (request_dump s) = s_active s.
Proof. unfold request_dump. destruct (s_alive s); reflexivity. Qed.

Lemma upto_dump_blobs s1 s' : upto_dump_request s1 s' -> s_closed s' = s_closed s1 /\ s_active s' = s_active s1.
Proof. intros [-> | ->]; [split; reflexivity|split; [apply closed_request_dump|apply active_request_dump]]. Qed.

(* every closed blob got its marker AND indexed it (or does not hold the key: then Blob::delete leaves it alone),
   or it is the blob it was with its index loaded; the active blob is fully processed *)
Theorem failed_delete_markers s k ts meta msize oip fails :
  let mk := mk_rec k ts true meta msize 0 0 in
  let s' := delete_faulty K s mk oip fails in
  Forall2 (orel (marked_or_loaded mk)) (s_closed (delete_start s oip)) (s_closed s') /\
  s_active s' = option_map (fun b => fst (fst (blob_delete K b mk oip))) (s_active (delete_start s oip)).
Proof.
  intros mk s'. destruct (upto_dump_blobs _ _ (delete_faulty_upto s mk oip fails)) as [Ec Ea].
  fold s' in Ec, Ea. rewrite Ec, Ea. unfold delete_faulty_blobs. cbn [upd_closed s_closed s_active].
  split; [apply faulty_slots_exact|].
  unfold delete_active_done. destruct (s_active (delete_start s oip)) as [a|] eqn:EA; [reflexivity|exact EA].
Qed.

(* sanity of the model: when no marker append fails the blobs are those of the completed delete *)
Lemma faulty_none_slots l mk :
  fst (delete_in_closed_faulty K l mk []) = map (option_map (fun b => fst (fst (blob_delete K b mk true)))) l.
Proof.
  induction l as [|[b|] l IH]; cbn [delete_in_closed_faulty map option_map tl hd]; [reflexivity| |].
  - destruct (delete_in_closed_faulty K l mk []) as [r' n]. cbn [fst] in IH. subst r'.
    rewrite (blob_delete_stage K b mk true). destruct (delete_applies b mk true); reflexivity.
  - destruct (delete_in_closed_faulty K l mk []) as [r' n]. cbn [fst] in IH. subst r'. reflexivity.
Qed.

Theorem delete_faulty_no_failure s k ts meta msize oip :
  let s' := delete_faulty K s (mk_rec k ts true meta msize 0 0) oip [] in
  s_closed s' = s_closed (fst (do_delete K s k ts meta msize oip)) /\
  s_active s' = s_active (fst (do_delete K s k ts meta msize oip)).
Proof.
  intros s'. destruct (do_delete_slots K s k ts meta msize oip) as [Ec Ea]. rewrite Ec, Ea.
  destruct (failed_delete_markers s k ts meta msize oip []) as [_ Ha]. split; [|exact Ha].
  destruct (upto_dump_blobs _ _ (delete_faulty_upto s (mk_rec k ts true meta msize 0 0) oip [])) as [Ec' _].
  unfold s'. rewrite Ec'. unfold delete_faulty_blobs. cbn [upd_closed s_closed]. apply faulty_none_slots.
Qed.

(* the log: the old blobs, each one with or without ONE marker at its end (for every fault outcome of a delete) *)
Theorem failed_delete_log s k ts meta msize oip s' :
  BlobsOk K s -> s_open s = true -> fault_outcomes K cfg s (ODelete k ts meta msize oip) s' ->
  exists s0, (s0 = s \/ (oip = false /\ s0 = ensure_active s)) /\
    Forall2 (orel (marker_ext (mk_rec k ts true meta msize 0 0) true)) (s_closed s0) (s_closed s') /\
    orel (marker_ext (mk_rec k ts true meta msize 0 0) oip) (s_active s0) (s_active s').
Proof.
  intros HB Ho H. destruct (fault_outcomes_are_cancel_outcomes s _ s' H) as (s1 & Hc & Hu).
  destruct (upto_dump_blobs _ _ Hu) as [Ec Ea]. rewrite Ec, Ea.
  apply (cancelled_delete_log K cfg); assumption.
Qed.

(* the read of the key: as before the delete, or as after the completed delete *)
Theorem failed_delete_read s k ts meta msize oip s' :
  BlobsOk K s -> s_open s = true -> fault_outcomes K cfg s (ODelete k ts meta msize oip) s' ->
  forall meta',
    get_latest_entry s' k meta' = get_latest_entry s k meta' \/
    get_latest_entry s' k meta' = get_latest_entry (fst (step K cfg s (ODelete k ts meta msize oip))) k meta'.
Proof.
  intros HB Ho H meta'. destruct (fault_outcomes_are_cancel_outcomes s _ s' H) as (s1 & Hc & Hu).
  assert (E : get_latest_entry s' k meta' = get_latest_entry s1 k meta').
  { destruct Hu as [-> | ->]; [reflexivity|apply (keeps_request_dump k s1)]. }
  rewrite E. apply (cancelled_delete_read K cfg); assumption.
Qed.

(* ---------- TASK 3 (iii): the invariant of C03 is kept (a cancellation may break idx_ok: ds_bytes, wp_bytes) ---------- *)
Lemma blob_delete_fst_ok b mk oip : blob_ok K b -> blob_ok K (fst (fst (blob_delete K b mk oip))).
Proof.
  intros Hb. destruct (blob_delete K b mk oip) as [[b' d] ok] eqn:B.
  destruct (blob_delete_spec K _ _ _ _ _ _ B) as (_ & _ & H). apply H, Hb.
Qed.

Lemma F2_closed_ok (R : blob -> blob -> Prop) l l' :
  (forall b b', R b b' -> blob_ok K b -> blob_ok K b') -> Forall2 (orel R) l l' ->
  (forall b, In (Some b) l -> blob_ok K b) -> forall b', In (Some b') l' -> blob_ok K b'.
Proof.
  intros HR HF. induction HF as [|o o' l l' Ho HF IH]; intros Hl b' Hin; [destruct Hin|].
  destruct Hin as [E|Hin].
  - subst o'. inversion Ho as [|b b0 Hb Eb E0]. subst. apply (HR b b' Hb). apply Hl. left. reflexivity.
  - apply IH; [|exact Hin]. intros b Hb. apply Hl. right. exact Hb.
Qed.

Lemma marked_or_loaded_ok mk b b' : marked_or_loaded mk b b' -> blob_ok K b -> blob_ok K b'.
Proof. intros [-> | [_ ->]] Hb; [apply blob_delete_fst_ok, Hb|apply blob_load_index_ok, Hb]. Qed.

Lemma BlobsOk_delete_faulty s mk oip fails : BlobsOk K s -> BlobsOk K (delete_faulty K s mk oip fails).
Proof.
  intros HB. pose proof (BlobsOk_delete_start K s oip HB) as H0.
  assert (H1 : BlobsOk K (delete_faulty_blobs K s mk oip fails)).
  { unfold delete_faulty_blobs. apply BlobsOk_upd_closed.
    - unfold delete_active_done. destruct (s_active (delete_start s oip)) as [a|] eqn:EA; [|exact H0].
      apply BlobsOk_upd_active; [exact H0|]. intros b E. injection E as <-. apply blob_delete_fst_ok, (proj2 H0), EA.
    - apply (F2_closed_ok (marked_or_loaded mk) (s_closed (delete_start s oip)));
        [apply marked_or_loaded_ok|apply faulty_slots_exact|apply (proj1 H0)]. }
  unfold delete_faulty. destruct (0 <? delete_faulty_marked K s mk oip fails); [apply BlobsOk_request_dump, H1|exact H1].
Qed.

(* a completed write keeps BlobsOk when the active index is in memory (InvProofs.do_write_BlobsOk asks for the
   ghost flag instead) *)
Lemma do_write_BlobsOk_mem s k ts meta msize dlen dseed :
  BlobsOk K s -> ActiveInMemory s -> BlobsOk K (fst (do_write K cfg s k ts meta msize dlen dseed)).
Proof.
  intros HB HA. unfold do_write. pose proof (BlobsOk_ensure_active K s HB) as H1.
  pose proof (aim_ensure_active s HA) as HA1.
  set (s1 := ensure_active s) in *. clearbody s1.
  destruct (negb (c_dup cfg) && is_found (get_latest_entry s1 k meta)); cbn [fst]; [exact H1|].
  destruct (s_active s1) as [a|] eqn:EA; cbn [fst]; [|exact H1].
  pose proof (blob_append_mem a (mk_rec k ts false meta msize dlen dseed) (HA1 a EA)) as Hok.
  destruct (blob_append a (mk_rec k ts false meta msize dlen dseed)) as [b' ok] eqn:A.
  cbn [snd] in Hok. subst ok. cbn [fst].
  apply BlobsOk_maybe_rotate. apply BlobsOk_upd_active; [exact H1|].
  intros b Hb. injection Hb as <-. apply (blob_append_ok K a _ b' (proj2 H1 a EA) A).
Qed.

Lemma public_step_BlobsOk s o :
  public_op o = true -> BlobsOk K s -> ActiveInMemory s -> BlobsOk K (fst (step K cfg s o)).
Proof.
  intros Hp HB HA. unfold step. destruct (needs_open o && negb (s_open s)); [exact HB|].
  destruct o; try discriminate Hp; try exact HB.
  - apply do_write_BlobsOk_mem; assumption.
  - apply do_delete_BlobsOk, HB.
  - pose proof (BlobsOk_close_active K s HB) as H1. destruct (close_active s) as [s' e].
    cbn [fst] in *. apply BlobsOk_request_dump, H1.
  - pose proof (BlobsOk_create_active K s HB) as H1. destruct (create_active s) as [s' e]. exact H1.
  - pose proof (BlobsOk_restore_active K s HB) as H1. destruct (restore_active K s) as [s' e]. exact H1.
Qed.

Lemma BlobsOk_burn_id s : BlobsOk K s -> BlobsOk K (burn_id s).
Proof. apply BlobsOk_ext; reflexivity. Qed.

Lemma fault_error_BlobsOk s o s' : BlobsOk K s -> fault_error K s o s' -> BlobsOk K s'.
Proof.
  intros HB H. destruct H as [k ts meta msize dlen dseed Ho Hn|k ts meta msize dlen dseed Ho
                             |k ts meta msize oip Ho Hoip Hn|k ts meta msize oip Ho| | |Ho Hn|Ho Hn|ro Hr].
  - apply BlobsOk_burn_id, HB.
  - apply BlobsOk_ensure_active, HB.
  - apply BlobsOk_burn_id, HB.
  - apply (BlobsOk_delete_start K), HB.
  - exact HB.
  - exact HB.
  - apply BlobsOk_upd_closed; [exact HB|].
    apply (F2_closed_ok (fun b b' => blob_ok K b -> blob_ok K b') (s_closed s)); [auto| |apply (proj1 HB)].
    apply mlo_F2; [auto|]. intros b _. apply blob_load_index_ok.
  - apply BlobsOk_burn_id, HB.
  - exact HB.
Qed.

(* in every fault outcome every blob's index is the index of its records (no blob is left with bytes that are not
   indexed), and every index file describes a prefix of its blob *)
Theorem fault_keeps_BlobsOk s o s' :
  BlobsOk K s -> ActiveInMemory s -> fault_outcomes K cfg s o s' -> BlobsOk K s'.
Proof.
  intros HB HA [H|H]; [apply (fault_error_BlobsOk s o s' HB H)|].
  destruct H as [o Hp|k ts meta msize oip fails Ho].
  - apply public_step_BlobsOk; assumption.
  - apply BlobsOk_delete_faulty, HB.
Qed.

(* for a delete (failed, partially failed, or completed) the active blob need not be in memory *)
Theorem failed_delete_keeps_BlobsOk s k ts meta msize oip s' :
  BlobsOk K s -> fault_outcomes K cfg s (ODelete k ts meta msize oip) s' -> BlobsOk K s'.
Proof.
  intros HB [H|H]; [apply (fault_error_BlobsOk s _ s' HB H)|].
  inversion H as [o Hp Eo Es|k0 ts0 meta0 msize0 oip0 fails Ho Eo Es].
  - unfold step. destruct (needs_open (ODelete k ts meta msize oip) && negb (s_open s)); [exact HB|].
    apply do_delete_BlobsOk, HB.
  - apply BlobsOk_delete_faulty, HB.
Qed.

(* the whole invariant, and the premise of "no index error" *)
Theorem fault_keeps_Inv s o s' :
  Inv K s -> ActiveInMemory s -> s_open s = true -> fault_outcomes K cfg s o s' -> Inv K s' /\ ActiveInMemory s'.
Proof.
  intros (HB & HI & _) HA Ho H. destruct (fault_later_ops s o s' HB Ho H) as (C & _ & E & F).
  split; [|apply C, HA]. split; [apply (fault_keeps_BlobsOk s o s'); assumption|].
  split; [apply E, HI|]. intros Hc. rewrite F in Hc. discriminate Hc.
Qed.

(* ---------- after every history ---------- *)
Theorem reach_fault_containment ops o s' :
  s_open (reach K cfg ops) = true -> fault_outcomes K cfg (reach K cfg ops) o s' ->
  (forall k, op_key o <> Some k ->
     of_key k (abs s') = of_key k (abs (reach K cfg ops)) /\
     forall meta, get_latest_entry s' k meta = get_latest_entry (reach K cfg ops) k meta) /\
  good (reach K cfg ops) s' /\
  Inv K s' /\ ActiveInMemory s' /\ s_alive s' = s_alive (reach K cfg ops) /\ s_open s' = true /\
  forall k ts meta msize dlen dseed, snd (step K cfg s' (OWrite k ts meta msize dlen dseed)) = RUnit.
Proof.
  intros Ho H. pose proof (reach_Inv K cfg ops) as HI. pose proof (reach_ActiveInMemory K cfg ops) as HA.
  pose proof (proj1 HI) as HB.
  split; [intros k Hk; apply (fault_other_keys (reach K cfg ops) o s' k); assumption|].
  split; [apply (fault_no_harm (reach K cfg ops) o s'); assumption|].
  destruct (fault_keeps_Inv _ o s' HI HA Ho H) as [HI' HA'].
  destruct (fault_later_ops _ o s' HB Ho H) as (_ & D & _ & F).
  split; [exact HI'|]. split; [exact HA'|]. split; [exact D|]. split; [exact F|].
  intros k ts meta msize dlen dseed. apply (fault_then_write_acknowledged (reach K cfg ops) o s'); assumption.
Qed.

End FaultOutcomes.

(* ---------- the background faults, together ---------- *)
Theorem bg_fault_contained K s s' :
  bg_fault_outcomes s s' ->
  abs s' = abs s /\ (forall k meta, get_latest_entry s' k meta = get_latest_entry s k meta) /\
  s_alive s' = s_alive s /\ s_open s' = s_open s /\ (Inv K s -> Inv K s') /\ (ActiveInMemory s -> ActiveInMemory s').
Proof.
  intros [id| |].
  - rewrite dump_fails_on_id. split; [reflexivity|]. split; [intros k meta; reflexivity|]. split; [reflexivity|].
    split; [reflexivity|]. split; intros HX; exact HX.
  - split; [reflexivity|]. split; [intros k meta; reflexivity|]. split; [reflexivity|]. split; [reflexivity|].
    split; [apply rotation_failure_Inv|]. intros HA. exact HA.
  - split; [reflexivity|]. split; [intros k meta; reflexivity|]. split; [reflexivity|].
    split; [reflexivity|]. split; intros HX; exact HX.
Qed.

(* ---------- why "possibly followed by the dump request": the literal inclusion is false ---------- *)
Lemma dump_req_ensure_active s : s_dump_req (ensure_active s) = s_dump_req s.
Proof. unfold ensure_active. destruct (s_active s); reflexivity. Qed.

Lemma dump_req_delete_start s oip : s_dump_req (delete_start s oip) = s_dump_req s.
Proof. destruct oip; [reflexivity|apply dump_req_ensure_active]. Qed.

(* a dropped delete never requests the dump: the request follows the loop over the closed blobs *)
Lemma delete_partial_dump_req K s mk oip s' : delete_partial K s mk oip s' -> s_dump_req s' = s_dump_req s.
Proof.
  intros [Hoip Hn| |b b' Ea Happ Hst|c' HF].
  - reflexivity.
  - apply dump_req_delete_start.
  - cbn [upd_active s_dump_req]. apply dump_req_delete_start.
  - cbn [upd_closed s_dump_req]. unfold delete_active_done.
    destruct (s_active (delete_start s oip)); cbn [upd_active s_dump_req]; apply dump_req_delete_start.
Qed.

(* ================= computed: a delete over two closed blobs, the marker append fails in one ================= *)

(* blob 0 (closed, index on disk) holds key 1 (timestamp 7) and key 2, blob 1 (closed, index on disk) holds key 1
   (timestamp 8); no active blob. delete(key 1, timestamp 9, only_if_presented); the marker append fails in blob 0 *)
Definition fd_state : storage :=
  reach 4 f_cfg [OOpen false; OWrite 1 7 None 8 5 1; OWrite 2 7 None 8 5 2; OCloseActive; OCreateActive;
                 OWrite 1 8 None 8 5 3; OCloseActive].
Definition fd_op : op := ODelete 1 9 None 8 true.
Definition fd_mk : rec := mk_rec 1 9 true None 8 0 0.
Definition fd_out : storage := delete_faulty 4 fd_state fd_mk true [true; false].

Lemma fd_out_is_fault_outcome : fault_outcomes 4 f_cfg fd_state fd_op fd_out.
Proof. right. apply (fl_delete_closed 4 f_cfg fd_state 1 9 None 8 true [true; false]). vm_compute. reflexivity. Qed.

(* blob 0: index loaded, no marker; blob 1: marker appended and indexed; the call answers Ok(1); the dump of the
   indexes is requested *)
Lemma fd_out_blobs :
  s_closed fd_out =
    match s_closed fd_state with
    | [Some b0; Some b1] => [Some (blob_load_index 4 b0); Some (fst (blob_append (blob_load_index 4 b1) fd_mk))]
    | l => l
    end /\
  map (fun b => length (b_recs b)) (blobs_in_order fd_state) = [2; 1]%nat /\
  map (fun b => length (b_recs b)) (blobs_in_order fd_out) = [2; 2]%nat /\
  map (fun b => length (b_recs b)) (blobs_in_order (fst (step 4 f_cfg fd_state fd_op))) = [3; 2]%nat /\
  delete_faulty_answer 4 fd_state fd_mk true [true; false] = RNum 1 /\
  snd (step 4 f_cfg fd_state fd_op) = RNum 2 /\
  s_dump_req fd_state = false /\ s_dump_req fd_out = true /\
  delete_faulty 4 fd_state fd_mk true [] = fst (step 4 f_cfg fd_state fd_op).   (* no failure: the completed delete *)
Proof. vm_compute. repeat split; reflexivity. Qed.

(* the key of the call reads as AFTER the completed delete (the newer blob got its marker), not as before;
   the other key is unchanged; the state satisfies the invariant and the next write is acknowledged *)
Lemma fd_out_reads :
  get_latest_entry fd_state 1 None = Found (mk_rec 1 8 false None 8 5 3) /\
  get_latest_entry fd_out 1 None = Deleted 9 /\
  get_latest_entry (fst (step 4 f_cfg fd_state fd_op)) 1 None = Deleted 9 /\
  get_latest_entry fd_out 2 None = Found (mk_rec 2 7 false None 8 5 2) /\
  get_latest_entry fd_state 2 None = Found (mk_rec 2 7 false None 8 5 2) /\
  of_key 2 (abs fd_out) = of_key 2 (abs fd_state) /\
  get_latest_entry fd_out 1 None = spec_read (abs fd_out) 1 /\
  snd (step 4 f_cfg fd_out (OWrite 3 7 None 8 5 4)) = RUnit.
Proof. vm_compute. repeat split; reflexivity. Qed.

Lemma fd_out_invariant : Inv 4 fd_out /\ ActiveInMemory fd_out.
Proof.
  apply (fault_keeps_Inv 4 f_cfg fd_state fd_op fd_out);
    [apply reach_Inv|apply reach_ActiveInMemory|vm_compute; reflexivity|apply fd_out_is_fault_outcome].
Qed.

(* fd_out is NOT literally a cancel outcome of the delete: a dropped delete has not requested the dump *)
Lemma fd_out_is_not_a_cancel_outcome : ~ cancel_outcomes 4 f_cfg fd_state fd_op fd_out.
Proof.
  intros [_ [E|[E|[_ Hp]]]].
  - assert (E2 := f_equal s_dump_req E). vm_compute in E2. discriminate E2.
  - assert (E2 := f_equal (fun s => length (abs s)) E). vm_compute in E2. discriminate E2.
  - cbn [partial_outcomes] in Hp. apply delete_partial_dump_req in Hp. vm_compute in Hp. discriminate Hp.
Qed.

(* the corner the theorem `failed_delete_read` leaves open, computed (state and delete of CancelProofs.d_state:
   key 1 at timestamps 7 and 8 in two closed blobs, delete at timestamp 8): the marker append fails in the NEWER
   blob. The call answers Ok(1), the marker is in the log, and the key still reads as BEFORE the delete (the
   newer blob answers Found 8; the marker of the older blob has an equal timestamp and does not replace it) *)
Definition fd2_out : storage := delete_faulty 4 d_state d_mk true [false; true].

Lemma fd2_out_is_fault_outcome : fault_outcomes 4 c_cfg d_state d_op fd2_out.
Proof. right. apply (fl_delete_closed 4 c_cfg d_state 1 8 None 8 true [false; true]). vm_compute. reflexivity. Qed.

Lemma fd2_out_reads :
  delete_faulty_answer 4 d_state d_mk true [false; true] = RNum 1 /\
  In d_mk (abs fd2_out) /\
  get_latest_entry d_state 1 None = Found (mk_rec 1 8 false None 8 5 2) /\
  get_latest_entry fd2_out 1 None = Found (mk_rec 1 8 false None 8 5 2) /\
  get_latest_entry (fst (step 4 c_cfg d_state d_op)) 1 None = Deleted 8.
Proof. split; [vm_compute; reflexivity|]. split; [vm_compute; auto|]. vm_compute. repeat split; reflexivity. Qed.

Print Assumptions fault_outcomes_are_cancel_outcomes.
Print Assumptions fault_outcomes_are_cancel_outcomes_strict.
Print Assumptions fault_error_is_cancel_outcome.
Print Assumptions failed_delete_is_cancel_outcome.
Print Assumptions fault_other_keys.
Print Assumptions fault_no_harm.
Print Assumptions fault_later_ops.
Print Assumptions fault_then_no_index_error.
Print Assumptions fault_then_write_acknowledged.
Print Assumptions fault_error_leaves_no_trace.
Print Assumptions failed_write_leaves_no_trace.
Print Assumptions failed_write_not_served.
Print Assumptions failed_delete_markers.
Print Assumptions delete_faulty_no_failure.
Print Assumptions failed_delete_log.
Print Assumptions failed_delete_read.
Print Assumptions fault_keeps_BlobsOk.
Print Assumptions failed_delete_keeps_BlobsOk.
Print Assumptions fault_keeps_Inv.
Print Assumptions reach_fault_containment.
Print Assumptions bg_fault_contained.
Print Assumptions fd_out_is_fault_outcome.
Print Assumptions fd_out_blobs.
Print Assumptions fd_out_reads.
Print Assumptions fd_out_invariant.
Print Assumptions fd_out_is_not_a_cancel_outcome.
Print Assumptions fd2_out_is_fault_outcome.
Print Assumptions fd2_out_reads.
