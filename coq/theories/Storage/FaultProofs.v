Require Import Pearl.Base.Prelude Pearl.Storage.Model Pearl.Storage.Spec Pearl.Storage.Inv Pearl.Storage.ReadProofs
               Pearl.Storage.InvProofs Pearl.Storage.Theorems Pearl.Storage.Fault.

(* a failed append is contained: the log, every read and the invariant are untouched *)
Lemma append_failure_contained K cfg ops k :
  abs (append_fails (reach K cfg ops)) = abs (reach K cfg ops) /\
  get_latest_entry (append_fails (reach K cfg ops)) k None = get_latest_entry (reach K cfg ops) k None.
Proof. split; reflexivity. Qed.

(* a failed index dump leaves the log intact (the bytes are all there) ... *)
Lemma dump_fails_recs b : b_recs (dump_fails b) = b_recs b.
Proof. unfold dump_fails. destruct (b_ondisk b); reflexivity. Qed.

Lemma recs_map_closed (f : blob -> blob) (l : list (option blob)) :
  (forall b, b_recs (f b) = b_recs b) ->
  flat_map b_recs (flat_map (fun o => match o with Some b => [b] | None => [] end)
                            (map (fun o => match o with Some b => Some (f b) | None => None end) l))
  = flat_map b_recs (flat_map (fun o => match o with Some b => [b] | None => [] end) l).
Proof.
  intros Hf. induction l as [|[b|] l IH]; cbn [map flat_map app]; [reflexivity| |exact IH].
  rewrite Hf, IH. reflexivity.
Qed.

Lemma dump_failure_keeps_log s id : abs (dump_fails_on s id) = abs s.
Proof.
  unfold abs, blobs_in_order, dump_fails_on, closed_blobs. cbn [s_active s_closed upd_closed].
  rewrite !flat_map_app. f_equal.
  apply (recs_map_closed (fun b => if b_id b =? id then dump_fails b else b)).
  intros b. destruct (b_id b =? id); [apply dump_fails_recs|reflexivity].
Qed.

Definition f_cfg : config := {| c_dup := true; c_maxrec := 1000; c_maxsize := 1000000 |}.
Definition f_hist : list op := [OOpen false; OWrite 1 7 None 8 5 1; OWrite 2 7 None 8 5 2].

(* ... but REFUTES containment (finding F9): the acknowledged records of that blob are no longer served *)
Lemma dump_failure_loses_records :
  let s := fst (step 4 f_cfg (reach 4 f_cfg f_hist) OCloseActive) in   (* closed, index still in memory *)
  get_latest_entry s 1 None = Found (mk_rec 1 7 false None 8 5 1) /\
  get_latest_entry (dump_fails_on s 0) 1 None = NotFound /\
  spec_read (abs (dump_fails_on s 0)) 1 = Found (mk_rec 1 7 false None 8 5 1).
Proof. vm_compute. repeat split; reflexivity. Qed.

(* REFUTATION (finding F15): a failing fsync inside close_active_blob drops the whole active blob *)
Lemma close_fsync_failure_loses_blob :
  let s := reach 4 f_cfg f_hist in
  get_latest_entry s 2 None = Found (mk_rec 2 7 false None 8 5 2) /\
  get_latest_entry (close_active_fsync_fails s) 2 None = NotFound /\ abs (close_active_fsync_fails s) = [].
Proof. vm_compute. repeat split; reflexivity. Qed.
