(* C11: every modelled I/O fault (Fault.v) is contained. Three of them used to be refuted here; the code was
   repaired and Fault.v follows it:
   - F9  (commit e3d3ed5 of the code): a failed index dump puts the headers back into the in-memory index;
   - F15 (commit 20e4a83): close_active_blob syncs the blob while it still is the active one;
   - F1  (commit 62103db): a failed blob creation during rotation is logged, the worker carries on. *)
Require Import Pearl.Base.Prelude Pearl.Storage.Model Pearl.Storage.Spec Pearl.Storage.Inv Pearl.Storage.ReadProofs
               Pearl.Storage.InvProofs Pearl.Storage.Theorems Pearl.Storage.Fault.

(* a failed append is contained: the log, every read and the invariant are untouched *)
Lemma append_failure_contained K cfg ops k :
  abs (append_fails (reach K cfg ops)) = abs (reach K cfg ops) /\
  get_latest_entry (append_fails (reach K cfg ops)) k None = get_latest_entry (reach K cfg ops) k None.
Proof. split; reflexivity. Qed.

(* ---------- a failed index dump (F9, repaired by commit e3d3ed5 of the code) ---------- *)

Lemma dump_fails_recs b : b_recs (dump_fails b) = b_recs b.
Proof. reflexivity. Qed.

Lemma map_slots_id (id : N) (l : list (option blob)) :
  map (fun o => match o with
                | Some b => Some (if b_id b =? id then dump_fails b else b)
                | None => None end) l = l.
Proof.
  induction l as [|[b|] l IH]; cbn [map]; [reflexivity| |rewrite IH; reflexivity].
  rewrite IH. unfold dump_fails. destruct (b_id b =? id); reflexivity.
Qed.

(* the storage is as it was: the blob is still closed, its index still in memory, no index file *)
Lemma dump_fails_on_id s id : dump_fails_on s id = s.
Proof. unfold dump_fails_on. rewrite map_slots_id. destruct s; reflexivity. Qed.

(* a failed index dump leaves the log intact (the bytes are all there) ... *)
Lemma dump_failure_keeps_log s id : abs (dump_fails_on s id) = abs s.
Proof. rewrite dump_fails_on_id. reflexivity. Qed.

(* ... and every read answers as before: the fault is contained *)
Lemma dump_failure_contained s id k :
  get_latest_entry (dump_fails_on s id) k None = get_latest_entry s k None /\ abs (dump_fails_on s id) = abs s.
Proof. rewrite dump_fails_on_id. split; reflexivity. Qed.

Lemma dump_failure_reads s id k meta :
  get_latest_entry (dump_fails_on s id) k meta = get_latest_entry s k meta /\
  read_all (dump_fails_on s id) k = read_all s k /\ read_all_dm (dump_fails_on s id) k = read_all_dm s k.
Proof. rewrite dump_fails_on_id. repeat split; reflexivity. Qed.

(* ---------- a failed fsync in close_active_blob (F15, repaired by commit 20e4a83 of the code) ---------- *)

Lemma close_fsync_failure_contained s : close_active_fsync_fails s = s.
Proof. reflexivity. Qed.

Lemma close_fsync_failure_reads s k meta :
  get_latest_entry (close_active_fsync_fails s) k meta = get_latest_entry s k meta /\
  abs (close_active_fsync_fails s) = abs s.
Proof. split; reflexivity. Qed.

(* ---------- a failed blob creation while the worker rotates (F1, repaired by commit 62103db of the code) ---------- *)

(* one blob id is used up, nothing else: log, reads and the worker are as before, and the ids stay fresh *)
Lemma rotation_failure_abs s : abs (rotation_create_fails s) = abs s.
Proof. reflexivity. Qed.

Lemma rotation_failure_reads s k meta :
  get_latest_entry (rotation_create_fails s) k meta = get_latest_entry s k meta /\
  read_all (rotation_create_fails s) k = read_all s k /\ read_all_dm (rotation_create_fails s) k = read_all_dm s k.
Proof. repeat split; reflexivity. Qed.

Lemma rotation_failure_alive s : s_alive (rotation_create_fails s) = s_alive s.
Proof. reflexivity. Qed.

Lemma rotation_failure_IdsOk s : IdsOk s -> IdsOk (rotation_create_fails s).
Proof.
  intros [Hinc Hlt]. split; [exact Hinc|].
  intros Ho b Hb. change (blobs_in_order (rotation_create_fails s)) with (blobs_in_order s) in Hb.
  change (s_open (rotation_create_fails s)) with (s_open s) in Ho.
  change (s_next (rotation_create_fails s)) with (s_next s + 1).
  specialize (Hlt Ho b Hb). lia.
Qed.

Lemma rotation_failure_Inv K s : Inv K s -> Inv K (rotation_create_fails s).
Proof.
  intros (Hb & Hi & Hn). split; [exact Hb|]. split; [apply rotation_failure_IdsOk, Hi|exact Hn].
Qed.

Lemma rotation_failure_contained s k :
  abs (rotation_create_fails s) = abs s /\
  get_latest_entry (rotation_create_fails s) k None = get_latest_entry s k None /\
  s_alive (rotation_create_fails s) = s_alive s /\
  (IdsOk s -> IdsOk (rotation_create_fails s)).
Proof. repeat split; try reflexivity; apply rotation_failure_IdsOk; assumption. Qed.

(* ---------- computed, on a concrete history ---------- *)

Definition f_cfg : config := {| c_dup := true; c_maxrec := 1000; c_maxsize := 1000000 |}.
Definition f_hist : list op := [OOpen false; OWrite 1 7 None 8 5 1; OWrite 2 7 None 8 5 2].

(* the blob 0 is closed with its index still in memory, then its dump fails: the acknowledged record is still
   served, as the log says it must be (before commit e3d3ed5 of the code the read answered NotFound: F9) *)
Lemma dump_failure_keeps_records :
  let s := fst (step 4 f_cfg (reach 4 f_cfg f_hist) OCloseActive) in   (* closed, index still in memory *)
  get_latest_entry s 1 None = Found (mk_rec 1 7 false None 8 5 1) /\
  get_latest_entry (dump_fails_on s 0) 1 None = Found (mk_rec 1 7 false None 8 5 1) /\
  spec_read (abs (dump_fails_on s 0)) 1 = Found (mk_rec 1 7 false None 8 5 1).
Proof. vm_compute. repeat split; reflexivity. Qed.

(* the fsync inside close_active_blob fails: the blob is still there, still active, and the record is served
   (before commit 20e4a83 of the code the read answered NotFound and the log was empty: F15) *)
Lemma close_fsync_failure_keeps_blob :
  let s := reach 4 f_cfg f_hist in
  get_latest_entry s 2 None = Found (mk_rec 2 7 false None 8 5 2) /\
  get_latest_entry (close_active_fsync_fails s) 2 None = Found (mk_rec 2 7 false None 8 5 2) /\
  abs (close_active_fsync_fails s) = abs s /\ length (abs (close_active_fsync_fails s)) = 2%nat /\
  s_active (close_active_fsync_fails s) = s_active s.
Proof. vm_compute. repeat split; reflexivity. Qed.

(* the creation of the next blob fails during a rotation: both records are served, the worker lives, and the
   next write still lands (in the blob that stayed active) *)
Lemma rotation_failure_keeps_going :
  let s := rotation_create_fails (reach 4 f_cfg f_hist) in
  get_latest_entry s 1 None = Found (mk_rec 1 7 false None 8 5 1) /\
  get_latest_entry s 2 None = Found (mk_rec 2 7 false None 8 5 2) /\
  s_alive s = true /\ s_next s = 2 /\
  get_latest_entry (fst (step_q 4 f_cfg s (OWrite 3 7 None 8 5 3))) 3 None = Found (mk_rec 3 7 false None 8 5 3).
Proof. vm_compute. repeat split; reflexivity. Qed.

Print Assumptions append_failure_contained.
Print Assumptions dump_failure_contained.
Print Assumptions close_fsync_failure_contained.
Print Assumptions rotation_failure_contained.
Print Assumptions rotation_failure_Inv.
Print Assumptions dump_failure_keeps_records.
Print Assumptions close_fsync_failure_keeps_blob.
Print Assumptions rotation_failure_keeps_going.
