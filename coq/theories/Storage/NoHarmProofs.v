(* C07 "no harm": the storage is append-only.

   Main theorems (all closed under the global context, see the Print Assumptions at the end):

     step_append_only   every blob that exists before a step (followed by its implicit quiesce) still
                        exists afterwards, with the same id, and its old record list is a prefix of the
                        new one.  Hypothesis added: NoActiveWhenClosed s.
     run_append_only    the same for every history.  Hypothesis added: NoActiveWhenClosed s (it holds of
                        init_storage, init_NoActiveWhenClosed, and is preserved by every operation).
     blob_bytes_prefix  appending records to a blob only appends bytes to the blob file.
     step_file_append_only / run_file_append_only
                        the two combined: the old blob file is a byte prefix of the new blob file.
     queries_pure       the six query operations return the state unchanged.
     new_blob_id_fresh  on an open storage, a blob of the new state whose id is not the id of an old blob
                        has an id >= the old next_blob_id (statement exactly as requested; the IdsOk
                        hypothesis is kept in the statement but is not used by the proof).
     new_blob_id_above  with IdsOk: such a blob has an id strictly above the ids of all old blobs.

   Why the added hypothesis.  `step s (OOpen l)` on a closed storage is
   `do_open (closed_blobs s) ...`: it re-reads the closed blobs only.  A closed storage that still held an
   active blob object would lose it (append_only_needs_NoActiveWhenClosed exhibits such a state, which
   moreover satisfies IdsOk and BlobsOk).  NoActiveWhenClosed excludes exactly that and is an invariant
   (InvProofs.run_NoActiveWhenClosed).  Nothing else is needed: in particular IdsOk is NOT needed,
   because the theorem speaks about membership and `sort_by_id` keeps the members whatever their order
   (in_sort_by_id).  OOpen on an open storage is the EAlreadyOpen no-op; OClose keeps every blob (the
   active one is dumped, which does not touch its records); ODrop keeps every blob as it is; ORmIndex
   only drops index files.

   Why `s_open s = true` in new_blob_id_fresh.  On a closed storage the only operation that can create a
   blob is OOpen on an empty directory (init_new: blob 0, next id 1).  IdsOk says nothing about s_next of
   a closed storage, so a closed, empty state with s_next = 5 satisfies IdsOk and gets a blob 0 < 5
   (new_blob_id_fresh_needs_open).  With `s_open s = true`, OOpen is a no-op, and OClose / ODrop /
   ORmIndex / the queries create nothing; blobs are created only by ensure_active and replace_active,
   both with id s_next.

   Method: one relation `good s s'` on states (every old blob is extended by a new blob; s_next does not
   decrease; every new blob has the id of an old blob or an id >= the old s_next).  It is reflexive and
   transitive and is established helper by helper (request_dump, ensure_active, close_active, ...). *)
Require Import Pearl.Base.Prelude Pearl.Storage.Model Pearl.Storage.Spec Pearl.Storage.Inv Pearl.Storage.InvProofs
               Pearl.Blob.Bytes.

Section K.
Variable K : N.
Variable cfg : config.

Definition prefix_of {A} (a b : list A) : Prop := exists t, b = a ++ t.

Lemma prefix_refl {A} (a : list A) : prefix_of a a.
Proof. exists []. symmetry. apply app_nil_r. Qed.

Lemma prefix_trans {A} (a b c : list A) : prefix_of a b -> prefix_of b c -> prefix_of a c.
Proof. intros [t ->] [u ->]. exists (t ++ u). symmetry. apply app_assoc. Qed.

(* ---------- one blob extends another ---------- *)
Definition bext (b b' : blob) : Prop := b_id b' = b_id b /\ prefix_of (b_recs b) (b_recs b').

Lemma bext_refl b : bext b b.
Proof. split; [reflexivity|apply prefix_refl]. Qed.

Lemma bext_trans a b c : bext a b -> bext b c -> bext a c.
Proof. intros [H1 H2] [H3 H4]. split; [congruence|]. apply (prefix_trans _ _ _ H2 H4). Qed.

Lemma bext_same b b' : b_id b' = b_id b -> b_recs b' = b_recs b -> bext b b'.
Proof. intros Hi Hr. split; [exact Hi|]. rewrite Hr. apply prefix_refl. Qed.

Lemma bext_dump b : bext b (blob_dump K b).
Proof. apply bext_same; [apply blob_dump_id|apply blob_dump_recs]. Qed.

Lemma bext_load_index b : bext b (blob_load_index K b).
Proof. apply bext_same; [apply blob_load_index_id|apply blob_load_index_recs]. Qed.

Lemma bext_from_file b : bext b (blob_from_file K b).
Proof. apply bext_same; [apply blob_from_file_id|apply blob_from_file_recs]. Qed.

Lemma bext_append b r : bext b (fst (blob_append b r)).
Proof.
  unfold blob_append. destruct (b_ondisk b); cbn [fst]; (split; [reflexivity|]); cbn [b_recs]; exists [r]; reflexivity.
Qed.

Lemma bext_delete b mk oip b' d ok : blob_delete K b mk oip = (b', d, ok) -> bext b b'.
Proof.
  unfold blob_delete. intros E.
  destruct (negb oip || match idx_get_latest (b_idx b) (r_key mk) with Found _ => true | _ => false end).
  - pose proof (bext_append (blob_load_index K b) mk) as HA.
    destruct (blob_append (blob_load_index K b) mk) as [b2 ok2]. cbn [fst] in HA.
    injection E as E1 E2 E3. subst b2.
    apply (bext_trans _ _ _ (bext_load_index b) HA).
  - injection E as E1 E2 E3. subst b'. apply bext_refl.
Qed.

(* ---------- lists of blobs ---------- *)
Definition lext (l l' : list blob) : Prop := forall b, In b l -> exists b', In b' l' /\ bext b b'.

Definition lfresh (n : N) (l l' : list blob) : Prop :=
  forall b', In b' l' -> (exists b, In b l /\ b_id b = b_id b') \/ n <= b_id b'.

Lemma lext_refl l : lext l l.
Proof. intros b Hb. exists b. split; [exact Hb|apply bext_refl]. Qed.

Lemma lext_trans l1 l2 l3 : lext l1 l2 -> lext l2 l3 -> lext l1 l3.
Proof.
  intros H1 H2 b Hb. destruct (H1 b Hb) as (b1 & Hb1 & E1). destruct (H2 b1 Hb1) as (b2 & Hb2 & E2).
  exists b2. split; [exact Hb2|apply (bext_trans _ _ _ E1 E2)].
Qed.

Lemma F2_refl l : Forall2 bext l l.
Proof. induction l as [|x l IH]; constructor; [apply bext_refl|exact IH]. Qed.

Lemma F2_map (f : blob -> blob) l : (forall b, bext b (f b)) -> Forall2 bext l (map f l).
Proof. intros H. induction l as [|x l IH]; cbn [map]; constructor; [apply H|exact IH]. Qed.

Lemma F2_lext l l' : Forall2 bext l l' -> lext l l'.
Proof.
  induction 1 as [|x y l l' Hxy HF IH]; intros b Hb; [destruct Hb|].
  destruct Hb as [<-|Hb].
  - exists y. split; [left; reflexivity|exact Hxy].
  - destruct (IH b Hb) as (b' & Hb' & E). exists b'. split; [right; exact Hb'|exact E].
Qed.

Lemma F2_ids l l' : Forall2 bext l l' -> forall b', In b' l' -> exists b, In b l /\ b_id b = b_id b'.
Proof.
  induction 1 as [|x y l l' Hxy HF IH]; intros b' Hb'; [destruct Hb'|].
  destruct Hb' as [<-|Hb'].
  - exists x. split; [left; reflexivity|]. symmetry. exact (proj1 Hxy).
  - destruct (IH b' Hb') as (b & Hb & E). exists b. split; [right; exact Hb|exact E].
Qed.

(* ---------- the relation between states ---------- *)
Definition oa (o : option blob) : list blob := match o with Some b => [b] | None => [] end.

Lemma bio_eq s : blobs_in_order s = cb (s_closed s) ++ oa (s_active s).
Proof. reflexivity. Qed.

Definition good (s s' : storage) : Prop :=
  lext (blobs_in_order s) (blobs_in_order s') /\
  s_next s <= s_next s' /\
  lfresh (s_next s) (blobs_in_order s) (blobs_in_order s').

Lemma good_refl s : good s s.
Proof.
  split; [apply lext_refl|]. split; [lia|].
  intros b' Hb'. left. exists b'. split; [exact Hb'|reflexivity].
Qed.

Lemma good_trans s1 s2 s3 : good s1 s2 -> good s2 s3 -> good s1 s3.
Proof.
  intros (HL1 & HN1 & HF1) (HL2 & HN2 & HF2). split; [apply (lext_trans _ _ _ HL1 HL2)|]. split; [lia|].
  intros b3 Hb3. destruct (HF2 b3 Hb3) as [(b2 & Hb2 & E2)|H]; [|right; lia].
  destruct (HF1 b2 Hb2) as [(b1 & Hb1 & E1)|H].
  - left. exists b1. split; [exact Hb1|congruence].
  - right. rewrite <- E2. exact H.
Qed.

(* same blobs up to extension, position by position; same next id *)
Lemma good_F2 s s' :
  Forall2 bext (blobs_in_order s) (blobs_in_order s') -> s_next s' = s_next s -> good s s'.
Proof.
  intros HF HN. split; [apply F2_lext, HF|]. split; [lia|].
  intros b' Hb'. left. apply (F2_ids _ _ HF b' Hb').
Qed.

Lemma good_same s s' : blobs_in_order s' = blobs_in_order s -> s_next s' = s_next s -> good s s'.
Proof. intros Hb HN. apply good_F2; [rewrite Hb; apply F2_refl|exact HN]. Qed.

Lemma good_ext s s' :
  s_closed s' = s_closed s -> s_active s' = s_active s -> s_next s' = s_next s -> good s s'.
Proof. intros Hc Ha HN. apply good_same; [|exact HN]. rewrite !bio_eq, Hc, Ha. reflexivity. Qed.

(* one blob is added at the end, with the old next id *)
Lemma good_grow s s' nb :
  blobs_in_order s' = blobs_in_order s ++ [nb] -> b_id nb = s_next s -> s_next s' = s_next s + 1 -> good s s'.
Proof.
  intros Hb Hi HN. split; [|split; [lia|]].
  - intros b Hin. exists b. split; [|apply bext_refl]. rewrite Hb. apply in_or_app. left. exact Hin.
  - intros b' Hin. rewrite Hb in Hin. apply in_app_or in Hin. destruct Hin as [Hin|[<-|[]]].
    + left. exists b'. split; [exact Hin|reflexivity].
    + right. lia.
Qed.

Lemma good_upd_active s a b' : s_active s = Some a -> bext a b' -> good s (upd_active s (Some b')).
Proof.
  intros E Hb. apply good_F2; [|reflexivity]. rewrite !bio_eq, E. cbn [upd_active s_closed s_active oa].
  apply Forall2_app; [apply F2_refl|]. constructor; [exact Hb|constructor].
Qed.

Lemma good_upd_closed s c : Forall2 bext (cb (s_closed s)) (cb c) -> good s (upd_closed s c).
Proof.
  intros H. apply good_F2; [|reflexivity]. rewrite !bio_eq. cbn [upd_closed s_closed s_active].
  apply Forall2_app; [exact H|apply F2_refl].
Qed.

(* ---------- helper by helper ---------- *)
Lemma good_request_dump s : good s (request_dump s).
Proof. unfold request_dump. destruct (s_alive s); [apply good_ext; reflexivity|apply good_refl]. Qed.

Lemma good_ensure_active s : good s (ensure_active s).
Proof.
  unfold ensure_active. destruct (s_active s) as [a|] eqn:E; [apply good_refl|].
  apply (good_grow _ _ (new_blob (s_next s))); [|reflexivity|reflexivity].
  rewrite !bio_eq, E. cbn [s_closed s_active oa]. rewrite app_nil_r. reflexivity.
Qed.

Lemma good_close_active s : good s (fst (close_active s)).
Proof.
  unfold close_active. destruct (s_active s) as [a|] eqn:E; cbn [fst]; [|apply good_refl].
  apply good_same; [|reflexivity]. rewrite !bio_eq, E.
  cbn [push_closed upd_closed upd_active s_closed s_active oa]. rewrite cb_app, app_nil_r. reflexivity.
Qed.

Lemma good_create_active s : good s (fst (create_active s)).
Proof.
  unfold create_active. destruct (s_active s) as [a|] eqn:E; cbn [fst]; [apply good_refl|apply good_ensure_active].
Qed.

Lemma good_restore_active s : good s (fst (restore_active K s)).
Proof.
  unfold restore_active. destruct (s_active s) as [a|] eqn:E; cbn [fst]; [apply good_refl|].
  destruct (pop_last (s_closed s)) as [[b c]|] eqn:P; cbn [fst]; [|apply good_refl].
  apply good_F2; [|reflexivity]. rewrite !bio_eq, E. cbn [upd_closed upd_active s_closed s_active oa].
  rewrite (pop_last_cb _ _ _ P), app_nil_r.
  apply Forall2_app; [apply F2_refl|]. constructor; [apply bext_load_index|constructor].
Qed.

Lemma good_worker s f : (forall s, good s (fst (f s))) -> good s (worker s f).
Proof.
  intros Hf. unfold worker. destruct (s_alive s); [|apply good_refl].
  specialize (Hf s). destruct (f s) as [s' [e|]]; cbn [fst] in Hf; [|exact Hf].
  apply (good_trans _ _ _ Hf). apply good_ext; reflexivity.
Qed.

Lemma good_replace_active s : good s (replace_active s).
Proof.
  apply (good_grow _ _ (new_blob (s_next s))); [|reflexivity|reflexivity].
  unfold replace_active. rewrite !bio_eq. cbn [s_closed s_active oa].
  destruct (s_active s) as [a|]; cbn [push_closed upd_closed s_closed oa].
  - rewrite cb_app. reflexivity.
  - rewrite app_nil_r. reflexivity.
Qed.

Lemma good_maybe_rotate s : good s (maybe_rotate K cfg s).
Proof.
  unfold maybe_rotate. destruct (s_active s) as [a|]; [|apply good_refl].
  destruct (blob_full K cfg a && s_aged s && s_alive s); [|apply good_refl].
  apply (good_trans _ _ _ (good_replace_active s)). apply good_request_dump.
Qed.

Lemma good_do_write s k ts meta msize dlen dseed :
  good s (fst (do_write K cfg s k ts meta msize dlen dseed)).
Proof.
  unfold do_write. pose proof (good_ensure_active s) as H1.
  set (s1 := ensure_active s) in *. clearbody s1.
  destruct (negb (c_dup cfg) && is_found (get_latest_entry s1 k meta)); cbn [fst]; [exact H1|].
  destruct (s_active s1) as [a|] eqn:EA; cbn [fst]; [|exact H1].
  pose proof (bext_append a (mk_rec k ts false meta msize dlen dseed)) as Hb.
  destruct (blob_append a (mk_rec k ts false meta msize dlen dseed)) as [b' ok]. cbn [fst] in Hb.
  pose proof (good_upd_active s1 a b' EA Hb) as H2.
  apply (good_trans _ _ _ H1). apply (good_trans _ _ _ H2).
  destruct ok; cbn [fst]; [apply good_maybe_rotate|apply good_ext; reflexivity].
Qed.

Lemma delete_in_closed_F2 l mk : forall l' n f,
  delete_in_closed K l mk = (l', n, f) -> Forall2 bext (cb l) (cb l').
Proof.
  induction l as [|[x|] l IH]; intros l' n f E; cbn [delete_in_closed] in E.
  - injection E as <- <- <-. constructor.
  - destruct (delete_in_closed K l mk) as [[r' n1] f1] eqn:D.
    destruct (blob_delete K x mk true) as [[b' d] ok] eqn:B.
    injection E as <- <- <-. rewrite !cb_cons_some. constructor; [apply (bext_delete _ _ _ _ _ _ B)|].
    apply (IH _ _ _ eq_refl).
  - destruct (delete_in_closed K l mk) as [[r' n1] f1] eqn:D.
    injection E as <- <- <-. rewrite !cb_cons_none. apply (IH _ _ _ eq_refl).
Qed.

Lemma good_do_delete s k ts meta msize oip : good s (fst (do_delete K s k ts meta msize oip)).
Proof.
  unfold do_delete.
  assert (H1 : good s (if oip then s else ensure_active s)).
  { destruct oip; [apply good_refl|apply good_ensure_active]. }
  set (s1 := if oip then s else ensure_active s) in *. clearbody s1.
  set (mk := mk_rec k ts true meta msize 0 0).
  apply (good_trans _ _ _ H1). clear H1.
  destruct (s_active s1) as [a|] eqn:EA.
  - destruct (blob_delete K a mk oip) as [[b' d] ok] eqn:B.
    pose proof (good_upd_active s1 a b' EA (bext_delete _ _ _ _ _ _ B)) as H2.
    apply (good_trans _ _ _ H2). clear H2.
    destruct (negb ok); cbn [fst]; [apply good_ext; reflexivity|].
    destruct (delete_in_closed K (s_closed (upd_active s1 (Some b'))) mk) as [[c' nc] f] eqn:D.
    assert (H3 : good (upd_active s1 (Some b')) (upd_f2 (upd_closed (upd_active s1 (Some b')) c') f)).
    { apply (good_trans _ _ _ (good_upd_closed _ c' (delete_in_closed_F2 _ _ _ _ _ D))). apply good_ext; reflexivity. }
    destruct (0 <? nc); cbn [fst]; [|exact H3]. apply (good_trans _ _ _ H3), good_request_dump.
  - cbn [negb].
    destruct (delete_in_closed K (s_closed s1) mk) as [[c' nc] f] eqn:D.
    assert (H3 : good s1 (upd_f2 (upd_closed s1 c') f)).
    { apply (good_trans _ _ _ (good_upd_closed _ c' (delete_in_closed_F2 _ _ _ _ _ D))). apply good_ext; reflexivity. }
    destruct (0 <? nc); cbn [fst]; [|exact H3]. apply (good_trans _ _ _ H3), good_request_dump.
Qed.

Lemma good_dump_all_closed s : good s (dump_all_closed K s).
Proof. unfold dump_all_closed. apply good_upd_closed. rewrite cb_map_opt. apply F2_map, bext_dump. Qed.

Lemma good_quiesce s : good s (quiesce K s).
Proof.
  unfold quiesce. destruct (s_alive s && s_dump_req s); [|apply good_refl].
  apply (good_trans _ _ _ (good_dump_all_closed s)). apply good_ext; reflexivity.
Qed.

Lemma good_closed_state files s : Forall2 bext (blobs_in_order s) files -> good s (closed_state files s).
Proof.
  intros H. apply good_F2; [|reflexivity]. rewrite (bio_eq (closed_state files s)).
  cbn [closed_state s_closed s_active oa]. rewrite cb_map_Some, app_nil_r. exact H.
Qed.

(* every operation of the storage except the re-opening of a closed storage (crash damage between two sessions, OCut,
   is not an operation of the storage: on an open storage it is the no-op) *)
Lemma step_good s o : (forall l, o = OOpen l -> s_open s = true) -> (forall id k, o = OCut id k -> s_open s = true) ->
  good s (fst (step K cfg s o)).
Proof.
  intros HO HC. unfold step. destruct (needs_open o && negb (s_open s)); [apply good_refl|].
  destruct o; try exact (good_refl s). (* also OSleep: `good` only looks at the blobs and at s_next *)
  - apply good_do_write.
  - apply good_do_delete.
  - pose proof (good_close_active s) as H1. destruct (close_active s) as [s' e].
    cbn [fst] in *. apply (good_trans _ _ _ H1), good_request_dump.
  - pose proof (good_create_active s) as H1. destruct (create_active s) as [s' e]. exact H1.
  - pose proof (good_restore_active s) as H1. destruct (restore_active K s) as [s' e]. exact H1.
  - cbn [fst]. apply (good_trans _ (worker s close_active)); [|apply good_request_dump].
    apply good_worker, good_close_active.
  - cbn [fst]. apply good_worker, good_create_active.
  - cbn [fst]. apply good_worker, good_restore_active.
  - cbn [fst]. apply (good_trans _ (if s_alive s && eval_pred pred s then replace_active s else s));
      [|apply good_request_dump].
    destruct (s_alive s && eval_pred pred s); [apply good_replace_active|apply good_refl].
  - cbn [fst]. apply good_request_dump.
  - cbn [fst]. apply good_quiesce.
  - cbn [fst]. apply good_closed_state. unfold do_close. rewrite bio_eq, closed_blobs_cb.
    apply Forall2_app; [apply F2_refl|]. destruct (s_active s) as [a|]; cbn [oa]; [|constructor].
    constructor; [apply bext_dump|constructor].
  - cbn [fst]. apply good_closed_state. rewrite bio_eq, closed_blobs_cb.
    apply Forall2_app; [apply F2_refl|]. destruct (s_active s) as [a|]; cbn [oa]; apply F2_refl.
  - rewrite (HO lazy eq_refl). cbn [fst]. apply good_refl.
  - cbn [fst]. apply good_upd_closed. rewrite cb_map_opt. apply F2_map.
    intros b. destruct (b_id b =? id); [apply bext_same; reflexivity|apply bext_refl].
  - cbn [fst]. unfold do_cut. rewrite (HC id keep eq_refl). apply good_refl.
Qed.

(* re-opening: every readable file is read back, whatever the order of the ids *)
Lemma do_open_lext files bad quar c lazy f2 :
  lext (good_files bad files) (blobs_in_order (do_open K files bad quar c lazy f2)).
Proof.
  destruct files as [|f0 fs] eqn:EF; [intros b []|].
  rewrite <- EF. assert (Hne : files <> []) by (rewrite EF; discriminate). clear EF f0 fs.
  rewrite do_open_nonempty by exact Hne.
  intros b Hb.
  assert (HB : In (blob_from_file K b) (sort_by_id (map (blob_from_file K) (good_files bad files)))).
  { apply in_sort_by_id, in_map, Hb. }
  set (blobs := sort_by_id (map (blob_from_file K) (good_files bad files))) in *. clearbody blobs. cbv zeta.
  destruct lazy.
  - rewrite bio_eq. cbn [s_closed s_active oa]. rewrite cb_map_some_f, app_nil_r.
    exists (blob_dump K (blob_from_file K b)). split; [apply in_map, HB|].
    apply (bext_trans _ _ _ (bext_from_file b) (bext_dump _)).
  - destruct (rev blobs) as [|last r] eqn:R.
    + apply (f_equal (@rev blob)) in R. rewrite rev_involutive in R. subst blobs. destruct HB.
    + apply rev_cons_inv in R. subst blobs. rewrite bio_eq. cbn [s_closed s_active oa]. rewrite cb_map_some_f.
      apply in_app_or in HB. destruct HB as [HB|[HB|[]]].
      * exists (blob_dump K (blob_from_file K b)). split; [apply in_or_app; left; apply in_map, HB|].
        apply (bext_trans _ _ _ (bext_from_file b) (bext_dump _)).
      * subst last. exists (blob_load_index K (blob_from_file K b)).
        split; [apply in_or_app; right; left; reflexivity|].
        apply (bext_trans _ _ _ (bext_from_file b) (bext_load_index _)).
Qed.

(* `is_cut o = false`, `s_bad s = []`: the statement is about what the STORAGE does to the blobs. A crash may cut a blob
   file (OCut), and a file it made unreadable is moved to the corrupted directory by the next open -- renamed, not
   modified, but no longer a blob of the storage (CrashProofs.cut_inside_quarantines). *)
Lemma step_lext s o :
  NoActiveWhenClosed s -> is_cut o = false -> s_bad s = [] ->
  lext (blobs_in_order s) (blobs_in_order (fst (step K cfg s o))).
Proof.
  intros HN Hc HB. destruct (s_open s) eqn:EO.
  - apply step_good; intros; exact EO.
  - destruct o; try discriminate Hc; try (apply step_good; intros; discriminate).
    unfold step. cbn [needs_open andb]. rewrite EO. cbn [fst].
    rewrite (bio_eq s), (HN EO). cbn [oa]. rewrite app_nil_r, <- closed_blobs_cb.
    rewrite <- (good_files_nil (closed_blobs s)) at 1. rewrite HB. apply do_open_lext.
Qed.

Lemma step_q_lext s o :
  NoActiveWhenClosed s -> is_cut o = false -> s_bad s = [] ->
  lext (blobs_in_order s) (blobs_in_order (fst (step_q K cfg s o))).
Proof.
  intros HN Hc HB. unfold step_q. pose proof (step_lext s o HN Hc HB) as H1.
  destruct (step K cfg s o) as [s' r]. cbn [fst] in *.
  apply (lext_trans _ _ _ H1). apply (good_quiesce s').
Qed.

Lemma step_q_good s o : s_open s = true -> good s (fst (step_q K cfg s o)).
Proof.
  intros EO. unfold step_q. assert (H1 : good s (fst (step K cfg s o))) by (apply step_good; intros; exact EO).
  destruct (step K cfg s o) as [s' r]. cbn [fst] in *.
  apply (good_trans _ _ _ H1), good_quiesce.
Qed.

Lemma step_q_NoActiveWhenClosed s o : NoActiveWhenClosed s -> NoActiveWhenClosed (fst (step_q K cfg s o)).
Proof.
  intros HN. unfold step_q. pose proof (step_NoActiveWhenClosed K cfg s o HN) as H1.
  destruct (step K cfg s o) as [s' r]. cbn [fst] in *. apply quiesce_NoActiveWhenClosed, H1.
Qed.

(* a history without crash damage *)
Definition no_cut (ops : list op) : Prop := forall o, In o ops -> is_cut o = false.

Lemma run_lext ops : forall s,
  NoActiveWhenClosed s -> no_cut ops -> s_bad s = [] ->
  lext (blobs_in_order s) (blobs_in_order (fst (run K cfg s ops))).
Proof.
  induction ops as [|o ops IH]; intros s HN Hc HB; cbn [run]; [apply lext_refl|].
  assert (Hco : is_cut o = false) by (apply Hc; left; reflexivity).
  assert (Hcr : no_cut ops) by (intros x Hx; apply Hc; right; exact Hx).
  pose proof (step_q_lext s o HN Hco HB) as H1. pose proof (step_q_NoActiveWhenClosed s o HN) as H2.
  pose proof (bad_step_q K cfg s o Hco HB) as H3.
  destruct (step_q K cfg s o) as [s' x]. cbn [fst] in *.
  specialize (IH s' H2 Hcr H3). destruct (run K cfg s' ops) as [s'' xs]. cbn [fst] in *.
  apply (lext_trans _ _ _ H1 IH).
Qed.

(* ---------- with crash damage: the blobs a crash did not touch ---------- *)
(* the blob files a history's crashes damaged *)
Definition cut_ids (ops : list op) : list N := flat_map (fun o => match o with OCut id _ => [id] | _ => [] end) ops.

Lemma cut_ids_cons o ops : cut_ids (o :: ops) = cut_ids [o] ++ cut_ids ops.
Proof. unfold cut_ids. cbn [flat_map]. rewrite app_nil_r. reflexivity. Qed.

Lemma no_cut_ids ops : no_cut ops -> cut_ids ops = [].
Proof.
  induction ops as [|o ops IH]; intros H; [reflexivity|]. rewrite cut_ids_cons, IH by (intros x Hx; apply H; right; exact Hx).
  specialize (H o (or_introl eq_refl)). destruct o; try discriminate H; reflexivity.
Qed.

Lemma step_lext_uncut s o b :
  NoActiveWhenClosed s -> In b (blobs_in_order s) -> ~ In (b_id b) (s_bad s) -> ~ In (b_id b) (cut_ids [o]) ->
  exists b', In b' (blobs_in_order (fst (step K cfg s o))) /\ bext b b'.
Proof.
  intros HN Hb Hnb Hnc. destruct (s_open s) eqn:EO.
  - apply (proj1 (step_good s o (fun _ _ => EO) (fun _ _ _ => EO))), Hb.
  - assert (EB : blobs_in_order s = closed_blobs s).
    { rewrite bio_eq, (HN EO). cbn [oa]. rewrite app_nil_r. reflexivity. }
    assert (HG : (forall l, o <> OOpen l) -> (forall id k, o <> OCut id k) ->
                 exists b', In b' (blobs_in_order (fst (step K cfg s o))) /\ bext b b').
    { intros H1 H2. apply (proj1 (step_good s o (fun l E => False_ind _ (H1 l E)) (fun id k E => False_ind _ (H2 id k E)))), Hb. }
    destruct o; try (apply HG; discriminate); clear HG.
    + unfold step. cbn [needs_open andb]. rewrite EO. cbn [fst]. apply do_open_lext.
      apply in_good_files. split; [rewrite <- EB; exact Hb|exact Hnb].
    + unfold step. cbn [needs_open andb fst]. exists b. split; [|apply bext_refl].
      rewrite bio_eq, active_do_cut, closed_do_cut, (HN EO). cbn [oa]. rewrite app_nil_r.
      rewrite EB, closed_blobs_cb in Hb. destruct keep as [j|]; [|exact Hb]. rewrite EO, cb_map_opt.
      assert (Ec : cut_blob K id j b = b).
      { unfold cut_blob. destruct (N.eqb_spec (b_id b) id) as [E|_]; [|reflexivity].
        exfalso. apply Hnc. cbn. left. symmetry. exact E. }
      rewrite <- Ec. apply in_map, Hb.
Qed.

Lemma bad_step_incl s o i :
  In i (s_bad (fst (step K cfg s o))) -> In i (s_bad s) \/ In i (cut_ids [o]).
Proof.
  intros Hi. destruct (touches_quar o) eqn:Ht.
  - destruct o; try discriminate Ht; unfold step in Hi; cbn [needs_open andb fst] in Hi.
    + destruct (s_open s); cbn [fst] in Hi; [left; exact Hi|].
      rewrite (proj2 (proj2 (do_open_quar K _ _ _ _ _ _))) in Hi. destruct Hi.
    + unfold do_cut in Hi. destruct (s_open s); [left; exact Hi|]. destruct keep as [j|]; [left; exact Hi|].
      destruct (existsb (fun b => b_id b =? id) (closed_blobs s)); [|left; exact Hi].
      cbn [upd_bad s_bad] in Hi. unfold add_bad in Hi. destruct (existsb (N.eqb id) (s_bad s)); [left; exact Hi|].
      apply in_app_or in Hi. destruct Hi as [Hi|[<-|[]]]; [left; exact Hi|right; left; reflexivity].
  - pose proof (qf_step K cfg s o Ht) as Q. apply qf_inv in Q. destruct Q as (_ & Q & _). rewrite Q in Hi. left. exact Hi.
Qed.

Lemma run_lext_uncut ops : forall s b,
  NoActiveWhenClosed s -> In b (blobs_in_order s) -> ~ In (b_id b) (s_bad s) -> ~ In (b_id b) (cut_ids ops) ->
  exists b', In b' (blobs_in_order (fst (run K cfg s ops))) /\ bext b b'.
Proof.
  induction ops as [|o ops IH]; intros s b HN Hb Hnb Hnc; cbn [run]; [exists b; split; [exact Hb|apply bext_refl]|].
  rewrite cut_ids_cons in Hnc.
  assert (Hnc1 : ~ In (b_id b) (cut_ids [o])) by (intros H; apply Hnc, in_or_app; left; exact H).
  assert (Hnc2 : ~ In (b_id b) (cut_ids ops)) by (intros H; apply Hnc, in_or_app; right; exact H).
  destruct (step_lext_uncut s o b HN Hb Hnb Hnc1) as (b1 & Hb1 & E1).
  pose proof (step_q_NoActiveWhenClosed s o HN) as H2.
  pose proof (bad_step_incl s o (b_id b)) as HBI.
  unfold step_q in *. destruct (step K cfg s o) as [s' x]. cbn [fst] in *.
  destruct (proj1 (good_quiesce s') b1 Hb1) as (b2 & Hb2 & E2).
  pose proof (bext_trans _ _ _ E1 E2) as E12.
  assert (Hnb2 : ~ In (b_id b2) (s_bad (quiesce K s'))).
  { rewrite (proj1 E12), bad_quiesce. intros H. destruct (HBI H) as [H'|H']; [exact (Hnb H')|exact (Hnc1 H')]. }
  assert (Hnc3 : ~ In (b_id b2) (cut_ids ops)) by (rewrite (proj1 E12); exact Hnc2).
  destruct (IH (quiesce K s') b2 H2 Hb2 Hnb2 Hnc3) as (b3 & Hb3 & E3).
  destruct (run K cfg (quiesce K s') ops) as [s'' xs]. cbn [fst] in *.
  exists b3. split; [exact Hb3|apply (bext_trans _ _ _ E12 E3)].
Qed.

(* ================= the theorems ================= *)

(* 1. No operation ever removes or changes a record of an existing blob.
      Added hypothesis: NoActiveWhenClosed s (see the header; it is necessary, see
      append_only_needs_NoActiveWhenClosed below). *)
Theorem step_append_only : forall s o b,
  NoActiveWhenClosed s -> is_cut o = false -> s_bad s = [] ->
  In b (blobs_in_order s) ->
  exists b', In b' (blobs_in_order (fst (step_q K cfg s o))) /\ b_id b' = b_id b /\ prefix_of (b_recs b) (b_recs b').
Proof.
  intros s o b HN Hc HB Hb. destruct (step_q_lext s o HN Hc HB b Hb) as (b' & Hin & Hid & Hp).
  exists b'. split; [exact Hin|]. split; assumption.
Qed.

(* 2. lifted to every history; NoActiveWhenClosed holds of init_storage (init_NoActiveWhenClosed) and is
      preserved by every operation (run_NoActiveWhenClosed) *)
Theorem run_append_only : forall ops s b,
  NoActiveWhenClosed s -> no_cut ops -> s_bad s = [] ->
  In b (blobs_in_order s) ->
  exists b', In b' (blobs_in_order (fst (run K cfg s ops))) /\ b_id b' = b_id b /\ prefix_of (b_recs b) (b_recs b').
Proof.
  intros ops s b HN Hc HB Hb. destruct (run_lext ops s HN Hc HB b Hb) as (b' & Hin & Hid & Hp).
  exists b'. split; [exact Hin|]. split; assumption.
Qed.

(* 2b. with crash damage anywhere in the history: a blob whose file no crash touched -- not cut by this history, not
       left unreadable by an earlier one -- still exists with the same id, its old records a prefix of the new ones.
       (A blob file that WAS cut: CrashProofs.cut_boundary_restart / cut_inside_quarantines.) *)
Theorem run_append_only_uncut : forall ops s b,
  NoActiveWhenClosed s ->
  In b (blobs_in_order s) -> ~ In (b_id b) (s_bad s) -> ~ In (b_id b) (cut_ids ops) ->
  exists b', In b' (blobs_in_order (fst (run K cfg s ops))) /\ b_id b' = b_id b /\ prefix_of (b_recs b) (b_recs b').
Proof.
  intros ops s b HN Hb Hnb Hnc. destruct (run_lext_uncut ops s b HN Hb Hnb Hnc) as (b' & Hin & Hid & Hp).
  exists b'. split; [exact Hin|]. split; assumption.
Qed.

(* between any two points of a history that starts in the initial state *)
Corollary history_append_only : forall ops1 ops2 b,
  no_cut ops2 -> s_bad (fst (run K cfg init_storage ops1)) = [] ->
  In b (blobs_in_order (fst (run K cfg init_storage ops1))) ->
  exists b', In b' (blobs_in_order (fst (run K cfg (fst (run K cfg init_storage ops1)) ops2))) /\
             b_id b' = b_id b /\ prefix_of (b_recs b) (b_recs b').
Proof.
  intros ops1 ops2 b Hc HB Hb. apply run_append_only; [|exact Hc|exact HB|exact Hb].
  apply run_NoActiveWhenClosed, init_NoActiveWhenClosed.
Qed.

(* the hypothesis of 1 cannot be dropped: a closed storage still holding an active blob (a state that
   satisfies IdsOk and BlobsOk but is not reachable) loses that blob's record when re-opened *)
Lemma append_only_needs_NoActiveWhenClosed :
  IdsOk cex_closed /\ BlobsOk K cex_closed /\
  exists b, In b (blobs_in_order cex_closed) /\
    ~ exists b', In b' (blobs_in_order (fst (step_q K cfg cex_closed (OOpen false)))) /\
                 b_id b' = b_id b /\ prefix_of (b_recs b) (b_recs b').
Proof.
  destruct (nondata_abs_needs_NoActiveWhenClosed K cfg) as (HI & HB & _ & _).
  split; [exact HI|]. split; [exact HB|].
  exists cex_blob. split; [left; reflexivity|].
  intros (b' & Hin & _ & [t Hp]).
  assert (E : blobs_in_order (fst (step_q K cfg cex_closed (OOpen false))) = [new_blob 0]) by reflexivity.
  rewrite E in Hin. destruct Hin as [<-|[]]. cbn [new_blob b_recs cex_blob app] in Hp. discriminate Hp.
Qed.

(* 3. byte level: appending records only appends bytes to the blob file *)
Lemma fold_bytes_prefix t : forall acc,
  prefix_of acc (fold_left (fun acc r => acc ++ fst (rec_bytes K r (N.of_nat (length acc)))) t acc).
Proof.
  induction t as [|x t IH]; intros acc; cbn [fold_left]; [apply prefix_refl|].
  apply (prefix_trans _ (acc ++ fst (rec_bytes K x (N.of_nat (length acc))))); [|apply IH].
  eexists. reflexivity.
Qed.

Theorem blob_bytes_prefix : forall rs t, prefix_of (blob_file_bytes K rs) (blob_file_bytes K (rs ++ t)).
Proof. intros rs t. unfold blob_file_bytes. rewrite fold_left_app. apply fold_bytes_prefix. Qed.

Corollary recs_prefix_bytes_prefix : forall rs rs',
  prefix_of rs rs' -> prefix_of (blob_file_bytes K rs) (blob_file_bytes K rs').
Proof. intros rs rs' [t ->]. apply blob_bytes_prefix. Qed.

(* 1 + 3 and 2 + 3: the old blob file is a byte prefix of the new one *)
Corollary step_file_append_only : forall s o b,
  NoActiveWhenClosed s -> is_cut o = false -> s_bad s = [] ->
  In b (blobs_in_order s) ->
  exists b', In b' (blobs_in_order (fst (step_q K cfg s o))) /\ b_id b' = b_id b /\
             prefix_of (blob_file_bytes K (b_recs b)) (blob_file_bytes K (b_recs b')).
Proof.
  intros s o b HN Hc HB Hb. destruct (step_append_only s o b HN Hc HB Hb) as (b' & Hin & Hid & Hp).
  exists b'. split; [exact Hin|]. split; [exact Hid|apply recs_prefix_bytes_prefix, Hp].
Qed.

Corollary run_file_append_only : forall ops s b,
  NoActiveWhenClosed s -> no_cut ops -> s_bad s = [] ->
  In b (blobs_in_order s) ->
  exists b', In b' (blobs_in_order (fst (run K cfg s ops))) /\ b_id b' = b_id b /\
             prefix_of (blob_file_bytes K (b_recs b)) (blob_file_bytes K (b_recs b')).
Proof.
  intros ops s b HN Hc HB Hb. destruct (run_append_only ops s b HN Hc HB Hb) as (b' & Hin & Hid & Hp).
  exists b'. split; [exact Hin|]. split; [exact Hid|apply recs_prefix_bytes_prefix, Hp].
Qed.

(* 4. queries do not change the state at all *)
Definition is_query (o : op) : bool :=
  match o with ORead _ | OReadWith _ _ | OContains _ | OReadAll _ | OReadAllDm _ | OCounts => true | _ => false end.

Theorem queries_pure : forall s o, is_query o = true -> fst (step K cfg s o) = s.
Proof.
  intros s o Hq. unfold step. destruct (needs_open o && negb (s_open s)); [reflexivity|].
  destruct o; try discriminate Hq; reflexivity.
Qed.

(* with the implicit quiesce, a query can only let an already requested index dump happen; the blobs,
   their ids and their records are untouched (what the storage holds, `abs`, is unchanged) *)
Corollary queries_abs : forall s o, is_query o = true -> abs (fst (step_q K cfg s o)) = abs s.
Proof.
  intros s o Hq. unfold step_q. pose proof (queries_pure s o Hq) as H1.
  destruct (step K cfg s o) as [s' r]. cbn [fst] in *. subst s'. apply quiesce_abs.
Qed.

(* 5. a blob created by a step gets an id >= the old next id (IdsOk is not used: see new_blob_id_above for
      what it adds) *)
Theorem new_blob_id_fresh : forall s o b',
  IdsOk s -> s_open s = true ->
  In b' (blobs_in_order (fst (step_q K cfg s o))) ->
  (forall b, In b (blobs_in_order s) -> b_id b <> b_id b') ->
  s_next s <= b_id b'.
Proof.
  intros s o b' _ EO Hin Hne. destruct (step_q_good s o EO) as (_ & _ & HF).
  destruct (HF b' Hin) as [(b & Hb & E)|H]; [|exact H]. exfalso. apply (Hne b Hb E).
Qed.

(* every blob after the step either continues an old blob (same id) or lies strictly above all old ids *)
Theorem new_blob_id_above : forall s o b',
  IdsOk s -> s_open s = true ->
  In b' (blobs_in_order (fst (step_q K cfg s o))) ->
  (exists b, In b (blobs_in_order s) /\ b_id b = b_id b') \/
  (forall b, In b (blobs_in_order s) -> b_id b < b_id b').
Proof.
  intros s o b' (_ & HI & _) EO Hin. destruct (step_q_good s o EO) as (_ & _ & HF).
  destruct (HF b' Hin) as [H|H]; [left; exact H|]. right.
  intros b Hb. specialize (HI EO b Hb). lia.
Qed.

(* the next id never decreases while the storage is open *)
Theorem next_id_monotone : forall s o, s_open s = true -> s_next s <= s_next (fst (step_q K cfg s o)).
Proof. intros s o EO. destruct (step_q_good s o EO) as (_ & H & _). exact H. Qed.

(* why 5 is stated for an open storage: IdsOk does not constrain s_next of a closed storage *)
Definition cex_next : storage :=
  {| s_active := None; s_closed := []; s_next := 5; s_corrupted := 0; s_alive := false;
     s_dump_req := false; s_aged := false; s_open := false; s_f2 := false; s_bad := []; s_quar := [] |}.

Lemma new_blob_id_fresh_needs_open :
  IdsOk cex_next /\ NoActiveWhenClosed cex_next /\ BlobsOk K cex_next /\
  exists b', In b' (blobs_in_order (fst (step_q K cfg cex_next (OOpen false)))) /\
             (forall b, In b (blobs_in_order cex_next) -> b_id b <> b_id b') /\
             ~ s_next cex_next <= b_id b'.
Proof.
  split; [split; [exact I|split; [intros Ho; discriminate Ho|]]|].
  { split; [intros Ho; discriminate Ho|]. split; [intros b []|]. split; reflexivity. }
  split; [intros _; reflexivity|].
  split; [split; [intros b []|intros b Hb; discriminate Hb]|].
  exists (new_blob 0). split; [left; reflexivity|]. split; [intros b []|].
  cbn [cex_next s_next new_blob b_id]. lia.
Qed.

End K.

Print Assumptions step_append_only.
Print Assumptions run_append_only.
Print Assumptions run_append_only_uncut.
Print Assumptions history_append_only.
Print Assumptions append_only_needs_NoActiveWhenClosed.
Print Assumptions blob_bytes_prefix.
Print Assumptions step_file_append_only.
Print Assumptions run_file_append_only.
Print Assumptions queries_pure.
Print Assumptions queries_abs.
Print Assumptions new_blob_id_fresh.
Print Assumptions new_blob_id_above.
Print Assumptions next_id_monotone.
Print Assumptions new_blob_id_fresh_needs_open.
