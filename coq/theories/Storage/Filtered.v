(* The filters INSIDE the storage model: the read path of src/storage/core.rs as it is written,
     Storage::get_latest_entry = active blob, then `blobs.iter_possible_childs_rev(key)`, each blob being asked through
     Blob::get_latest_entry(key, meta, check_filters = true)
   over the L3 storage of Storage/Model.v paired with the hierarchy of merged filters of Filter/Hier.v + Combined.v.
   Definitions only; FilteredProofs.v proves that this read returns what the filterless `get_latest_entry` returns
   after every history.

   The hierarchy is maintained alongside the storage by `track`, which mirrors where the Rust code touches
   `safe.blobs` (HierarchicalFilters):
     close_active_blob / update_active_blob  -> push(blob)          (one more slot `Some b` at the end)
     restore_active_blob                     -> pop()               (the last occupied slot is vacated)
     Storage::init / init_lazy               -> a fresh hierarchy, the blobs pushed in id order
     everything else                         -> untouched
   and `Storage::offload_buffer(needed, level)` may run between any two operations (events `EOff`). *)
Require Import Pearl.Base.Prelude Pearl.Base.LE Pearl.Base.AHash Pearl.Blob.Bytes Pearl.Filter.Bloom Pearl.Filter.Hier
               Pearl.Filter.Combined.
Require Import Pearl.Storage.Model.

(* occupancy pattern of the slots *)
Definition occ (l : list (option blob)) : list bool :=
  map (fun o => match o with Some _ => true | None => false end) l.

Fixpoint bools_eqb (a b : list bool) : bool :=
  match a, b with
  | [], [] => true
  | x :: r, y :: t => Bool.eqb x y && bools_eqb r t
  | _, _ => false
  end.

(* what one storage step did to the closed slots, read off the occupancy patterns before / after *)
Inductive tkind := TSame | TPush (b : blob) | TPop | TRebuild.

Definition classify (c c' : list (option blob)) : tkind :=
  if bools_eqb (occ c') (occ c) then TSame
  else if bools_eqb (occ c') (occ c ++ [true]) then
    match last c' None with Some b => TPush b | None => TRebuild end
  else match pop_last c with
       | Some (_, c1) => if bools_eqb (occ c') (occ c1) then TPop else TRebuild
       | None => TRebuild
       end.

(* a session begins or ends: the Storage object (and with it the hierarchy) is created / dropped *)
Definition restarts (o : op) (s : storage) : bool :=
  match o with
  | OOpen _ => negb (s_open s)
  | OClose | ODrop => s_open s
  | _ => false
  end.

Definition track_kind (o : op) (s s' : storage) : tkind :=
  if restarts o s then TRebuild else classify (s_closed s) (s_closed s').

(* hierarchy-only events: Storage::offload_buffer can be called at any time *)
Inductive hoff := OffAll | OffN (needed : N) (level : nat).
Definition hoff_hop (x : hoff) : hop combined :=
  match x with OffAll => HOffload combined | OffN needed level => HOffloadN combined needed level end.

Inductive fev := EOp (o : op) | EOff (x : hoff).

Definition ops_of (evs : list fev) : list op :=
  flat_map (fun e => match e with EOp o => [o] | EOff _ => [] end) evs.

Section Filtered.
Variable K : N.                       (* key length *)
Variable bloom0 : option bloom.       (* the bloom filter every blob starts with (None: bloom disabled) *)

Definition blob_keys (b : blob) : list N := map r_key (b_recs b).

(* the filter a blob carries: every key of its records was added (Index::push adds the key; from_file loads or
   regenerates the same) *)
Definition blob_filter (b : blob) : combined :=
  fold_left (cf_add bloom_hash (ckey_bytes K)) (blob_keys b) (cf_new bloom0).

(* Blob::check_filter through the blob's filter *)
Definition blob_check (b : blob) (k : N) : bool := cf_contains bloom_hash (ckey_bytes K) (blob_filter b) k.

(* a fresh hierarchy over the given slots: the occupied ones are pushed; a vacated one (never produced by do_open or
   closed_state, present only to make the function total) is pushed empty and removed *)
Fixpoint rebuild_hops (c : list (option blob)) (i : nat) : list (hop combined) :=
  match c with
  | [] => []
  | Some b :: r => HPush combined (blob_filter b) :: rebuild_hops r (S i)
  | None :: r => HPush combined (cf_new bloom0) :: HRemove combined i :: rebuild_hops r (S i)
  end.
Definition rebuild (group : nat) (c : list (option blob)) : chier :=
  fold_left (ch_step K) (rebuild_hops c 0) (ch_new group).

(* the hierarchy after the storage went from s to s' by operation o *)
Definition track (group : nat) (o : op) (s s' : storage) (h : chier) : chier :=
  match track_kind o s s' with
  | TSame => h
  | TPush b => ch_step K h (HPush combined (blob_filter b))
  | TPop => ch_step K h (HPop combined)
  | TRebuild => rebuild group (s_closed s')
  end.

(* ---------- Storage::check_filters and <Storage as BloomProvider>::check_filter ----------
   Blob::check_filter / check_filter_fast: an in-memory index answers EXACTLY (contains_key_fast = Some _), an
   on-disk index asks the blob's filter (from memory, or bit by bit from the index file when the buffer was
   off-loaded: the same answer, C10_file_probe_eq_memory_probe). *)
Definition blob_probe (b : blob) (k : N) : bool :=
  if b_ondisk b then blob_check b k else existsb (N.eqb k) (blob_keys b).

(* Storage::check_filters(key): Some(true) iff the active blob or some closed blob answers "maybe" *)
Definition cf_answer (s : storage) (k : N) : bool :=
  (match s_active s with Some b => blob_probe b k | None => false end)
  || existsb (fun b => blob_probe b k) (closed_blobs s).

(* BloomProvider::check_filter on the storage: the hierarchy's possible children are asked; an absent active blob
   counts as "maybe" (FilterResult::default) *)
Definition cfs_answer (h : chier) (s : storage) (k : N) : bool :=
  (match s_active s with Some b => blob_probe b k | None => true end)
  || existsb (fun c => match nth_error (s_closed s) c with Some (Some b) => blob_probe b k | _ => false end)
             (ch_iter K h k).

Variable cfg : config.

Definition fstep (group : nat) (sh : storage * chier) (e : fev) : storage * chier :=
  match e with
  | EOp o => let s' := fst (step_q K cfg (fst sh) o) in (s', track group o (fst sh) s' (snd sh))
  | EOff x => (fst sh, ch_step K (snd sh) (hoff_hop x))
  end.

(* the storage and its hierarchy after a history *)
Definition freach (group : nat) (evs : list fev) : storage * chier :=
  fold_left (fstep group) evs (init_storage, ch_new group).

(* ---------- the filtered read ---------- *)
(* `chk i b k`: the blob-level filter check (i = None: the active blob, Some c: the closed blob in slot c).
   Blob::get_latest_entry(key, meta, true): NotFound when the filter says NotContains *)
Definition get_latest_entry_filtered_with (chk : option nat -> blob -> N -> bool)
           (h : chier) (s : storage) (k : N) (meta : option N) : rr rec :=
  let get (i : option nat) (b : blob) : rr rec :=
    if chk i b k then blob_get_latest (b_idx b) k meta else NotFound in
  let a := match s_active s with Some b => rr_latest r_ts NotFound (get None b) | None => NotFound end in
  fold_left (fun acc c => match nth_error (s_closed s) c with
                          | Some (Some b) => rr_latest r_ts acc (get (Some c) b)
                          | _ => acc
                          end) (rev (ch_iter K h k)) a.

(* every blob is asked through the filter built from its records *)
Definition get_latest_entry_filtered (h : chier) (s : storage) (k : N) (meta : option N) : rr rec :=
  get_latest_entry_filtered_with (fun _ b k => blob_check b k) h s k meta.

(* variant: a closed blob is asked through the filter the hierarchy holds for its slot (the child's own filter, whose
   bloom buffer offload_buffer may have dropped) *)
Definition slot_check (h : chier) (i : option nat) (b : blob) (k : N) : bool :=
  match i with
  | None => blob_check b k
  | Some c => match nth_error (h_children combined h) c with
              | Some (Some g) => cf_contains bloom_hash (ckey_bytes K) g k
              | _ => false
              end
  end.
Definition get_latest_entry_filtered_slot (h : chier) (s : storage) (k : N) (meta : option N) : rr rec :=
  get_latest_entry_filtered_with (slot_check h) h s k meta.

(* the closed slots the filtered read actually opens *)
Definition consulted (h : chier) (s : storage) (k : N) : list nat :=
  filter (fun c => match nth_error (s_closed s) c with Some (Some b) => blob_check b k | _ => false end)
         (ch_iter K h k).

End Filtered.

(* ---------- the all-versions read path: Storage::read_all_with_deletion_marker / read_all ----------
   src/storage/core.rs: the active blob first, then `blobs.iter_possible_childs_rev(key)` -- the SAME hierarchy iterator
   as get_latest_entry --, each blob contributing Blob::read_all_entries_with_deletion_marker(key); then, when more than
   one blob contributed a non-empty list, the stable sort by timestamp descending and the cut after the first marker.

   `ra_merge` is the tail shared with Model.read_all_dm (same text; read_all_dm_merge below: by reflexivity). *)
Definition ra_nonempty (l : list rec) : bool := match l with [] => false | _ => true end.

Definition ra_merge (per_blob : list (list rec)) : list rec :=
  let affected := length (filter (fun l => match l with [] => false | _ => true end) per_blob) in
  let marker := existsb (fun l => match last_del_ts l with Some _ => true | None => false end) per_blob in
  let all := concat per_blob in
  if (1 <? affected)%nat then
    let sorted := sort_desc all in
    if marker then cut_after_del sorted else sorted
  else all.

Lemma read_all_dm_merge (s : storage) (k : N) :
  read_all_dm s k =
  ra_merge ((match s_active s with Some b => [idx_get_all_dm (b_idx b) k] | None => [] end)
            ++ map (fun b => idx_get_all_dm (b_idx b) k) (rev (closed_blobs s))).
Proof. reflexivity. Qed.

Section FilteredAll.
Variable K : N.
Variable bloom0 : option bloom.

(* the lists the blobs contribute, newest blob first. `chk i b k` is the blob-level filter check (i = None: the active
   blob, Some c: the closed blob in slot c): a blob whose check says NotContains is not opened (the active blob then
   contributes the empty list) *)
Definition per_blob_filtered_with (chk : option nat -> blob -> N -> bool)
           (h : chier) (s : storage) (k : N) : list (list rec) :=
  (match s_active s with
   | Some b => [if chk None b k then idx_get_all_dm (b_idx b) k else []]
   | None => []
   end)
  ++ flat_map (fun c => match nth_error (s_closed s) c with
                        | Some (Some b) => if chk (Some c) b k then [idx_get_all_dm (b_idx b) k] else []
                        | _ => []
                        end) (rev (ch_iter K h k)).

Definition read_all_dm_filtered_with (chk : option nat -> blob -> N -> bool)
           (h : chier) (s : storage) (k : N) : list rec :=
  ra_merge (per_blob_filtered_with chk h s k).

(* every blob the iterator yields is asked through the filter built from its records (as get_latest_entry_filtered) *)
Definition read_all_dm_filtered (h : chier) (s : storage) (k : N) : list rec :=
  read_all_dm_filtered_with (fun _ b k => blob_check K bloom0 b k) h s k.
Definition read_all_filtered (h : chier) (s : storage) (k : N) : list rec :=
  strip_last_del (read_all_dm_filtered h s k).

(* variant: closed blobs asked through the filter the hierarchy holds for their slot *)
Definition read_all_dm_filtered_slot (h : chier) (s : storage) (k : N) : list rec :=
  read_all_dm_filtered_with (slot_check K bloom0 h) h s k.

(* variant, the Rust text to the letter: Blob::read_all_entries_with_deletion_marker goes straight to
   index.get_all_with_deletion_marker and does NOT ask the blob's own filter (unlike Blob::get_latest_entry(.., true));
   the hierarchy iterator is the only filtering on this path *)
Definition read_all_dm_iter (h : chier) (s : storage) (k : N) : list rec :=
  read_all_dm_filtered_with (fun _ _ _ => true) h s k.
Definition read_all_iter (h : chier) (s : storage) (k : N) : list rec :=
  strip_last_del (read_all_dm_iter h s k).

(* the closed slots this path opens, in the order it opens them (newest first) *)
Definition consulted_all (h : chier) (s : storage) (k : N) : list nat :=
  rev (consulted K bloom0 h s k).

End FilteredAll.
