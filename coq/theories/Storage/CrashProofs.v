(* Crash damage of blob files and quarantine, in the L3 storage model.

   Between two sessions a crash may leave a blob file cut (op `OCut id keep` of Model.v):
     keep = Some j   at the boundary behind its j-th record: the next start serves exactly the records in front of
                     the cut (byte level: Blob/ScanProofs.scan_prefix_exact);
     keep = None     inside a record or inside the blob header: the file cannot be read back, the next start moves
                     it to the corrupted directory (`s_quar`), and its id is never handed out again.

   Main theorems (all closed under the global context, see the Print Assumptions at the end):
     cut_boundary_restart     (a) the log after  end of session; cut at a boundary; start
     cut_boundary_reads           and the reads after it are those of that log
     cut_inside_quarantines   (b) the log, the counters, the ids after  end of session; cut inside a record; start
     quarantined_ids_never_reused, quarantine_only_grows, quarantined_id_stays_unused
     all_quarantined_eager / _lazy / _lazy_restart   (c) every file unreadable
     crash_history_*          (d) the invariants, the counters, the reads, the worker: after EVERY history, histories
                                  with crash damage included (instances of the theorems of Theorems.v, which quantify
                                  over all operations)
     cut_below_index_breaks_reads  why `cut_applies` is part of the model: a cut BELOW the size an index file records
                                  (not crash damage: Blob::dump syncs the blob before it writes the index) would leave
                                  a stale index file that a later start trusts. *)
Require Import Pearl.Base.Prelude Pearl.Storage.Model Pearl.Storage.Spec Pearl.Storage.Inv
               Pearl.Storage.IndexProofs Pearl.Storage.ReadProofs Pearl.Storage.InvProofs
               Pearl.Storage.CountsProofs Pearl.Storage.WorkerProofs Pearl.Storage.Theorems.

(* ---------- generic ---------- *)
(* same id, same records *)
Definition same_ir (b b' : blob) : Prop := b_id b' = b_id b /\ b_recs b' = b_recs b.

Lemma F2_same_refl l : Forall2 same_ir l l.
Proof. induction l as [|x l IH]; constructor; [split; reflexivity|exact IH]. Qed.

Lemma F2_same_ids l l' : Forall2 same_ir l l' -> map b_id l' = map b_id l.
Proof. induction 1 as [|x y l l' [Hi _] _ IH]; [reflexivity|]. cbn [map]. rewrite Hi, IH. reflexivity. Qed.

Lemma F2_same_in l l' : Forall2 same_ir l l' -> forall b, In b l -> exists b', In b' l' /\ same_ir b b'.
Proof.
  induction 1 as [|x y l l' Hxy _ IH]; intros b Hb; [destruct Hb|]. destruct Hb as [<-|Hb].
  - exists y. split; [left; reflexivity|exact Hxy].
  - destruct (IH b Hb) as (b' & Hb' & E). exists b'. split; [right; exact Hb'|exact E].
Qed.

Lemma F2_same_in_r l l' : Forall2 same_ir l l' -> forall b', In b' l' -> exists b, In b l /\ same_ir b b'.
Proof.
  induction 1 as [|x y l l' Hxy _ IH]; intros b' Hb'; [destruct Hb'|]. destruct Hb' as [<-|Hb'].
  - exists x. split; [left; reflexivity|exact Hxy].
  - destruct (IH b' Hb') as (b & Hb & E). exists b. split; [right; exact Hb|exact E].
Qed.

Lemma F2_same_filter (p : N -> bool) l l' : Forall2 same_ir l l' ->
  Forall2 same_ir (filter (fun b => p (b_id b)) l) (filter (fun b => p (b_id b)) l').
Proof.
  induction 1 as [|x y l l' Hxy _ IH]; [constructor|]. cbn [filter]. rewrite (proj1 Hxy).
  destruct (p (b_id x)); [constructor; assumption|exact IH].
Qed.

Lemma F2_same_recs l l' : Forall2 same_ir l l' -> flat_map b_recs l' = flat_map b_recs l.
Proof. induction 1 as [|x y l l' [_ Hr] _ IH]; [reflexivity|]. cbn [flat_map]. rewrite Hr, IH. reflexivity. Qed.

Section K.
Variable K : N.
Variable cfg : config.

Notation reach := (reach K cfg).

(* ---------- the four steps of a damaged restart, as equations ---------- *)
Lemma quiesce_dead s : s_alive s = false -> quiesce K s = s.
Proof. intros H. unfold quiesce. rewrite H. reflexivity. Qed.

Lemma step_q_close s : s_open s = true -> fst (step_q K cfg s OClose) = closed_state (do_close K s) s.
Proof. intros Ho. unfold step_q, step. rewrite Ho. cbn [needs_open negb andb]. apply quiesce_dead. reflexivity. Qed.

Lemma step_q_drop s : s_open s = true ->
  fst (step_q K cfg s ODrop) = closed_state (closed_blobs s ++ match s_active s with Some b => [b] | None => [] end) s.
Proof. intros Ho. unfold step_q, step. rewrite Ho. cbn [needs_open negb andb]. apply quiesce_dead. reflexivity. Qed.

Lemma dump_req_do_open files bad quar c lazy f2 : s_dump_req (do_open K files bad quar c lazy f2) = false.
Proof.
  unfold do_open. destruct files as [|f0 fs]; [reflexivity|]. destruct lazy; [reflexivity|].
  destruct (rev (sort_by_id (map (blob_from_file K) (filter (fun b => negb (is_bad bad b)) (f0 :: fs))))); reflexivity.
Qed.

Lemma step_q_open s lazy : s_open s = false ->
  fst (step_q K cfg s (OOpen lazy)) = do_open K (closed_blobs s) (s_bad s) (s_quar s) (s_corrupted s) lazy (s_f2 s).
Proof.
  intros Ho. unfold step_q, step. rewrite Ho. cbn [needs_open negb andb fst].
  unfold quiesce. rewrite dump_req_do_open, andb_false_r. reflexivity.
Qed.

Lemma step_q_cut s id keep : s_alive s = false -> fst (step_q K cfg s (OCut id keep)) = do_cut K s id keep.
Proof.
  intros Ha. unfold step_q, step. cbn [needs_open andb fst]. apply quiesce_dead.
  unfold do_cut. destruct (s_open s); [exact Ha|]. destruct keep as [j|]; [exact Ha|].
  destruct (existsb (fun b => b_id b =? id) (closed_blobs s)); exact Ha.
Qed.

(* a session ends, with close() or without: WorkerProofs.ends_session e := e = OClose \/ e = ODrop *)

(* the files the session leaves *)
Definition files_left (e : op) (s : storage) : list blob :=
  match e with
  | OClose => do_close K s
  | _ => blobs_in_order s
  end.

Lemma files_left_same e s : Forall2 same_ir (blobs_in_order s) (files_left e s).
Proof.
  destruct e; try apply F2_same_refl. unfold files_left, do_close, blobs_in_order.
  apply Forall2_app; [apply F2_same_refl|]. destruct (s_active s) as [a|]; constructor; [|constructor].
  split; [apply blob_dump_id|apply blob_dump_recs].
Qed.

Lemma step_q_end e s : ends_session e -> s_open s = true -> fst (step_q K cfg s e) = closed_state (files_left e s) s.
Proof. intros [-> | ->] Ho; [apply step_q_close, Ho|apply step_q_drop, Ho]. Qed.

Lemma closed_blobs_closed_state files s : closed_blobs (closed_state files s) = files.
Proof. rewrite closed_blobs_cb. cbn [closed_state s_closed]. apply cb_map_Some. Qed.

Lemma reach3 ops a b c : reach (ops ++ [a; b; c]) =
  fst (step_q K cfg (fst (step_q K cfg (fst (step_q K cfg (reach ops) a)) b)) c).
Proof.
  replace (ops ++ [a; b; c]) with (((ops ++ [a]) ++ [b]) ++ [c]) by (rewrite <- !app_assoc; reflexivity).
  rewrite !reach_snoc. reflexivity.
Qed.

Lemma reach_increasing ops : increasing (map b_id (blobs_in_order (reach ops))).
Proof. apply reach_IdsOk. Qed.

(* ================= (a) a blob file cut at a record boundary ================= *)

(* the log of a directory in which the file of blob `id` was cut behind its j-th record *)
Definition cut_log (id : N) (j : nat) (files : list blob) : log := flat_map (fun b => b_recs (cut_blob K id j b)) files.

(* what the cut does to one file: the first j records stay -- unless the blob is another one, or the cut would go
   below the size an index file of the blob records (synced before the index was written: not lost in a crash) *)
Lemma cut_blob_recs id j b :
  b_recs (cut_blob K id j b) = if (b_id b =? id) && cut_applies K j b then firstn j (b_recs b) else b_recs b.
Proof. unfold cut_blob. destruct ((b_id b =? id) && cut_applies K j b); reflexivity. Qed.

Lemma cut_applies_no_index j b : b_idxfile b = None -> cut_applies K j b = true.
Proof. intros E. unfold cut_applies. rewrite E. reflexivity. Qed.

Lemma cut_applies_size j b sz m :
  b_idxfile b = Some (sz, m) -> cut_applies K j b = (sz <=? size_of K (firstn j (b_recs b))).
Proof. intros E. unfold cut_applies. rewrite E. reflexivity. Qed.

Lemma cut_log_other id j files : (forall b, In b files -> b_id b <> id) -> cut_log id j files = flat_map b_recs files.
Proof.
  intros H. unfold cut_log. induction files as [|x l IH]; [reflexivity|]. cbn [flat_map].
  rewrite IH by (intros b Hb; apply H; right; exact Hb). rewrite cut_blob_recs.
  destruct (N.eqb_spec (b_id x) id) as [E|_]; [exfalso; apply (H x (or_introl eq_refl) E)|reflexivity].
Qed.

Lemma cb_cut id j c : cb (map (fun o => match o with Some b => Some (cut_blob K id j b) | None => None end) c)
                      = map (cut_blob K id j) (cb c).
Proof. apply cb_map_opt. Qed.

Theorem cut_boundary_restart : forall ops e id j lazy,
  s_open (reach ops) = true -> ends_session e ->
  abs (reach (ops ++ [e; OCut id (Some j); OOpen lazy])) = cut_log id j (files_left e (reach ops)).
Proof.
  intros ops e id j lazy Ho He. rewrite reach3.
  set (s := reach ops) in *. rewrite (step_q_end e s He Ho).
  set (s1 := closed_state (files_left e s) s).
  rewrite (step_q_cut s1 id (Some j)) by reflexivity.
  assert (E2 : do_cut K s1 id (Some j) =
               upd_closed s1 (map (fun o => match o with Some b => Some (cut_blob K id j b) | None => None end) (s_closed s1)))
    by reflexivity.
  rewrite E2. set (s2 := upd_closed s1 _).
  rewrite (step_q_open s2 lazy) by reflexivity.
  assert (EB : s_bad s2 = []) by (apply (reach_open_no_bad K cfg ops Ho)).
  assert (EC : closed_blobs s2 = map (cut_blob K id j) (files_left e s)).
  { unfold s2. rewrite closed_blobs_cb. cbn [upd_closed s_closed]. rewrite cb_cut. unfold s1.
    cbn [closed_state s_closed]. rewrite cb_map_Some. reflexivity. }
  rewrite EB, EC. unfold abs. rewrite do_open_recs.
  - rewrite good_files_nil. unfold cut_log. rewrite flat_map_concat_map, map_map, <- flat_map_concat_map. reflexivity.
  - rewrite (map_id_ext _ _ (cut_blob_id K id j)). rewrite (F2_same_ids _ _ (files_left_same e s)).
    apply reach_increasing.
Qed.

(* hence every key reads from that log *)
Theorem cut_boundary_of_key : forall ops e id j lazy k,
  s_open (reach ops) = true -> ends_session e ->
  of_key k (abs (reach (ops ++ [e; OCut id (Some j); OOpen lazy]))) = of_key k (cut_log id j (files_left e (reach ops))).
Proof. intros ops e id j lazy k Ho He. rewrite cut_boundary_restart by assumption. reflexivity. Qed.

Theorem cut_boundary_reads : forall ops e id j lazy k,
  s_open (reach ops) = true -> ends_session e ->
  get_latest_entry (reach (ops ++ [e; OCut id (Some j); OOpen lazy])) k None
  = spec_read (cut_log id j (files_left e (reach ops))) k.
Proof. intros ops e id j lazy k Ho He. rewrite reach_read_latest, cut_boundary_restart by assumption. reflexivity. Qed.

(* a key none of whose records sits in blob `id` reads as before the crash *)
Lemma of_key_flat_map k (f g : blob -> list rec) l :
  (forall b, In b l -> of_key k (f b) = of_key k (g b)) -> of_key k (flat_map f l) = of_key k (flat_map g l).
Proof.
  intros H. induction l as [|x l IH]; [reflexivity|]. cbn [flat_map]. unfold of_key in *. rewrite !filter_app.
  rewrite (H x (or_introl eq_refl)), IH by (intros b Hb; apply H; right; exact Hb). reflexivity.
Qed.

Lemma of_key_firstn_nil k j l : of_key k l = [] -> of_key k (firstn j l) = [].
Proof.
  intros H. rewrite <- (firstn_skipn j l) in H. unfold of_key in *. rewrite filter_app in H.
  apply app_eq_nil in H. apply H.
Qed.

Theorem cut_boundary_other_keys : forall ops e id j lazy k,
  s_open (reach ops) = true -> ends_session e ->
  (forall b, In b (blobs_in_order (reach ops)) -> b_id b = id -> of_key k (b_recs b) = []) ->
  get_latest_entry (reach (ops ++ [e; OCut id (Some j); OOpen lazy])) k None = get_latest_entry (reach ops) k None.
Proof.
  intros ops e id j lazy k Ho He Hk. rewrite cut_boundary_reads by assumption. rewrite reach_read_latest.
  unfold spec_read. f_equal. f_equal. unfold abs. rewrite <- (F2_same_recs _ _ (files_left_same e (reach ops))).
  unfold cut_log. apply of_key_flat_map. intros f Hf. rewrite cut_blob_recs.
  destruct (N.eqb_spec (b_id f) id) as [E|_]; cbn [andb]; [|reflexivity].
  destruct (cut_applies K j f); [|reflexivity].
  destruct (F2_same_in_r _ _ (files_left_same e (reach ops)) f Hf) as (b & Hb & Hi & Hr).
  assert (E0 : of_key k (b_recs f) = []) by (rewrite Hr; apply (Hk b Hb); congruence).
  rewrite E0. apply of_key_firstn_nil, E0.
Qed.

(* ================= (b) a blob file cut inside a record: quarantine ================= *)

(* ids of quarantined files are never handed out again: after EVERY history no blob has the id of a file of the
   corrupted directory, and a running storage hands out ids above all of them *)
Theorem quarantined_ids_never_reused : forall ops,
  let s := reach ops in
  (forall b, In b (blobs_in_order s) -> ~ In (b_id b) (s_quar s)) /\
  (s_open s = true -> forall q, In q (s_quar s) -> q < s_next s) /\
  s_corrupted s = N.of_nat (length (s_quar s)).
Proof.
  intros ops s. destruct (reach_IdsOk K cfg ops) as (_ & _ & H3 & H4 & _ & H6). fold s in H3, H4, H6. auto.
Qed.

(* nothing ever leaves the corrupted directory *)
Lemma quar_step_q s o : exists t, s_quar (fst (step_q K cfg s o)) = s_quar s ++ t.
Proof.
  unfold step_q. destruct (step K cfg s o) as [s' r] eqn:E. cbn [fst]. rewrite (proj1 (quar_quiesce K s')).
  assert (E' : s' = fst (step K cfg s o)) by (rewrite E; reflexivity). subst s'. clear E r.
  destruct (touches_quar o) eqn:Ht.
  - destruct o; try discriminate Ht; unfold step; cbn [needs_open andb fst].
    + destruct (s_open s); cbn [fst]; [exists []; symmetry; apply app_nil_r|].
      eexists. apply do_open_quar.
    + exists []. rewrite app_nil_r. apply quar_do_cut.
  - exists []. rewrite app_nil_r. pose proof (qf_step K cfg s o Ht) as Q. apply qf_inv in Q. apply Q.
Qed.

Theorem quarantine_only_grows : forall ops ops2, exists t, s_quar (reach (ops ++ ops2)) = s_quar (reach ops) ++ t.
Proof.
  intros ops ops2. induction ops2 as [|o ops2 IH] using rev_ind.
  - exists []. rewrite !app_nil_r. reflexivity.
  - destruct IH as [t IH]. rewrite app_assoc, reach_snoc.
    destruct (quar_step_q (reach (ops ++ ops2)) o) as [t' E]. exists (t ++ t'). rewrite E, IH, app_assoc. reflexivity.
Qed.

Theorem quarantined_id_stays_unused : forall ops ops2 q,
  In q (s_quar (reach ops)) -> forall b, In b (blobs_in_order (reach (ops ++ ops2))) -> b_id b <> q.
Proof.
  intros ops ops2 q Hq b Hb E. destruct (quarantine_only_grows ops ops2) as [t Et].
  apply (proj1 (quarantined_ids_never_reused (ops ++ ops2)) b Hb). rewrite E, Et. apply in_or_app. left. exact Hq.
Qed.

(* the blobs other than `id` *)
Definition without (id : N) (l : list blob) : list blob := filter (fun b => negb (b_id b =? id)) l.

Lemma good_files_one id l : good_files [id] l = without id l.
Proof.
  unfold good_files, without. apply filter_ext. intros b. unfold is_bad. cbn [existsb]. rewrite orb_false_r. reflexivity.
Qed.

Lemma new_quar_one id l : increasing (map b_id l) -> (exists b, In b l /\ b_id b = id) -> new_quar [id] l = [id].
Proof.
  unfold new_quar. intros Hinc (b & Hb & Eb). induction l as [|x l IH]; [destruct Hb|].
  cbn [filter]. unfold is_bad at 1. cbn [existsb]. rewrite orb_false_r.
  cbn [map] in Hinc. pose proof (increasing_head_lt _ _ Hinc) as Hlt. destruct (N.eqb_spec (b_id x) id) as [E|NE].
  - cbn [map]. rewrite E. f_equal.
    assert (Hn : forall y, In y l -> is_bad [id] y = false).
    { intros y Hy. unfold is_bad. cbn [existsb]. rewrite orb_false_r. apply N.eqb_neq.
      specialize (Hlt (b_id y) (in_map b_id _ _ Hy)). lia. }
    clear -Hn. induction l as [|y l IHl]; [reflexivity|]. cbn [filter]. rewrite (Hn y (or_introl eq_refl)).
    apply IHl. intros z Hz. apply Hn. right. exact Hz.
  - destruct Hb as [->|Hb]; [contradiction|]. apply IH; [apply (increasing_tail _ _ Hinc)|exact Hb].
Qed.

(* re-opening keeps every readable file, with all its records *)
Lemma do_open_keeps files bad quar c lazy f2 f : In f (good_files bad files) ->
  exists b', In b' (blobs_in_order (do_open K files bad quar c lazy f2)) /\ same_ir f b'.
Proof.
  intros Hf. assert (Hne : files <> []) by (intros ->; destruct Hf).
  rewrite do_open_nonempty by exact Hne.
  assert (HB : In (blob_from_file K f) (sort_by_id (map (blob_from_file K) (good_files bad files)))).
  { apply in_sort_by_id, in_map, Hf. }
  set (blobs := sort_by_id (map (blob_from_file K) (good_files bad files))) in *. clearbody blobs. cbv zeta.
  unfold blobs_in_order. rewrite closed_blobs_cb.
  destruct lazy.
  - cbn [s_closed s_active]. rewrite cb_map_some_f, app_nil_r.
    exists (blob_dump K (blob_from_file K f)). split; [apply in_map, HB|].
    split; [rewrite blob_dump_id; apply blob_from_file_id|rewrite blob_dump_recs; apply blob_from_file_recs].
  - destruct (rev blobs) as [|last r] eqn:R.
    + apply (f_equal (@rev blob)) in R. rewrite rev_involutive in R. subst blobs. destruct HB.
    + apply rev_cons_inv in R. subst blobs. cbn [s_closed s_active]. rewrite cb_map_some_f.
      apply in_app_or in HB. destruct HB as [HB|[HB|[]]].
      * exists (blob_dump K (blob_from_file K f)). split; [apply in_or_app; left; apply in_map, HB|].
        split; [rewrite blob_dump_id; apply blob_from_file_id|rewrite blob_dump_recs; apply blob_from_file_recs].
      * subst last. exists (blob_load_index K (blob_from_file K f)).
        split; [apply in_or_app; right; left; reflexivity|].
        split; [rewrite blob_load_index_id; apply blob_from_file_id|rewrite blob_load_index_recs; apply blob_from_file_recs].
Qed.

Lemma without_same id l l' : Forall2 same_ir l l' -> Forall2 same_ir (without id l) (without id l').
Proof. apply (F2_same_filter (fun i => negb (i =? id))). Qed.

Theorem cut_inside_quarantines : forall ops e id lazy,
  let s := reach ops in
  let s' := reach (ops ++ [e; OCut id None; OOpen lazy]) in
  s_open s = true -> ends_session e -> (exists b, In b (blobs_in_order s) /\ b_id b = id) ->
  s_quar s' = s_quar s ++ [id] /\
  s_corrupted s' = s_corrupted s + 1 /\
  abs s' = flat_map b_recs (without id (blobs_in_order s)) /\
  (forall b, In b (blobs_in_order s) -> b_id b <> id ->
     exists b', In b' (blobs_in_order s') /\ b_id b' = b_id b /\ b_recs b' = b_recs b) /\
  id < s_next s' /\
  (forall ops2 b', In b' (blobs_in_order (reach ((ops ++ [e; OCut id None; OOpen lazy]) ++ ops2))) -> b_id b' <> id).
Proof.
  intros ops e id lazy s s' Ho He (b0 & Hb0 & Eb0).
  pose proof (files_left_same e s) as HF. set (files := files_left e s) in *.
  assert (Hinc : increasing (map b_id files)).
  { rewrite (F2_same_ids _ _ HF). apply reach_increasing. }
  assert (Hex : exists f, In f files /\ b_id f = id).
  { destruct (F2_same_in _ _ HF b0 Hb0) as (f & Hf & Hi & _). exists f. split; [exact Hf|congruence]. }
  assert (ES : s' = do_open K files [id] (s_quar s) (s_corrupted s) lazy (s_f2 s)).
  { unfold s'. rewrite reach3. fold s. rewrite (step_q_end e s He Ho). fold files.
    rewrite (step_q_cut (closed_state files s) id None) by reflexivity.
    assert (E2 : do_cut K (closed_state files s) id None = upd_bad (closed_state files s) [id]).
    { unfold do_cut. change (s_open (closed_state files s)) with false. cbv iota.
      rewrite closed_blobs_closed_state.
      assert (EX : existsb (fun b => b_id b =? id) files = true).
      { apply existsb_exists. destruct Hex as (f & Hf & Ef). exists f. split; [exact Hf|apply N.eqb_eq, Ef]. }
      rewrite EX. change (s_bad (closed_state files s)) with (s_bad s).
      unfold s. rewrite (reach_open_no_bad K cfg ops Ho). reflexivity. }
    rewrite E2. rewrite (step_q_open (upd_bad (closed_state files s) [id]) lazy) by reflexivity.
    change (closed_blobs (upd_bad (closed_state files s) [id])) with (closed_blobs (closed_state files s)).
    rewrite closed_blobs_closed_state. reflexivity. }
  destruct (do_open_quar K files [id] (s_quar s) (s_corrupted s) lazy (s_f2 s)) as (Eq & Ec & _).
  rewrite <- ES in Eq, Ec. rewrite (new_quar_one id files Hinc Hex) in Eq, Ec.
  assert (Hq : In id (s_quar s')) by (rewrite Eq; apply in_or_app; right; left; reflexivity).
  split; [exact Eq|]. split; [exact Ec|]. split; [|split; [|split]].
  - unfold abs. rewrite ES, do_open_recs by exact Hinc. rewrite good_files_one.
    apply (F2_same_recs _ _ (without_same id _ _ HF)).
  - intros b Hb Hne. destruct (F2_same_in _ _ HF b Hb) as (f & Hf & Hi & Hr).
    assert (Hg : In f (good_files [id] files)).
    { rewrite good_files_one. apply filter_In. split; [exact Hf|]. apply negb_true_iff, N.eqb_neq. congruence. }
    destruct (do_open_keeps files [id] (s_quar s) (s_corrupted s) lazy (s_f2 s) f Hg) as (b' & Hb' & Hi' & Hr').
    exists b'. rewrite ES. split; [exact Hb'|]. split; congruence.
  - apply (proj1 (proj2 (quarantined_ids_never_reused (ops ++ [e; OCut id None; OOpen lazy])))); [|exact Hq].
    fold s'. rewrite ES. apply open_do_open.
  - intros ops2 b' Hb'. apply (quarantined_id_stays_unused _ ops2 id Hq b' Hb').
Qed.

(* ================= (c) every blob file unreadable ================= *)
Lemma all_bad_no_good bad files : (forall b, In b files -> In (b_id b) bad) -> good_files bad files = [].
Proof.
  intros H. destruct (good_files bad files) as [|g gs] eqn:E; [reflexivity|].
  assert (Hg : In g (good_files bad files)) by (rewrite E; left; reflexivity).
  apply in_good_files in Hg. destruct Hg as [Hg Hn]. destruct (Hn (H g Hg)).
Qed.

Lemma all_bad_new_quar bad files : (forall b, In b files -> In (b_id b) bad) -> new_quar bad files = map b_id files.
Proof.
  intros H. unfold new_quar. f_equal. induction files as [|x l IH]; [reflexivity|]. cbn [filter].
  assert (Ex : is_bad bad x = true).
  { apply existsb_exists. exists (b_id x). split; [apply H; left; reflexivity|apply N.eqb_refl]. }
  rewrite Ex, IH by (intros b Hb; apply H; right; exact Hb). reflexivity.
Qed.

(* eager start: a fresh active blob whose id lies above the id of every file of both directories *)
Theorem all_quarantined_eager : forall ops,
  let s := reach ops in
  let s' := reach (ops ++ [OOpen false]) in
  s_open s = false -> closed_blobs s <> [] -> (forall b, In b (closed_blobs s) -> In (b_id b) (s_bad s)) ->
  exists n, s_active s' = Some (new_blob n) /\ s_closed s' = [] /\ s_next s' = n + 1 /\
            s_quar s' = s_quar s ++ map b_id (closed_blobs s) /\
            (forall q, In q (s_quar s') -> q < n) /\
            s_corrupted s' = N.of_nat (length (s_quar s')) /\ abs s' = [].
Proof.
  intros ops s s' Ho Hne Hall. unfold s'. rewrite reach_snoc. fold s. rewrite (step_q_open s false Ho).
  rewrite do_open_nonempty by exact Hne. rewrite (all_bad_no_good _ _ Hall), (all_bad_new_quar _ _ Hall).
  cbn [map sort_by_id fold_right rev]. cbv zeta. exists (next_above (map b_id (closed_blobs s) ++ s_quar s)).
  cbn [s_active s_closed s_next s_quar s_corrupted map].
  split; [reflexivity|]. split; [reflexivity|]. split; [reflexivity|]. split; [reflexivity|].
  split; [|split; [|reflexivity]].
  - intros q Hq. apply next_above_bound. apply in_or_app. apply in_app_or in Hq. tauto.
  - rewrite app_length, Nat2N.inj_add, map_length. f_equal.
    apply (proj2 (proj2 (quarantined_ids_never_reused ops))).
Qed.

(* lazy start: no blob at all *)
Theorem all_quarantined_lazy : forall ops,
  let s := reach ops in
  let s' := reach (ops ++ [OOpen true]) in
  s_open s = false -> closed_blobs s <> [] -> (forall b, In b (closed_blobs s) -> In (b_id b) (s_bad s)) ->
  s_active s' = None /\ s_closed s' = [] /\ s_open s' = true /\
  s_quar s' = s_quar s ++ map b_id (closed_blobs s) /\
  (forall q, In q (s_quar s') -> q < s_next s') /\
  s_corrupted s' = N.of_nat (length (s_quar s')).
Proof.
  intros ops s s' Ho Hne Hall. unfold s'. rewrite reach_snoc. fold s. rewrite (step_q_open s true Ho).
  rewrite do_open_nonempty by exact Hne. rewrite (all_bad_no_good _ _ Hall), (all_bad_new_quar _ _ Hall).
  cbn [map sort_by_id fold_right rev]. cbv zeta. cbn [s_active s_closed s_next s_quar s_corrupted s_open map].
  split; [reflexivity|]. split; [reflexivity|]. split; [reflexivity|]. split; [reflexivity|]. split.
  - intros q Hq. apply next_above_bound. apply in_or_app. apply in_app_or in Hq. tauto.
  - rewrite app_length, Nat2N.inj_add, map_length. f_equal.
    apply (proj2 (proj2 (quarantined_ids_never_reused ops))).
Qed.

(* ... and the start after that finds an empty work directory: init_new, with an id above every quarantined one *)
Theorem all_quarantined_lazy_restart : forall ops e lazy2,
  let s := reach ops in
  let s' := reach (ops ++ [OOpen true]) in
  let s'' := reach ((ops ++ [OOpen true]) ++ [e; OOpen lazy2]) in
  s_open s = false -> closed_blobs s <> [] -> (forall b, In b (closed_blobs s) -> In (b_id b) (s_bad s)) ->
  ends_session e ->
  exists n, s_active s'' = Some (new_blob n) /\ s_closed s'' = [] /\ s_next s'' = n + 1 /\
            s_quar s'' = s_quar s' /\ (forall q, In q (s_quar s'') -> q < n) /\
            s_corrupted s'' = N.of_nat (length (s_quar s'')).
Proof.
  intros ops e lazy2 s s' s'' Ho Hne Hall He.
  destruct (all_quarantined_lazy ops Ho Hne Hall) as (Ha & Hc & Hop & Hq & _ & Hcor). fold s s' in Ha, Hc, Hop, Hq, Hcor.
  assert (ES : s'' = do_open K [] [] (s_quar s') (s_corrupted s') lazy2 (s_f2 s')).
  { unfold s''. replace ((ops ++ [OOpen true]) ++ [e; OOpen lazy2]) with (((ops ++ [OOpen true]) ++ [e]) ++ [OOpen lazy2])
      by (rewrite <- !app_assoc; reflexivity).
    rewrite (reach_snoc K cfg ((ops ++ [OOpen true]) ++ [e])), (reach_snoc K cfg (ops ++ [OOpen true]) e). fold s'.
    rewrite (step_q_end e s' He Hop).
    assert (EF : files_left e s' = []).
    { destruct He as [-> | ->]; unfold files_left, do_close, blobs_in_order, closed_blobs; rewrite Hc, Ha; reflexivity. }
    rewrite EF. rewrite step_q_open by reflexivity. cbn [closed_state closed_blobs s_closed map flat_map s_bad s_quar s_corrupted s_f2].
    assert (HB : s_bad s' = []) by (apply (reach_open_no_bad K cfg (ops ++ [OOpen true]) Hop)).
    rewrite HB. reflexivity. }
  exists (next_above (s_quar s')). rewrite ES. cbn [do_open s_active s_closed s_next s_quar s_corrupted].
  split; [reflexivity|]. split; [reflexivity|]. split; [reflexivity|]. split; [reflexivity|].
  split; [intros q Hq'; apply next_above_bound, Hq'|exact Hcor].
Qed.

(* ================= (d) after EVERY history, crash damage included ================= *)
(* The theorems of Theorems.v / CountsProofs.v / WorkerProofs.v quantify over ALL lists of operations; OCut is one of the
   operations. Spelled out for a history with damage at any place: *)
Theorem crash_history_Inv : forall ops1 id keep ops2, Inv K (reach (ops1 ++ OCut id keep :: ops2)).
Proof. intros. apply reach_Inv. Qed.

Theorem crash_history_IdsOk : forall ops1 id keep ops2, IdsOk (reach (ops1 ++ OCut id keep :: ops2)).
Proof. intros. apply reach_IdsOk. Qed.

Theorem crash_history_counts : forall ops1 id keep ops2,
  counts (reach (ops1 ++ OCut id keep :: ops2)) = spec_counts (reach (ops1 ++ OCut id keep :: ops2)).
Proof. intros. apply reach_counts. Qed.

Theorem crash_history_never_f2 : forall ops1 id keep ops2, s_f2 (reach (ops1 ++ OCut id keep :: ops2)) = false.
Proof. intros. apply never_f2. Qed.

Theorem crash_history_read_latest : forall ops1 id keep ops2 k,
  get_latest_entry (reach (ops1 ++ OCut id keep :: ops2)) k None = spec_read (abs (reach (ops1 ++ OCut id keep :: ops2))) k.
Proof. intros. apply reach_read_latest. Qed.

Theorem crash_history_alive : forall ops1 id keep ops2,
  s_open (reach (ops1 ++ OCut id keep :: ops2)) = true -> s_alive (reach (ops1 ++ OCut id keep :: ops2)) = true.
Proof. intros ops1 id keep ops2. apply alive_after_every_history. Qed.

Theorem crash_history_writable : forall ops1 id keep ops2 k ts meta msize dlen dseed,
  s_open (reach (ops1 ++ OCut id keep :: ops2)) = true ->
  snd (step K cfg (reach (ops1 ++ OCut id keep :: ops2)) (OWrite k ts meta msize dlen dseed)) = RUnit.
Proof. intros. apply write_acknowledged. assumption. Qed.

End K.

(* ================= computed, on concrete histories ================= *)
Definition x_cfg : config := {| c_dup := true; c_maxrec := 1000; c_maxsize := 1000000 |}.
Definition x_keys (s : storage) : list N := map r_key (abs s).
Definition x_ids (s : storage) : list N := map b_id (blobs_in_order s).

(* (b): blob 0 (one record, key 1) is closed, blob 1 (key 2) is active; the session ends without close; the file of
   blob 0 is cut inside its record; the next start quarantines it: the log keeps key 2 only, one corrupted blob, the
   next id is 2 -- and the blob created by the following rotation gets id 2, not 0 *)
Definition x_hist_b : list op :=
  [OOpen false; OWrite 1 7 None 8 5 1; OForceUpdate 0; OWrite 2 8 None 8 5 2; ODrop; OCut 0 None; OOpen false].
Example quarantine_computed :
  let s := reach 4 x_cfg x_hist_b in
  x_ids s = [1] /\ x_keys s = [2] /\ s_quar s = [0] /\ s_corrupted s = 1 /\ s_next s = 2 /\ s_bad s = [] /\
  get_latest_entry s 1 None = NotFound /\ is_found (get_latest_entry s 2 None) = true /\
  counts s = RCounts 1 [(1, 1)] (Some 1) 1 2 1 true /\
  x_ids (reach 4 x_cfg (x_hist_b ++ [OForceUpdate 0])) = [1; 2] /\
  s_quar (reach 4 x_cfg (x_hist_b ++ [OForceUpdate 0; OClose; OOpen true])) = [0].
Proof. vm_compute. repeat split. Qed.

(* (c): the only blob file is unreadable. Eager start: a fresh active blob with id 1. Lazy start: no blob at all;
   after close and another start (init_new on the empty work directory): active blob 1 again, never 0 *)
Definition x_hist_c : list op := [OOpen false; OWrite 1 7 None 8 5 1; OClose; OCut 0 None].
Example all_quarantined_computed :
  let se := reach 4 x_cfg (x_hist_c ++ [OOpen false]) in
  let sl := reach 4 x_cfg (x_hist_c ++ [OOpen true]) in
  let sr := reach 4 x_cfg (x_hist_c ++ [OOpen true; OClose; OOpen false]) in
  s_bad (reach 4 x_cfg x_hist_c) = [0] /\
  (s_active se = Some (new_blob 1) /\ s_closed se = [] /\ s_next se = 2 /\ s_quar se = [0] /\ s_corrupted se = 1) /\
  (s_active sl = None /\ s_closed sl = [] /\ s_next sl = 1 /\ s_quar sl = [0] /\ s_corrupted sl = 1) /\
  (s_active sr = Some (new_blob 1) /\ s_closed sr = [] /\ s_next sr = 2 /\ s_quar sr = [0] /\ s_corrupted sr = 1).
Proof. vm_compute. repeat split. Qed.

(* (a): two records in blob 0; the session ends WITHOUT close (no index file), the file is cut behind the first record:
   the second record is gone, the first is served. After close() the index file describes both records, which were
   synced before it was written: a crash does not lose them, the cut does not apply. *)
Definition x_hist_a (e : op) : list op :=
  [OOpen false; OWrite 1 7 None 8 5 1; OWrite 2 8 None 8 5 2; e; OCut 0 (Some 1%nat); OOpen false].
Example cut_boundary_computed :
  x_keys (reach 4 x_cfg (x_hist_a ODrop)) = [1] /\
  get_latest_entry (reach 4 x_cfg (x_hist_a ODrop)) 2 None = NotFound /\
  is_found (get_latest_entry (reach 4 x_cfg (x_hist_a ODrop)) 1 None) = true /\
  x_keys (reach 4 x_cfg (x_hist_a OClose)) = [1; 2].
Proof. vm_compute. repeat split. Qed.

(* ---------- why the cut never goes below the size an index file records ---------- *)
(* the same cut applied whatever the index file says *)
Definition raw_cut (id : N) (j : nat) (s : storage) : storage :=
  upd_closed s (map (fun o => match o with Some b => Some (if b_id b =? id then cut_recs j b else b) | None => None end)
                    (s_closed s)).

(* OUTSIDE THE CRASH MODEL: needs the loss of bytes that an index file describes, i.e. of synced bytes (Blob::dump syncs the
   blob before it writes the index). The mechanism: a regenerated index leaves the stale index file on disk, and a later
   size coincidence makes it trusted.
   Two records, close() (the index file of blob 0 records the size of both). The file is cut behind the first record
   all the same. Start: the size differs, the index is regenerated in memory -- the stale index FILE stays where it is
   (Blob::from_file never removes it, and the active blob is not dumped by the start). A third record of the same
   size is written and acknowledged; the session ends without close. Next start: the file has the recorded size again,
   the stale index file is trusted: the acknowledged record (key 3) is not found, the lost one (key 2) is. *)
Example cut_below_index_breaks_reads :
  let s1 := reach 4 x_cfg [OOpen false; OWrite 1 7 None 8 5 1; OWrite 2 8 None 8 5 2; OClose] in
  let s3 := fst (run 4 x_cfg (raw_cut 0 1 s1) [OOpen false; OWrite 3 9 None 8 5 3; ODrop; OOpen false]) in
  x_keys s3 = [1; 3] /\
  get_latest_entry s3 3 None = NotFound /\ spec_read (abs s3) 3 <> NotFound /\
  is_found (get_latest_entry s3 2 None) = true /\ spec_read (abs s3) 2 = NotFound.
Proof. vm_compute. repeat split. discriminate. Qed.

Print Assumptions cut_boundary_restart.
Print Assumptions cut_boundary_reads.
Print Assumptions cut_boundary_other_keys.
Print Assumptions cut_inside_quarantines.
Print Assumptions quarantined_ids_never_reused.
Print Assumptions quarantine_only_grows.
Print Assumptions quarantined_id_stays_unused.
Print Assumptions all_quarantined_eager.
Print Assumptions all_quarantined_lazy.
Print Assumptions all_quarantined_lazy_restart.
Print Assumptions crash_history_Inv.
Print Assumptions crash_history_IdsOk.
Print Assumptions crash_history_counts.
Print Assumptions crash_history_never_f2.
Print Assumptions crash_history_read_latest.
Print Assumptions crash_history_alive.
Print Assumptions crash_history_writable.
Print Assumptions quarantine_computed.
Print Assumptions all_quarantined_computed.
Print Assumptions cut_boundary_computed.
Print Assumptions cut_below_index_breaks_reads.
