(* Cancellation of a write between its two effects (src/blob/core.rs Blob::write):
   [await] the blocking closure reserves the offset and appends the bytes (detached: it completes even if
   the future is dropped) ; [no await] the header is pushed into the index.
   Dropping the future while the closure is in flight leaves: bytes in the file, nothing in the index. *)
Require Import Pearl.Base.Prelude Pearl.Storage.Model Pearl.Storage.Spec.

Definition append_unindexed (b : blob) (r : rec) : blob :=
  {| b_id := b_id b; b_recs := b_recs b ++ [r]; b_idx := b_idx b; b_ondisk := b_ondisk b; b_idxfile := b_idxfile b |}.

Definition cancel_write_midway (s : storage) (r : rec) : storage :=
  match s_active s with Some b => upd_active s (Some (append_unindexed b r)) | None => s end.
