(* Cancellation (dropping the future) of the public operations, at every suspension point.

   The suspension structure is the one of the Rust code (src/storage/core.rs, src/blob/core.rs):

   write   [await] ensure an active blob exists (blob creation: file created, header appended, synced; dropped
                   there, one blob id is consumed and no blob is installed);
           [await] duplicate check (reads only);
           [await] the record append runs in a detached blocking closure: once started it completes even if the
                   future is dropped; THEN (no await) the header is pushed into the in-memory index;
                   notifications: await-free.
   delete  the active blob first, exactly like a write of the marker (Blob::delete: load_index, append, push);
           then ALL closed blobs holding the key CONCURRENTLY (FuturesUnordered), each one:
           [await] load_index, [await] append of the marker (detached closure), (no await) push;
           the deferred index dump is requested only after all of them completed.
   close_active    [await] sync of the blob while it is still the active one; (no await) take + push.
   restore_active  [await] load_index of the last closed blob, in place; (no await) pop + install.
   create_active   blob creation as in write.
   fsyncdata, reads, counts: no effect on the state of the model.

   For each operation `cancel_outcomes K cfg s o` is the set of states a dropped future may leave, "not started"
   (= s) and "completed" (= fst (step K cfg s o)) included. *)
Require Import Pearl.Base.Prelude Pearl.Storage.Model Pearl.Storage.Spec.

(* bytes of the record in the file, nothing in the index *)
Definition append_unindexed (b : blob) (r : rec) : blob :=
  {| b_id := b_id b; b_recs := b_recs b ++ [r]; b_idx := b_idx b; b_ondisk := b_ondisk b; b_idxfile := b_idxfile b |}.

(* a write dropped while its append is in flight *)
Definition cancel_write_midway (s : storage) (r : rec) : storage :=
  match s_active s with Some b => upd_active s (Some (append_unindexed b r)) | None => s end.

(* a blob creation dropped after the id was taken: the id is consumed, no blob is installed *)
Definition burn_id (s : storage) : storage :=
  {| s_active := s_active s; s_closed := s_closed s; s_next := s_next s + 1; s_corrupted := s_corrupted s;
     s_alive := s_alive s; s_dump_req := s_dump_req s; s_aged := s_aged s; s_open := s_open s; s_f2 := s_f2 s;
     s_bad := s_bad s; s_quar := s_quar s |}.

(* `f` applied to the last occupied slot (the one HierarchicalFilters::pop / pop_last would vacate), in place *)
Fixpoint map_last_occupied (f : blob -> blob) (l : list (option blob)) : list (option blob) :=
  match l with
  | [] => []
  | x :: r =>
    match pop_last r with
    | Some _ => x :: map_last_occupied f r
    | None => match x with Some b => Some (f b) :: r | None => None :: r end
    end
  end.

Section K.
Variable K : N.
Variable cfg : config.

(* ---------- one blob during a delete: Blob::delete = load_index ; append (detached) ; push ---------- *)
Inductive delete_stage (mk : rec) (b : blob) : blob -> Prop :=
| ds_untouched : delete_stage mk b b
| ds_loaded : delete_stage mk b (blob_load_index K b)                                  (* index loaded only *)
| ds_bytes : delete_stage mk b (append_unindexed (blob_load_index K b) mk)            (* marker bytes, not indexed *)
| ds_done : delete_stage mk b (fst (blob_append (blob_load_index K b) mk)).           (* fully processed *)

(* the condition under which Blob::delete writes a marker (see blob_delete) *)
Definition delete_applies (b : blob) (mk : rec) (oip : bool) : bool :=
  negb oip || is_found (idx_get_latest (b_idx b) (r_key mk)).

(* the closed blobs are processed concurrently: every slot is at its own stage *)
Inductive slot_stage (mk : rec) : option blob -> option blob -> Prop :=
| ss_vacant : slot_stage mk None None
| ss_skip b : delete_applies b mk true = false -> slot_stage mk (Some b) (Some b)
| ss_stage b b' : delete_applies b mk true = true -> delete_stage mk b b' -> slot_stage mk (Some b) (Some b').

(* ---------- write ---------- *)
Inductive write_partial (s : storage) (k : N) (meta : option N) (r : rec) : storage -> Prop :=
| wp_create_dropped : s_active s = None -> write_partial s k meta r (burn_id s)
| wp_created : write_partial s k meta r (ensure_active s)         (* dropped at the duplicate check *)
| wp_bytes :                                                      (* dropped while the append is in flight *)
    negb (c_dup cfg) && is_found (get_latest_entry (ensure_active s) k meta) = false ->
    write_partial s k meta r (cancel_write_midway (ensure_active s) r).

(* ---------- delete ---------- *)
Definition delete_start (s : storage) (oip : bool) : storage := if oip then s else ensure_active s.

(* the active blob has been processed completely (the closed blobs are started only then) *)
Definition delete_active_done (s0 : storage) (mk : rec) (oip : bool) : storage :=
  match s_active s0 with
  | Some b => upd_active s0 (Some (fst (fst (blob_delete K b mk oip))))
  | None => s0
  end.

Inductive delete_partial (s : storage) (mk : rec) (oip : bool) : storage -> Prop :=
| dp_create_dropped : oip = false -> s_active s = None -> delete_partial s mk oip (burn_id s)
| dp_started : delete_partial s mk oip (delete_start s oip)
| dp_active b b' :                                                (* dropped while the active blob is processed *)
    s_active (delete_start s oip) = Some b -> delete_applies b mk oip = true -> delete_stage mk b b' ->
    delete_partial s mk oip (upd_active (delete_start s oip) (Some b'))
| dp_closed c' :                                                  (* dropped while the closed blobs are processed *)
    Forall2 (slot_stage mk) (s_closed (delete_start s oip)) c' ->
    delete_partial s mk oip (upd_closed (delete_active_done (delete_start s oip) mk oip) c').

(* ---------- lifecycle ---------- *)
Inductive restore_partial (s : storage) : storage -> Prop :=
| rp_loaded : s_active s = None ->
    restore_partial s (upd_closed s (map_last_occupied (blob_load_index K) (s_closed s))).

Inductive create_partial (s : storage) : storage -> Prop :=
| cp_create_dropped : s_active s = None -> create_partial s (burn_id s).

(* ---------- every public operation ---------- *)
Definition public_op (o : op) : bool :=
  match o with
  | OWrite _ _ _ _ _ _ | ODelete _ _ _ _ _
  | ORead _ | OReadWith _ _ | OContains _ | OReadAll _ | OReadAllDm _ | OCounts
  | OCloseActive | OCreateActive | ORestoreActive => true
  | _ => false
  end.

(* the key an operation is about *)
Definition op_key (o : op) : option N :=
  match o with
  | OWrite k _ _ _ _ _ | ODelete k _ _ _ _ => Some k
  | _ => None
  end.

(* states strictly between "not started" and "completed" *)
Definition partial_outcomes (s : storage) (o : op) (s' : storage) : Prop :=
  match o with
  | OWrite k ts meta msize dlen dseed => write_partial s k meta (mk_rec k ts false meta msize dlen dseed) s'
  | ODelete k ts meta msize oip => delete_partial s (mk_rec k ts true meta msize 0 0) oip s'
  | ORestoreActive => restore_partial s s'
  | OCreateActive => create_partial s s'
  | _ => False      (* close_active: the only await precedes every effect; reads, counts: no effect *)
  end.

Definition cancel_outcomes (s : storage) (o : op) (s' : storage) : Prop :=
  public_op o = true /\
  (s' = s \/ s' = fst (step K cfg s o) \/ (s_open s = true /\ partial_outcomes s o s')).

End K.
