(* Preservation of the invariants of Inv.v by every operation of the L3 storage model.

   Main theorems (all closed under the global context, see the Print Assumptions at the end):
     init_BlobsOk, step_BlobsOk, quiesce_BlobsOk, f2_monotone_step, f2_quiesce, run_BlobsOk,
     init_IdsOk, step_IdsOk, quiesce_IdsOk, run_IdsOk, nondata_abs, quiesce_abs.
   `quiesce` takes K (it dumps blobs, and the dump records blob_size K); IdsOk, abs, init_storage
   and closed_blobs do not.

   Also: init_/step_/quiesce_/run_NoActiveWhenClosed, and the combined init_Inv, step_Inv, step_q_Inv,
   run_Inv, step_q_nondata_abs.

   nondata_abs needs NoActiveWhenClosed: `step s (OOpen l)` on a closed storage is
   `do_open (closed_blobs s) ...`, which re-reads the closed blobs only, so an active blob object
   held by a closed storage would vanish with its records.  IdsOk and BlobsOk do not exclude such a
   state (nondata_abs_needs_NoActiveWhenClosed gives one); NoActiveWhenClosed does, and it is
   preserved by every operation.  (OOpen on an already-open storage is an EAlreadyOpen no-op.)
   IdsOk is used only in the OOpen case (sort_by_id is the identity on id-ordered files).

   Side facts established on the way:
     * blob_delete never fails (blob_delete_spec): push_deletion_record calls load_index first,
       which leaves the index in memory, so the append cannot hit the on-disk branch.  Hence
       delete_in_closed never reports f2 and do_delete never sets the ghost flag; ODelete preserves
       BlobsOk without using the `s_f2 = false` hypothesis.  Only OWrite could raise F2.
     * F2 is unreachable since the repair of restore_active (it installs blob_load_index b, as
       do_open does for the last blob): ActiveInMemory (the active blob's index is never on disk)
       holds of init_storage and is kept by every step and by quiesce (step_ActiveInMemory,
       quiesce_ActiveInMemory, run_ActiveInMemory); under it no step raises the ghost flag
       (step_f2_eq), no step answers ErrorKind::Index (step_no_index_error), every write is
       acknowledged (do_write_ack), and the invariant needs no proviso (run_Inv_mem).  The
       theorems with an `s_f2 ... = false` hypothesis (step_BlobsOk, run_Inv, ...) are kept as the
       stepping stones; Theorems.v discharges the hypothesis with never_f2.
     * do_open on id-ordered files keeps the READABLE blobs, their ids and their records in the same order
       (do_open_order, do_open_recs); with no readable file it creates a fresh blob or none (do_open_nogood).

   Crash damage and quarantine (OCut, s_bad, s_quar): IdsOk now also carries QuarOk (Inv.v): the ids of the files of
   the corrupted directory are below the next id of a running storage and are ids of no blob, a running storage has no
   unreadable file, s_corrupted = length s_quar.  The quarantine fields are touched by `open` and by OCut only
   (qf_step); a boundary cut keeps blob_ok because it never goes below the size an index file records (cut_recs_ok,
   cut_applies).  `open` drops the records of the unreadable files: nondata_abs_gen (abs after the step =
   readable_log for OOpen, abs otherwise); nondata_abs is the case s_bad s = [].  is_data_op counts OCut with the two
   data operations (it changes the log). *)
Require Import Pearl.Base.Prelude Pearl.Storage.Model Pearl.Storage.Spec Pearl.Storage.Inv.

(* ---------- generic list facts ---------- *)
Definition cb (l : list (option blob)) : list blob :=
  flat_map (fun o => match o with Some b => [b] | None => [] end) l.

Lemma closed_blobs_cb s : closed_blobs s = cb (s_closed s).
Proof. reflexivity. Qed.

Lemma cb_app l1 l2 : cb (l1 ++ l2) = cb l1 ++ cb l2.
Proof. apply flat_map_app. Qed.

Lemma cb_cons_some b l : cb (Some b :: l) = b :: cb l.
Proof. reflexivity. Qed.

Lemma cb_cons_none l : cb (None :: l) = cb l.
Proof. reflexivity. Qed.

Lemma in_cb l b : In b (cb l) <-> In (Some b) l.
Proof.
  induction l as [|[x|] l IH].
  - split; intros [].
  - rewrite cb_cons_some. cbn [In]. rewrite IH. split; intros [H|H]; auto; left; congruence.
  - rewrite cb_cons_none. cbn [In]. rewrite IH. split; [auto|]. intros [H|H]; [discriminate|assumption].
Qed.

Lemma cb_map_Some l : cb (map Some l) = l.
Proof. induction l as [|x l IH]; [reflexivity|]. cbn [map]. rewrite cb_cons_some, IH. reflexivity. Qed.

Lemma cb_map_some_f (f : blob -> blob) l : cb (map (fun b => Some (f b)) l) = map f l.
Proof. induction l as [|x l IH]; [reflexivity|]. cbn [map]. rewrite cb_cons_some, IH. reflexivity. Qed.

Lemma cb_map_opt (f : blob -> blob) l :
  cb (map (fun o => match o with Some b => Some (f b) | None => None end) l) = map f (cb l).
Proof.
  induction l as [|[x|] l IH]; [reflexivity| |].
  - cbn [map]. rewrite !cb_cons_some. cbn [map]. rewrite IH. reflexivity.
  - cbn [map]. rewrite !cb_cons_none. exact IH.
Qed.

Lemma firstn_app_le {A} n (l : list A) x : (n <= length l)%nat -> firstn n (l ++ [x]) = firstn n l.
Proof.
  intros H. rewrite firstn_app. replace (n - length l)%nat with O by lia.
  cbn [firstn]. apply app_nil_r.
Qed.

Lemma flat_map_recs_ext (f : blob -> blob) l :
  (forall b, b_recs (f b) = b_recs b) -> flat_map b_recs (map f l) = flat_map b_recs l.
Proof.
  intros H. induction l as [|x l IH]; [reflexivity|]. cbn [map flat_map]. rewrite H, IH. reflexivity.
Qed.

Lemma map_id_ext (f : blob -> blob) l :
  (forall b, b_id (f b) = b_id b) -> map b_id (map f l) = map b_id l.
Proof.
  intros H. induction l as [|x l IH]; [reflexivity|]. cbn [map]. rewrite H, IH. reflexivity.
Qed.

Lemma rev_cons_inv {A} (l : list A) x r : rev l = x :: r -> l = rev r ++ [x].
Proof. intros H. rewrite <- (rev_involutive l), H. reflexivity. Qed.

(* ---------- pop_last ---------- *)
Lemma pop_last_cb l : forall b c, pop_last l = Some (b, c) -> cb l = cb c ++ [b].
Proof.
  induction l as [|x l IH]; intros b c E; cbn [pop_last] in E; [discriminate|].
  destruct (pop_last l) as [[b1 r1]|] eqn:P.
  - injection E as E1 E2. subst b1 c. specialize (IH _ _ eq_refl).
    destruct x as [y|]; [rewrite !cb_cons_some|rewrite !cb_cons_none]; rewrite IH; reflexivity.
  - destruct x as [y|]; [|discriminate]. injection E as E1 E2. subst y c.
    rewrite cb_cons_some, cb_cons_none.
    assert (Hn : cb l = []).
    { clear IH. induction l as [|z l IHl]; [reflexivity|]. cbn [pop_last] in P.
      destruct (pop_last l) as [[b1 r1]|]; [discriminate|]. destruct z; [discriminate|].
      rewrite cb_cons_none. apply IHl. reflexivity. }
    rewrite Hn. reflexivity.
Qed.

Lemma pop_last_none l : pop_last l = None -> cb l = [].
Proof.
  induction l as [|z l IHl]; intros P; [reflexivity|]. cbn [pop_last] in P.
  destruct (pop_last l) as [[b1 r1]|]; [discriminate|]. destruct z; [discriminate|].
  rewrite cb_cons_none. apply IHl. reflexivity.
Qed.

Lemma pop_last_in l b c : pop_last l = Some (b, c) ->
  In (Some b) l /\ forall x, In (Some x) c -> In (Some x) l.
Proof.
  intros E. apply pop_last_cb in E. split.
  - apply in_cb. rewrite E. apply in_or_app. right. left. reflexivity.
  - intros x Hx. apply in_cb. rewrite E. apply in_or_app. left. apply in_cb. exact Hx.
Qed.

(* ---------- sort_by_id / max_id ---------- *)
Lemma in_insert_by_id x b l : In x (insert_by_id b l) <-> x = b \/ In x l.
Proof.
  induction l as [|y l IH]; cbn [insert_by_id].
  - cbn [In]. split; intros [H|H]; auto.
  - destruct (b_id b <? b_id y).
    + cbn [In]. split; intros [H|H]; auto.
    + cbn [In]. rewrite IH. split; intros [H|[H|H]]; auto.
Qed.

Lemma in_sort_by_id x l : In x (sort_by_id l) <-> In x l.
Proof.
  unfold sort_by_id. induction l as [|y l IH]; cbn [fold_right]; [reflexivity|].
  rewrite in_insert_by_id, IH. cbn [In]. split; intros [H|H]; auto.
Qed.

Lemma increasing_tail x l : increasing (x :: l) -> increasing l.
Proof. intros [_ H]. exact H. Qed.

Lemma sort_by_id_increasing l : increasing (map b_id l) -> sort_by_id l = l.
Proof.
  unfold sort_by_id. induction l as [|x l IH]; intros H; [reflexivity|].
  cbn [fold_right]. cbn [map] in H. rewrite IH by (apply (increasing_tail _ _ H)).
  destruct l as [|y l]; [reflexivity|]. cbn [map increasing] in H. destruct H as [Hlt _].
  cbn [insert_by_id]. apply N.ltb_lt in Hlt. rewrite Hlt. reflexivity.
Qed.

Lemma max_id_fold l : forall a, exists m,
  fold_left (fun a b => match a with Some m => Some (N.max m (b_id b)) | None => Some (b_id b) end) l (Some a) = Some m
  /\ a <= m /\ forall b, In b l -> b_id b <= m.
Proof.
  induction l as [|x l IH]; intros a; cbn [fold_left].
  - exists a. split; [reflexivity|]. split; [lia|]. intros b [].
  - destruct (IH (N.max a (b_id x))) as (m & E & Ha & Hl). exists m. split; [exact E|]. split; [lia|].
    intros b [<-|Hb]; [lia|apply Hl, Hb].
Qed.

Lemma max_id_bound l b :
  In b l -> b_id b < match max_id l with Some m => m + 1 | None => 0 end.
Proof.
  destruct l as [|x l]; intros Hb; [destruct Hb|]. unfold max_id. cbn [fold_left].
  destruct (max_id_fold l (b_id x)) as (m & E & Ha & Hl). rewrite E.
  destruct Hb as [<-|Hb]; [lia|]. specialize (Hl _ Hb). lia.
Qed.

Lemma max_ids_fold l : forall a, exists m,
  fold_left (fun a i => match a with Some m => Some (N.max m i) | None => Some i end) l (Some a) = Some m
  /\ a <= m /\ forall i, In i l -> i <= m.
Proof.
  induction l as [|x l IH]; intros a; cbn [fold_left].
  - exists a. split; [reflexivity|]. split; [lia|]. intros i [].
  - destruct (IH (N.max a x)) as (m & E & Ha & Hl). exists m. split; [exact E|]. split; [lia|].
    intros i [<-|Hi]; [lia|apply Hl, Hi].
Qed.

Lemma next_above_bound l i : In i l -> i < next_above l.
Proof.
  destruct l as [|x l]; intros Hi; [destruct Hi|]. unfold next_above, max_ids. cbn [fold_left].
  destruct (max_ids_fold l x) as (m & E & Ha & Hl). rewrite E.
  destruct Hi as [<-|Hi]; [lia|]. specialize (Hl _ Hi). lia.
Qed.

(* ---------- increasing ---------- *)
Lemma increasing_head_lt x l : increasing (x :: l) -> forall y, In y l -> x < y.
Proof.
  revert x. induction l as [|z l IH]; intros x H y Hy; [destruct Hy|].
  cbn [increasing] in H. destruct H as [Hxz Hr]. destruct Hy as [<-|Hy]; [exact Hxz|].
  specialize (IH z Hr y Hy). lia.
Qed.

Lemma increasing_cons x l : increasing l -> (forall y, In y l -> x < y) -> increasing (x :: l).
Proof.
  intros Hi Hx. cbn [increasing]. split; [|exact Hi]. destruct l as [|y l]; [exact I|]. apply Hx. left. reflexivity.
Qed.

Lemma increasing_filter (p : blob -> bool) l : increasing (map b_id l) -> increasing (map b_id (filter p l)).
Proof.
  induction l as [|x l IH]; intros H; [exact I|]. cbn [map] in H. cbn [filter].
  pose proof (increasing_head_lt _ _ H) as Hlt. destruct H as [_ Hr]. specialize (IH Hr).
  destruct (p x); [|exact IH]. cbn [map]. apply increasing_cons; [exact IH|].
  intros y Hy. apply Hlt. apply in_map_iff in Hy. destruct Hy as (b & <- & Hb). apply in_map.
  apply filter_In in Hb. apply Hb.
Qed.

Lemma increasing_app_l l1 l2 : increasing (l1 ++ l2) -> increasing l1.
Proof.
  induction l1 as [|x l1 IH]; intros H; [exact I|]. cbn [app increasing] in H. destruct H as [Hx Hr].
  cbn [increasing]. split; [|apply IH, Hr]. destruct l1 as [|y l1]; [exact I|exact Hx].
Qed.

Lemma increasing_snoc l x : increasing l -> (forall i, In i l -> i < x) -> increasing (l ++ [x]).
Proof.
  induction l as [|y l IH]; intros Hi Hb; cbn [app increasing]; [auto|].
  destruct Hi as [Hy Hr]. split.
  - destruct l as [|z l]; cbn [app]; [apply Hb; left; reflexivity|exact Hy].
  - apply IH; [exact Hr|]. intros i Hin. apply Hb. right. exact Hin.
Qed.

Section K.
Variable K : N.
Variable cfg : config.

(* ---------- sizes ---------- *)
Lemma blob_size_size_of b : blob_size K b = size_of K (b_recs b).
Proof. reflexivity. Qed.

Lemma rec_size_pos r : 0 < rec_size K r.
Proof. unfold rec_size, rhs. lia. Qed.

Lemma fold_size_ge l : forall a, a <= fold_left (fun a r => a + rec_size K r) l a.
Proof.
  induction l as [|x l IH]; intros a; cbn [fold_left]; [lia|].
  specialize (IH (a + rec_size K x)). pose proof (rec_size_pos x). lia.
Qed.

Lemma fold_size_gt l : l <> [] -> forall a, a < fold_left (fun a r => a + rec_size K r) l a.
Proof.
  destruct l as [|x l]; intros Hne a; [contradiction|]. cbn [fold_left].
  pose proof (fold_size_ge l (a + rec_size K x)). pose proof (rec_size_pos x). lia.
Qed.

Lemma prefix_full n l : size_of K (firstn n l) = size_of K l -> firstn n l = l.
Proof.
  intros H. rewrite <- (firstn_skipn n l) in H at 2. unfold size_of in H. rewrite fold_left_app in H.
  destruct (skipn n l) as [|y t] eqn:S.
  - rewrite <- (firstn_skipn n l) at 2. rewrite S. symmetry. apply app_nil_r.
  - exfalso. assert (Hne : y :: t <> []) by discriminate.
    pose proof (fold_size_gt (y :: t) Hne (fold_left (fun a r => a + rec_size K r) (firstn n l) BLOB_HEADER_SIZE)) as Hgt.
    rewrite <- H in Hgt. lia.
Qed.

(* ---------- blob-level preservation ---------- *)
Lemma index_of_snoc rs r : index_of (rs ++ [r]) = imap_push (index_of rs) r.
Proof. unfold index_of. rewrite fold_left_app. reflexivity. Qed.

Lemma blob_ok_new id : blob_ok K (new_blob id).
Proof. split; [reflexivity|exact I]. Qed.

Lemma idxfile_full b sz m : idxfile_ok K b -> b_idxfile b = Some (sz, m) -> sz = blob_size K b -> m = index_of (b_recs b).
Proof.
  unfold idxfile_ok. intros Hf E Hsz. rewrite E in Hf. destruct Hf as (n & Hn & Hs & Hm).
  rewrite blob_size_size_of in Hsz. rewrite Hs in Hsz. apply prefix_full in Hsz. rewrite Hsz in Hm. exact Hm.
Qed.

Lemma idxfile_ok_ext b b' :
  b_recs b' = b_recs b -> b_idxfile b' = b_idxfile b -> idxfile_ok K b -> idxfile_ok K b'.
Proof. unfold idxfile_ok. intros -> ->. auto. Qed.

Lemma blob_append_ok b r b' : blob_ok K b -> blob_append b r = (b', true) -> blob_ok K b'.
Proof.
  intros [Hi Hf] E. unfold blob_append in E. destruct (b_ondisk b) eqn:D; [discriminate|].
  injection E as E. subst b'. split.
  - unfold idx_ok in *. cbn [b_idx b_recs]. rewrite index_of_snoc, Hi. reflexivity.
  - unfold idxfile_ok in *. cbn [b_idxfile b_recs]. destruct (b_idxfile b) as [[sz m]|]; [|exact I].
    destruct Hf as (n & Hn & Hs & Hm). exists n. rewrite app_length. cbn [length].
    rewrite firstn_app_le by exact Hn. split; [lia|]. split; assumption.
Qed.

Lemma blob_append_id b r : b_id (fst (blob_append b r)) = b_id b.
Proof. unfold blob_append. destruct (b_ondisk b); reflexivity. Qed.

Lemma blob_append_mem b r : b_ondisk b = false -> snd (blob_append b r) = true.
Proof. intros D. unfold blob_append. rewrite D. reflexivity. Qed.

Lemma blob_load_index_ok b : blob_ok K b -> blob_ok K (blob_load_index K b).
Proof.
  intros [Hi Hf]. unfold blob_load_index. destruct (b_ondisk b) eqn:D; [|split; assumption]. split.
  - unfold idx_ok. cbn [b_idx b_recs]. destruct (b_idxfile b) as [[sz m]|] eqn:E; [|reflexivity].
    destruct (N.eqb_spec sz (blob_size K b)) as [Hsz|]; [|reflexivity].
    apply (idxfile_full b sz m Hf E Hsz).
  - exact Hf.
Qed.

Lemma blob_load_index_mem b : b_ondisk (blob_load_index K b) = false.
Proof. unfold blob_load_index. destruct (b_ondisk b) eqn:D; [reflexivity|exact D]. Qed.

Lemma blob_load_index_id b : b_id (blob_load_index K b) = b_id b.
Proof. unfold blob_load_index. destruct (b_ondisk b); reflexivity. Qed.

Lemma blob_load_index_recs b : b_recs (blob_load_index K b) = b_recs b.
Proof. unfold blob_load_index. destruct (b_ondisk b); reflexivity. Qed.

Lemma blob_dump_ok b : blob_ok K b -> blob_ok K (blob_dump K b).
Proof.
  intros [Hi Hf]. unfold blob_dump. destruct (b_ondisk b); [split; assumption|].
  destruct (b_idx b) as [|p t] eqn:E; [split; assumption|]. split.
  - unfold idx_ok in *. cbn [b_idx b_recs]. rewrite <- E. exact Hi.
  - unfold idxfile_ok. cbn [b_idxfile b_recs]. exists (length (b_recs b)). rewrite firstn_all.
    split; [lia|]. split; [reflexivity|]. rewrite <- E. exact Hi.
Qed.

Lemma blob_dump_id b : b_id (blob_dump K b) = b_id b.
Proof. unfold blob_dump. destruct (b_ondisk b); [reflexivity|]. destruct (b_idx b); reflexivity. Qed.

Lemma blob_dump_recs b : b_recs (blob_dump K b) = b_recs b.
Proof. unfold blob_dump. destruct (b_ondisk b); [reflexivity|]. destruct (b_idx b); reflexivity. Qed.

Lemma blob_from_file_ok b : blob_ok K b -> blob_ok K (blob_from_file K b).
Proof.
  intros [Hi Hf]. unfold blob_from_file. destruct (b_idxfile b) as [[sz m]|] eqn:E.
  - destruct (N.eqb_spec sz (blob_size K b)) as [Hsz|].
    + split; [|apply (idxfile_ok_ext b); [reflexivity|symmetry; exact E|exact Hf]].
      unfold idx_ok. cbn [b_idx b_recs]. apply (idxfile_full b sz m Hf E Hsz).
    + split; [reflexivity|apply (idxfile_ok_ext b); [reflexivity|symmetry; exact E|exact Hf]].
  - split; [reflexivity|exact I].
Qed.

Lemma blob_from_file_id b : b_id (blob_from_file K b) = b_id b.
Proof.
  unfold blob_from_file. destruct (b_idxfile b) as [[sz m]|]; [|reflexivity].
  destruct (sz =? blob_size K b); reflexivity.
Qed.

Lemma blob_from_file_recs b : b_recs (blob_from_file K b) = b_recs b.
Proof.
  unfold blob_from_file. destruct (b_idxfile b) as [[sz m]|]; [|reflexivity].
  destruct (sz =? blob_size K b); reflexivity.
Qed.

Lemma rm_index_ok b : blob_ok K b -> blob_ok K (rm_index b).
Proof. intros [Hi Hf]. split; [exact Hi|exact I]. Qed.

(* the deletion record is pushed after load_index, so the push never fails *)
Lemma blob_delete_spec b mk oip b' d ok :
  blob_delete K b mk oip = (b', d, ok) ->
  ok = true /\ b_id b' = b_id b /\ (blob_ok K b -> blob_ok K b').
Proof.
  unfold blob_delete. intros E.
  destruct (negb oip || match idx_get_latest (b_idx b) (r_key mk) with Found _ => true | _ => false end).
  - destruct (blob_append (blob_load_index K b) mk) as [b2 ok2] eqn:A.
    injection E as E1 E2 E3. subst b2 d ok2.
    pose proof (blob_append_mem (blob_load_index K b) mk (blob_load_index_mem b)) as Hok.
    rewrite A in Hok. cbn [snd] in Hok. subst ok.
    pose proof (blob_append_id (blob_load_index K b) mk) as Hid. rewrite A in Hid. cbn [fst] in Hid.
    rewrite blob_load_index_id in Hid.
    split; [reflexivity|]. split; [exact Hid|]. intros Hb.
    apply (blob_append_ok (blob_load_index K b) mk b'); [apply blob_load_index_ok, Hb|exact A].
  - injection E as E1 E2 E3. subst b' d ok. auto.
Qed.

(* ---------- BlobsOk: storage-level helpers ---------- *)
Lemma BlobsOk_intro s :
  (forall b, In (Some b) (s_closed s) -> blob_ok K b) ->
  (forall b, s_active s = Some b -> blob_ok K b) -> BlobsOk K s.
Proof. intros H1 H2. split; assumption. Qed.

Lemma BlobsOk_ext s s' :
  s_closed s' = s_closed s -> s_active s' = s_active s -> BlobsOk K s -> BlobsOk K s'.
Proof. unfold BlobsOk. intros -> ->. auto. Qed.

Lemma BlobsOk_upd_active s a :
  BlobsOk K s -> (forall b, a = Some b -> blob_ok K b) -> BlobsOk K (upd_active s a).
Proof. intros [Hc Ha] H. split; cbn [s_closed s_active upd_active]; assumption. Qed.

Lemma BlobsOk_upd_closed s c :
  BlobsOk K s -> (forall b, In (Some b) c -> blob_ok K b) -> BlobsOk K (upd_closed s c).
Proof. intros [Hc Ha] H. split; cbn [s_closed s_active upd_closed]; assumption. Qed.

Lemma BlobsOk_upd_f2 s f : BlobsOk K s -> BlobsOk K (upd_f2 s f).
Proof. apply BlobsOk_ext; reflexivity. Qed.

Lemma BlobsOk_request_dump s : BlobsOk K s -> BlobsOk K (request_dump s).
Proof. unfold request_dump. destruct (s_alive s); [|auto]. apply BlobsOk_ext; reflexivity. Qed.

Lemma BlobsOk_ensure_active s : BlobsOk K s -> BlobsOk K (ensure_active s).
Proof.
  intros H. unfold ensure_active. destruct (s_active s) as [a|] eqn:E; [exact H|].
  split; cbn [s_closed s_active]; [exact (proj1 H)|]. intros b Hb. injection Hb as <-. apply blob_ok_new.
Qed.

Lemma BlobsOk_push_closed s b : BlobsOk K s -> blob_ok K b -> BlobsOk K (push_closed s b).
Proof.
  intros H Hb. unfold push_closed. apply BlobsOk_upd_closed; [exact H|].
  intros x Hx. apply in_app_or in Hx. destruct Hx as [Hx|[Hx|[]]]; [apply (proj1 H), Hx|].
  injection Hx as <-. exact Hb.
Qed.

Lemma BlobsOk_close_active s : BlobsOk K s -> BlobsOk K (fst (close_active s)).
Proof.
  intros H. unfold close_active. destruct (s_active s) as [a|] eqn:E; cbn [fst]; [|exact H].
  apply BlobsOk_push_closed; [|apply (proj2 H), E].
  apply BlobsOk_upd_active; [exact H|discriminate].
Qed.

Lemma BlobsOk_create_active s : BlobsOk K s -> BlobsOk K (fst (create_active s)).
Proof.
  intros H. unfold create_active. destruct (s_active s) as [a|] eqn:E; cbn [fst]; [exact H|].
  apply BlobsOk_ensure_active, H.
Qed.

Lemma BlobsOk_restore_active s : BlobsOk K s -> BlobsOk K (fst (restore_active K s)).
Proof.
  intros H. unfold restore_active. destruct (s_active s) as [a|] eqn:E; cbn [fst]; [exact H|].
  destruct (pop_last (s_closed s)) as [[b c]|] eqn:P; cbn [fst]; [|exact H].
  destruct (pop_last_in _ _ _ P) as [Hb Hc].
  apply BlobsOk_upd_active.
  - apply BlobsOk_upd_closed; [exact H|]. intros x Hx. apply (proj1 H), Hc, Hx.
  - intros x Hx. injection Hx as <-. apply blob_load_index_ok, (proj1 H), Hb.
Qed.

Lemma BlobsOk_worker s f :
  (forall s, BlobsOk K s -> BlobsOk K (fst (f s))) -> BlobsOk K s -> BlobsOk K (worker s f).
Proof.
  intros Hf H. unfold worker. destruct (s_alive s); [|exact H].
  specialize (Hf s H). destruct (f s) as [s' [e|]]; cbn [fst] in Hf; [|exact Hf].
  revert Hf. apply BlobsOk_ext; reflexivity.
Qed.

Lemma BlobsOk_replace_active s : BlobsOk K s -> BlobsOk K (replace_active s).
Proof.
  intros H. unfold replace_active.
  assert (H1 : BlobsOk K (match s_active s with Some b => push_closed s b | None => s end)).
  { destruct (s_active s) as [a|] eqn:E; [|exact H]. apply BlobsOk_push_closed; [exact H|apply (proj2 H), E]. }
  split; cbn [s_closed s_active]; [exact (proj1 H1)|].
  intros b Hb. injection Hb as <-. apply blob_ok_new.
Qed.

Lemma BlobsOk_maybe_rotate s : BlobsOk K s -> BlobsOk K (maybe_rotate K cfg s).
Proof.
  intros H. unfold maybe_rotate. destruct (s_active s) as [a|]; [|exact H].
  destruct (blob_full K cfg a && s_aged s && s_alive s); [|exact H].
  apply BlobsOk_request_dump, BlobsOk_replace_active, H.
Qed.

Lemma BlobsOk_dump_all_closed s : BlobsOk K s -> BlobsOk K (dump_all_closed K s).
Proof.
  intros H. unfold dump_all_closed. apply BlobsOk_upd_closed; [exact H|].
  intros b Hb. apply in_map_iff in Hb. destruct Hb as ([x|] & Hx & Hin); [|discriminate].
  injection Hx as <-. apply blob_dump_ok, (proj1 H), Hin.
Qed.

Theorem quiesce_BlobsOk : forall s, BlobsOk K s -> BlobsOk K (quiesce K s).
Proof.
  intros s H. unfold quiesce. destruct (s_alive s && s_dump_req s); [|exact H].
  generalize (BlobsOk_dump_all_closed s H). apply BlobsOk_ext; reflexivity.
Qed.

Lemma BlobsOk_closed_state files s :
  (forall b, In b files -> blob_ok K b) -> BlobsOk K (closed_state files s).
Proof.
  intros H. split; cbn [s_closed s_active closed_state]; [|discriminate].
  intros b Hb. apply in_map_iff in Hb. destruct Hb as (x & Hx & Hin). injection Hx as <-. apply H, Hin.
Qed.

Lemma BlobsOk_closed_blobs s b : BlobsOk K s -> In b (closed_blobs s) -> blob_ok K b.
Proof. intros H Hb. rewrite closed_blobs_cb in Hb. apply in_cb in Hb. apply (proj1 H), Hb. Qed.

Definition good_files (bad : list N) (files : list blob) : list blob := filter (fun b => negb (is_bad bad b)) files.
Definition new_quar (bad : list N) (files : list blob) : list N := map b_id (filter (is_bad bad) files).

Lemma do_open_nonempty files bad quar c lazy f2 : files <> [] ->
  do_open K files bad quar c lazy f2 =
    let blobs := sort_by_id (map (blob_from_file K) (good_files bad files)) in
    let next := next_above (map b_id files ++ quar) in
    let '(active, rest, next') :=
      if lazy then (None, blobs, next)
      else match rev blobs with
           | last :: r => (Some (blob_load_index K last), rev r, next)
           | [] => (Some (new_blob next), [], next + 1)
           end in
    {| s_active := active; s_closed := map (fun b => Some (blob_dump K b)) rest; s_next := next';
       s_corrupted := c + N.of_nat (length (new_quar bad files)); s_alive := true; s_dump_req := false; s_aged := false;
       s_open := true; s_f2 := f2; s_bad := []; s_quar := quar ++ new_quar bad files |}.
Proof. destruct files; [contradiction|reflexivity]. Qed.

Lemma BlobsOk_do_open files bad quar c lazy f2 :
  (forall b, In b files -> blob_ok K b) -> BlobsOk K (do_open K files bad quar c lazy f2).
Proof.
  intros H. destruct files as [|f0 fs] eqn:EF.
  - cbn [do_open]. split; cbn [s_closed s_active]; [intros b []|].
    intros b Hb. injection Hb as <-. apply blob_ok_new.
  - rewrite <- EF in *. rewrite do_open_nonempty by (rewrite EF; discriminate).
    set (blobs := sort_by_id (map (blob_from_file K) (good_files bad files))).
    assert (HB : forall b, In b blobs -> blob_ok K b).
    { intros b Hb. unfold blobs in Hb. apply (proj1 (in_sort_by_id _ _)) in Hb. apply in_map_iff in Hb. destruct Hb as (x & <- & Hx).
      apply blob_from_file_ok, H. unfold good_files in Hx. apply filter_In in Hx. apply Hx. }
    clearbody blobs. cbv zeta.
    assert (HD : forall rest, (forall b, In b rest -> blob_ok K b) ->
                 forall b, In (Some b) (map (fun b => Some (blob_dump K b)) rest) -> blob_ok K b).
    { intros rest Hr b Hb. apply in_map_iff in Hb. destruct Hb as (x & Hx & Hin). injection Hx as <-.
      apply blob_dump_ok, Hr, Hin. }
    destruct lazy.
    + split; cbn [s_closed s_active]; [apply HD, HB|discriminate].
    + destruct (rev blobs) as [|last r] eqn:R.
      * split; cbn [s_closed s_active map]; [intros b []|]. intros b Hb. injection Hb as <-. apply blob_ok_new.
      * apply rev_cons_inv in R. subst blobs.
        split; cbn [s_closed s_active].
        -- apply HD. intros b Hb. apply HB. apply in_or_app. left. exact Hb.
        -- intros b Hb. injection Hb as <-. apply blob_load_index_ok, HB. apply in_or_app. right. left. reflexivity.
Qed.

(* ---------- a blob file cut at a record boundary above what its index file describes ---------- *)
Lemma size_of_firstn_mono n j l : (n <= length l)%nat -> (j <= length l)%nat ->
  size_of K (firstn n l) <= size_of K (firstn j l) -> (n <= j)%nat.
Proof.
  intros Hn Hj Hs. destruct (Nat.le_gt_cases n j) as [Hle|Hgt]; [exact Hle|exfalso].
  assert (E : firstn n l = firstn j l ++ skipn j (firstn n l)).
  { rewrite <- (firstn_skipn j (firstn n l)) at 1. rewrite firstn_firstn. replace (Init.Nat.min j n) with j by lia. reflexivity. }
  rewrite E in Hs. unfold size_of in Hs. rewrite fold_left_app in Hs.
  assert (Hne : skipn j (firstn n l) <> []).
  { intros E0. apply (f_equal (@length rec)) in E0. rewrite skipn_length, firstn_length in E0. cbn [length] in E0. lia. }
  pose proof (fold_size_gt _ Hne (fold_left (fun a r => a + rec_size K r) (firstn j l) BLOB_HEADER_SIZE)). lia.
Qed.

Lemma cut_recs_ok j b : blob_ok K b -> cut_applies K j b = true -> blob_ok K (cut_recs j b).
Proof.
  intros [Hi Hf] Ha. split; [reflexivity|].
  unfold idxfile_ok in *. unfold cut_applies in Ha. cbn [cut_recs b_idxfile b_recs].
  destruct (b_idxfile b) as [[sz m]|]; [|exact I].
  destruct Hf as (n & Hn & Hs & Hm). apply N.leb_le in Ha.
  destruct (Nat.le_gt_cases (length (b_recs b)) j) as [Hj|Hj].
  - rewrite firstn_all2 by exact Hj. exists n. auto.
  - assert (Hnj : (n <= j)%nat).
    { apply (size_of_firstn_mono n j (b_recs b)); [exact Hn|lia|]. rewrite <- Hs. exact Ha. }
    exists n. rewrite firstn_length, firstn_firstn. replace (Init.Nat.min n j) with n by lia.
    split; [lia|]. split; assumption.
Qed.

Lemma cut_blob_ok id j b : blob_ok K b -> blob_ok K (cut_blob K id j b).
Proof.
  intros H. unfold cut_blob. destruct (b_id b =? id); cbn [andb]; [|exact H].
  destruct (cut_applies K j b) eqn:Ha; [apply cut_recs_ok; assumption|exact H].
Qed.

Lemma cut_blob_id id j b : b_id (cut_blob K id j b) = b_id b.
Proof. unfold cut_blob. destruct ((b_id b =? id) && cut_applies K j b); reflexivity. Qed.

Lemma closed_do_cut s id keep :
  s_closed (do_cut K s id keep) =
  match keep with
  | Some j => if s_open s then s_closed s
              else map (fun o => match o with Some b => Some (cut_blob K id j b) | None => None end) (s_closed s)
  | None => s_closed s
  end.
Proof.
  unfold do_cut. destruct (s_open s); [destruct keep; reflexivity|]. destruct keep as [j|]; [reflexivity|].
  destruct (existsb (fun b => b_id b =? id) (closed_blobs s)); reflexivity.
Qed.

Lemma active_do_cut s id keep : s_active (do_cut K s id keep) = s_active s.
Proof.
  unfold do_cut. destruct (s_open s); [reflexivity|]. destruct keep as [j|]; [reflexivity|].
  destruct (existsb (fun b => b_id b =? id) (closed_blobs s)); reflexivity.
Qed.

Lemma next_do_cut s id keep : s_next (do_cut K s id keep) = s_next s.
Proof.
  unfold do_cut. destruct (s_open s); [reflexivity|]. destruct keep as [j|]; [reflexivity|].
  destruct (existsb (fun b => b_id b =? id) (closed_blobs s)); reflexivity.
Qed.

Lemma open_do_cut s id keep : s_open (do_cut K s id keep) = s_open s.
Proof.
  unfold do_cut. destruct (s_open s) eqn:EO; [exact EO|]. destruct keep as [j|]; [exact EO|].
  destruct (existsb (fun b => b_id b =? id) (closed_blobs s)); exact EO.
Qed.

Lemma f2_do_cut s id keep : s_f2 (do_cut K s id keep) = s_f2 s.
Proof.
  unfold do_cut. destruct (s_open s); [reflexivity|]. destruct keep as [j|]; [reflexivity|].
  destruct (existsb (fun b => b_id b =? id) (closed_blobs s)); reflexivity.
Qed.

Lemma quar_do_cut s id keep : s_quar (do_cut K s id keep) = s_quar s /\ s_corrupted (do_cut K s id keep) = s_corrupted s.
Proof.
  unfold do_cut. destruct (s_open s); [auto|]. destruct keep as [j|]; [auto|].
  destruct (existsb (fun b => b_id b =? id) (closed_blobs s)); auto.
Qed.

Lemma f2_do_open files bad quar c lazy f2 : s_f2 (do_open K files bad quar c lazy f2) = f2.
Proof.
  unfold do_open. destruct files as [|f0 fs]; [reflexivity|]. destruct lazy; [reflexivity|].
  destruct (rev (sort_by_id (map (blob_from_file K) (filter (fun b => negb (is_bad bad b)) (f0 :: fs))))); reflexivity.
Qed.

Lemma open_do_open files bad quar c lazy f2 : s_open (do_open K files bad quar c lazy f2) = true.
Proof.
  unfold do_open. destruct files as [|f0 fs]; [reflexivity|]. destruct lazy; [reflexivity|].
  destruct (rev (sort_by_id (map (blob_from_file K) (filter (fun b => negb (is_bad bad b)) (f0 :: fs))))); reflexivity.
Qed.

Lemma BlobsOk_do_cut s id keep : BlobsOk K s -> BlobsOk K (do_cut K s id keep).
Proof.
  intros H. split; [|rewrite active_do_cut; apply H].
  rewrite closed_do_cut. destruct keep as [j|]; [|apply H]. destruct (s_open s); [apply H|].
  intros b Hb. apply in_map_iff in Hb. destruct Hb as ([x|] & Hx & Hin); [|discriminate].
  injection Hx as <-. apply cut_blob_ok, (proj1 H), Hin.
Qed.

Lemma delete_in_closed_spec l mk : forall l' n f,
  delete_in_closed K l mk = (l', n, f) ->
  f = false /\ map b_id (cb l') = map b_id (cb l) /\
  ((forall b, In (Some b) l -> blob_ok K b) -> forall b, In (Some b) l' -> blob_ok K b).
Proof.
  induction l as [|[x|] l IH]; intros l' n f E; cbn [delete_in_closed] in E.
  - injection E as <- <- <-. split; [reflexivity|]. split; [reflexivity|]. intros _ b [].
  - destruct (delete_in_closed K l mk) as [[r' n1] f1] eqn:D.
    destruct (blob_delete K x mk true) as [[b' d] ok] eqn:B.
    injection E as <- <- <-. destruct (IH _ _ _ eq_refl) as (Hf & Hid & Hok).
    destruct (blob_delete_spec _ _ _ _ _ _ B) as (Hk & Hi & Hb).
    subst f1 ok. split; [reflexivity|]. split.
    + rewrite !cb_cons_some. cbn [map]. rewrite Hi, Hid. reflexivity.
    + intros HA b [Hx|Hx].
      * injection Hx as <-. apply Hb, HA. left. reflexivity.
      * apply Hok; [|exact Hx]. intros y Hy. apply HA. right. exact Hy.
  - destruct (delete_in_closed K l mk) as [[r' n1] f1] eqn:D.
    injection E as <- <- <-. destruct (IH _ _ _ eq_refl) as (Hf & Hid & Hok).
    split; [exact Hf|]. split; [rewrite !cb_cons_none; exact Hid|].
    intros HA b [Hx|Hx]; [discriminate|]. apply Hok; [|exact Hx]. intros y Hy. apply HA. right. exact Hy.
Qed.

Lemma do_write_BlobsOk s k ts meta msize dlen dseed :
  BlobsOk K s -> s_f2 (fst (do_write K cfg s k ts meta msize dlen dseed)) = false ->
  BlobsOk K (fst (do_write K cfg s k ts meta msize dlen dseed)).
Proof.
  intros H. unfold do_write. pose proof (BlobsOk_ensure_active s H) as H1.
  set (s1 := ensure_active s) in *. clearbody s1.
  destruct (negb (c_dup cfg) && is_found (get_latest_entry s1 k meta)); cbn [fst]; [intros _; exact H1|].
  destruct (s_active s1) as [a|] eqn:EA; cbn [fst]; [|intros _; exact H1].
  destruct (blob_append a (mk_rec k ts false meta msize dlen dseed)) as [b' ok] eqn:A.
  destruct ok; cbn [fst].
  - intros _. apply BlobsOk_maybe_rotate. apply BlobsOk_upd_active; [exact H1|].
    intros b Hb. injection Hb as <-. apply (blob_append_ok a _ b' (proj2 H1 a EA) A).
  - cbn [s_f2 upd_f2]. rewrite orb_true_r. discriminate.
Qed.

Lemma do_delete_BlobsOk s k ts meta msize oip :
  BlobsOk K s -> BlobsOk K (fst (do_delete K s k ts meta msize oip)).
Proof.
  intros H. unfold do_delete.
  assert (H1 : BlobsOk K (if oip then s else ensure_active s)).
  { destruct oip; [exact H|apply BlobsOk_ensure_active, H]. }
  set (s1 := if oip then s else ensure_active s) in *. clearbody s1.
  set (mk := mk_rec k ts true meta msize 0 0).
  destruct (s_active s1) as [a|] eqn:EA.
  - destruct (blob_delete K a mk oip) as [[b' d] ok] eqn:B.
    destruct (blob_delete_spec _ _ _ _ _ _ B) as (Hk & Hi & Hb). subst ok. cbn [negb].
    destruct (delete_in_closed K (s_closed (upd_active s1 (Some b'))) mk) as [[c' nc] f] eqn:D.
    destruct (delete_in_closed_spec _ _ _ _ _ D) as (Hf & Hid & Hok).
    assert (H2 : BlobsOk K (upd_active s1 (Some b'))).
    { apply BlobsOk_upd_active; [exact H1|]. intros b E. injection E as <-. apply Hb, (proj2 H1), EA. }
    assert (H3 : BlobsOk K (upd_f2 (upd_closed (upd_active s1 (Some b')) c') f)).
    { apply BlobsOk_upd_f2, BlobsOk_upd_closed; [exact H2|]. apply Hok, (proj1 H2). }
    destruct (0 <? nc); cbn [fst]; [apply BlobsOk_request_dump, H3|exact H3].
  - cbn [negb].
    destruct (delete_in_closed K (s_closed s1) mk) as [[c' nc] f] eqn:D.
    destruct (delete_in_closed_spec _ _ _ _ _ D) as (Hf & Hid & Hok).
    assert (H3 : BlobsOk K (upd_f2 (upd_closed s1 c') f)).
    { apply BlobsOk_upd_f2, BlobsOk_upd_closed; [exact H1|]. apply Hok, (proj1 H1). }
    destruct (0 <? nc); cbn [fst]; [apply BlobsOk_request_dump, H3|exact H3].
Qed.

Theorem init_BlobsOk : BlobsOk K init_storage.
Proof. split; cbn [s_closed s_active init_storage]; [intros b []|discriminate]. Qed.

Theorem step_BlobsOk : forall s o,
  BlobsOk K s -> s_f2 (fst (step K cfg s o)) = false -> BlobsOk K (fst (step K cfg s o)).
Proof.
  intros s o H. unfold step. destruct (needs_open o && negb (s_open s)); [intros _; exact H|].
  destruct o; try (intros _; exact H).
  - apply do_write_BlobsOk, H.
  - intros _. apply do_delete_BlobsOk, H.
  - intros _. pose proof (BlobsOk_close_active s H) as H1. destruct (close_active s) as [s' e].
    cbn [fst] in *. apply BlobsOk_request_dump, H1.
  - intros _. pose proof (BlobsOk_create_active s H) as H1. destruct (create_active s) as [s' e]. exact H1.
  - intros _. pose proof (BlobsOk_restore_active s H) as H1. destruct (restore_active K s) as [s' e]. exact H1.
  - intros _. cbn [fst]. apply BlobsOk_request_dump, BlobsOk_worker; [apply BlobsOk_close_active|exact H].
  - intros _. cbn [fst]. apply BlobsOk_worker; [apply BlobsOk_create_active|exact H].
  - intros _. cbn [fst]. apply BlobsOk_worker; [apply BlobsOk_restore_active|exact H].
  - intros _. cbn [fst]. apply BlobsOk_request_dump.
    destruct (s_alive s && eval_pred pred s); [apply BlobsOk_replace_active, H|exact H].
  - intros _. cbn [fst]. apply BlobsOk_request_dump, H.
  - intros _. cbn [fst]. apply quiesce_BlobsOk, H.
  - intros _. cbn [fst]. apply BlobsOk_closed_state. intros b Hb. unfold do_close in Hb.
    apply in_app_or in Hb. destruct Hb as [Hb|Hb]; [apply (BlobsOk_closed_blobs s b H Hb)|].
    destruct (s_active s) as [a|] eqn:EA; [|destruct Hb]. destruct Hb as [<-|[]].
    apply blob_dump_ok, (proj2 H), EA.
  - intros _. cbn [fst]. apply BlobsOk_closed_state. intros b Hb.
    apply in_app_or in Hb. destruct Hb as [Hb|Hb]; [apply (BlobsOk_closed_blobs s b H Hb)|].
    destruct (s_active s) as [a|] eqn:EA; [|destruct Hb]. destruct Hb as [<-|[]].
    apply (proj2 H), EA.
  - intros _. destruct (s_open s); cbn [fst]; [exact H|].
    apply BlobsOk_do_open. intros b Hb. apply (BlobsOk_closed_blobs s b H Hb).
  - intros _. cbn [fst]. apply BlobsOk_upd_closed; [exact H|].
    intros b Hb. apply in_map_iff in Hb. destruct Hb as ([x|] & Hx & Hin); [|discriminate].
    injection Hx as <-. destruct (b_id x =? id); [apply rm_index_ok|]; apply (proj1 H), Hin.
  - intros _. cbn [fst]. apply BlobsOk_do_cut, H.
Qed.

(* ---------- the ghost flag ---------- *)
Lemma f2_request_dump s : s_f2 (request_dump s) = s_f2 s.
Proof. unfold request_dump. destruct (s_alive s); reflexivity. Qed.

Lemma f2_ensure_active s : s_f2 (ensure_active s) = s_f2 s.
Proof. unfold ensure_active. destruct (s_active s); reflexivity. Qed.

Lemma f2_close_active s : s_f2 (fst (close_active s)) = s_f2 s.
Proof. unfold close_active. destruct (s_active s); reflexivity. Qed.

Lemma f2_create_active s : s_f2 (fst (create_active s)) = s_f2 s.
Proof. unfold create_active. destruct (s_active s); [reflexivity|apply f2_ensure_active]. Qed.

Lemma f2_restore_active s : s_f2 (fst (restore_active K s)) = s_f2 s.
Proof.
  unfold restore_active. destruct (s_active s); [reflexivity|].
  destruct (pop_last (s_closed s)) as [[b c]|]; reflexivity.
Qed.

Lemma f2_worker s f : (forall s, s_f2 (fst (f s)) = s_f2 s) -> s_f2 (worker s f) = s_f2 s.
Proof.
  intros Hf. unfold worker. destruct (s_alive s); [|reflexivity].
  specialize (Hf s). destruct (f s) as [s' [e|]]; exact Hf.
Qed.

Lemma f2_replace_active s : s_f2 (replace_active s) = s_f2 s.
Proof. reflexivity. Qed.

Lemma f2_maybe_rotate s : s_f2 (maybe_rotate K cfg s) = s_f2 s.
Proof.
  unfold maybe_rotate. destruct (s_active s) as [a|]; [|reflexivity].
  destruct (blob_full K cfg a && s_aged s && s_alive s); [|reflexivity].
  rewrite f2_request_dump. reflexivity.
Qed.

Theorem f2_quiesce : forall s, s_f2 (quiesce K s) = s_f2 s.
Proof. intros s. unfold quiesce. destruct (s_alive s && s_dump_req s); reflexivity. Qed.

Lemma f2_do_write s k ts meta msize dlen dseed :
  s_f2 s = true -> s_f2 (fst (do_write K cfg s k ts meta msize dlen dseed)) = true.
Proof.
  intros H. unfold do_write. rewrite <- f2_ensure_active in H.
  set (s1 := ensure_active s) in *. clearbody s1.
  destruct (negb (c_dup cfg) && is_found (get_latest_entry s1 k meta)); cbn [fst]; [exact H|].
  destruct (s_active s1) as [a|] eqn:EA; cbn [fst]; [|exact H].
  destruct (blob_append a (mk_rec k ts false meta msize dlen dseed)) as [b' ok].
  destruct ok; cbn [fst].
  - rewrite f2_maybe_rotate. exact H.
  - cbn [s_f2 upd_f2]. apply orb_true_r.
Qed.

Lemma f2_do_delete s k ts meta msize oip :
  s_f2 s = true -> s_f2 (fst (do_delete K s k ts meta msize oip)) = true.
Proof.
  intros H. unfold do_delete.
  assert (H1 : s_f2 (if oip then s else ensure_active s) = true).
  { destruct oip; [exact H|rewrite f2_ensure_active; exact H]. }
  set (s1 := if oip then s else ensure_active s) in *. clearbody s1.
  set (mk := mk_rec k ts true meta msize 0 0).
  destruct (s_active s1) as [a|] eqn:EA.
  - destruct (blob_delete K a mk oip) as [[b' d] ok].
    destruct (negb ok); cbn [fst]; [cbn [s_f2 upd_f2]; apply orb_true_r|].
    destruct (delete_in_closed K (s_closed (upd_active s1 (Some b'))) mk) as [[c' nc] f].
    destruct (0 <? nc); cbn [fst]; [rewrite f2_request_dump|]; cbn [s_f2 upd_f2 upd_closed upd_active];
      rewrite H1; reflexivity.
  - cbn [negb]. destruct (delete_in_closed K (s_closed s1) mk) as [[c' nc] f].
    destruct (0 <? nc); cbn [fst]; [rewrite f2_request_dump|]; cbn [s_f2 upd_f2 upd_closed];
      rewrite H1; reflexivity.
Qed.

Theorem f2_monotone_step : forall s o, s_f2 s = true -> s_f2 (fst (step K cfg s o)) = true.
Proof.
  intros s o H. unfold step. destruct (needs_open o && negb (s_open s)); [exact H|].
  destruct o; try exact H.
  - apply f2_do_write, H.
  - apply f2_do_delete, H.
  - pose proof (f2_close_active s) as H1. destruct (close_active s) as [s' e].
    cbn [fst] in *. rewrite f2_request_dump, H1. exact H.
  - pose proof (f2_create_active s) as H1. destruct (create_active s) as [s' e].
    cbn [fst] in *. rewrite H1. exact H.
  - pose proof (f2_restore_active s) as H1. destruct (restore_active K s) as [s' e].
    cbn [fst] in *. rewrite H1. exact H.
  - cbn [fst]. rewrite f2_request_dump, f2_worker by apply f2_close_active. exact H.
  - cbn [fst]. rewrite f2_worker by apply f2_create_active. exact H.
  - cbn [fst]. rewrite f2_worker by apply f2_restore_active. exact H.
  - cbn [fst]. rewrite f2_request_dump. destruct (s_alive s && eval_pred pred s); exact H.
  - cbn [fst]. rewrite f2_request_dump. exact H.
  - cbn [fst]. rewrite f2_quiesce. exact H.
  - destruct (s_open s); cbn [fst]; [exact H|].
    rewrite f2_do_open. exact H.
  - cbn [fst]. rewrite f2_do_cut. exact H.
Qed.

Lemma f2_monotone_step_q s o : s_f2 s = true -> s_f2 (fst (step_q K cfg s o)) = true.
Proof.
  intros H. unfold step_q. pose proof (f2_monotone_step s o H) as H1.
  destruct (step K cfg s o) as [s' r]. cbn [fst] in *. rewrite f2_quiesce. exact H1.
Qed.

Lemma f2_monotone_run ops : forall s, s_f2 s = true -> s_f2 (fst (run K cfg s ops)) = true.
Proof.
  induction ops as [|o ops IH]; intros s H; cbn [run]; [exact H|].
  pose proof (f2_monotone_step_q s o H) as H1. destruct (step_q K cfg s o) as [s' x].
  cbn [fst] in H1. specialize (IH s' H1). destruct (run K cfg s' ops) as [s'' xs]. exact IH.
Qed.

Theorem run_BlobsOk : forall ops s,
  BlobsOk K s -> s_f2 (fst (run K cfg s ops)) = false -> BlobsOk K (fst (run K cfg s ops)).
Proof.
  induction ops as [|o ops IH]; intros s H F; cbn [run] in *; [exact H|].
  unfold step_q in *. pose proof (step_BlobsOk s o H) as H1.
  destruct (step K cfg s o) as [s' x]. cbn [fst] in H1.
  specialize (IH (quiesce K s')). pose proof (f2_monotone_run ops (quiesce K s')) as HM.
  destruct (run K cfg (quiesce K s') ops) as [s'' xs]. cbn [fst] in *.
  rewrite f2_quiesce in HM.
  assert (F1 : s_f2 s' = false).
  { destruct (s_f2 s'); [|reflexivity]. rewrite HM in F by reflexivity. discriminate. }
  apply IH; [|exact F]. apply quiesce_BlobsOk, H1, F1.
Qed.

(* ---------- ids ---------- *)
Definition ids (s : storage) : list N := map b_id (blobs_in_order s).

Lemma ids_eq s :
  ids s = map b_id (cb (s_closed s)) ++ match s_active s with Some b => [b_id b] | None => [] end.
Proof. unfold ids, blobs_in_order. rewrite map_app, closed_blobs_cb. destruct (s_active s); reflexivity. Qed.

(* the quarantine fields, which no operation of a session touches *)
Definition qf (s : storage) : list N * list N * N := (s_quar s, s_bad s, s_corrupted s).

(* the form used for open storages: the bounds hold unconditionally *)
Definition QuarS (s : storage) : Prop :=
  (forall q, In q (s_quar s) -> q < s_next s) /\ (forall i, In i (ids s) -> ~ In i (s_quar s)) /\
  s_bad s = [] /\ s_corrupted s = N.of_nat (length (s_quar s)).

Definition IdsOkS (s : storage) : Prop :=
  increasing (ids s) /\ (forall i, In i (ids s) -> i < s_next s) /\ QuarS s.

Lemma IdsOk_iff s :
  IdsOk s <-> increasing (ids s) /\ (s_open s = true -> forall i, In i (ids s) -> i < s_next s) /\
              (s_open s = true -> forall q, In q (s_quar s) -> q < s_next s) /\
              (forall i, In i (ids s) -> ~ In i (s_quar s)) /\
              (s_open s = true -> s_bad s = []) /\ s_corrupted s = N.of_nat (length (s_quar s)).
Proof.
  unfold IdsOk, QuarOk, ids. split; intros (H1 & H2 & H3 & H4 & H5 & H6);
    (split; [exact H1|]); (split; [|split; [exact H3|split; [|split; [exact H5|exact H6]]]]).
  - intros Ho i Hi. apply in_map_iff in Hi. destruct Hi as (b & <- & Hb). apply H2; assumption.
  - intros i Hi. apply in_map_iff in Hi. destruct Hi as (b & <- & Hb). apply H4, Hb.
  - intros Ho b Hb. apply H2; [exact Ho|]. apply in_map. exact Hb.
  - intros b Hb. apply H4. apply in_map. exact Hb.
Qed.

Lemma IdsOkS_IdsOk s : IdsOkS s -> IdsOk s.
Proof.
  intros (H1 & H2 & H3 & H4 & H5 & H6). apply IdsOk_iff. split; [exact H1|]. split; [intros _; exact H2|].
  split; [intros _; exact H3|]. split; [exact H4|]. split; [intros _; exact H5|exact H6].
Qed.

Lemma IdsOk_IdsOkS s : IdsOk s -> s_open s = true -> IdsOkS s.
Proof.
  intros H Ho. apply IdsOk_iff in H. destruct H as (H1 & H2 & H3 & H4 & H5 & H6).
  split; [exact H1|]. split; [apply H2, Ho|]. split; [apply H3, Ho|]. split; [exact H4|]. split; [apply H5, Ho|exact H6].
Qed.

Lemma qf_inv s s' : qf s' = qf s -> s_quar s' = s_quar s /\ s_bad s' = s_bad s /\ s_corrupted s' = s_corrupted s.
Proof. unfold qf. intros E. injection E as E1 E2 E3. auto. Qed.

Lemma IdsOk_same s s' :
  ids s' = ids s -> s_next s' = s_next s -> s_open s' = s_open s -> qf s' = qf s -> IdsOk s -> IdsOk s'.
Proof.
  intros Hi Hn Ho Hq H. apply qf_inv in Hq. destruct Hq as (Hq1 & Hq2 & Hq3).
  apply IdsOk_iff in H. apply IdsOk_iff. rewrite Hi, Hn, Ho, Hq1, Hq2, Hq3. exact H.
Qed.

Lemma IdsOkS_same s s' : ids s' = ids s -> s_next s' = s_next s -> qf s' = qf s -> IdsOkS s -> IdsOkS s'.
Proof.
  unfold IdsOkS, QuarS. intros Hi Hn Hq. apply qf_inv in Hq. destruct Hq as (Hq1 & Hq2 & Hq3).
  rewrite Hi, Hn, Hq1, Hq2, Hq3. auto.
Qed.

Lemma IdsOkS_ext s s' :
  s_closed s' = s_closed s -> s_active s' = s_active s -> s_next s' = s_next s -> qf s' = qf s -> IdsOkS s -> IdsOkS s'.
Proof. intros Hc Ha Hn Hq. apply IdsOkS_same; [|exact Hn|exact Hq]. rewrite !ids_eq, Hc, Ha. reflexivity. Qed.

Lemma IdsOkS_grow s s' :
  ids s' = ids s ++ [s_next s] -> s_next s' = s_next s + 1 -> qf s' = qf s -> IdsOkS s -> IdsOkS s'.
Proof.
  unfold IdsOkS, QuarS. intros Hi Hn Hq. apply qf_inv in Hq. destruct Hq as (Hq1 & Hq2 & Hq3).
  rewrite Hi, Hn, Hq1, Hq2, Hq3. intros (H1 & H2 & H3 & H4 & H5 & H6). split; [|split; [|split; [|split; [|split]]]].
  - apply increasing_snoc; assumption.
  - intros i Hin. apply in_app_or in Hin. destruct Hin as [Hin|[<-|[]]]; [specialize (H2 i Hin)|]; lia.
  - intros q Hq. specialize (H3 q Hq). lia.
  - intros i Hin Hq. apply in_app_or in Hin. destruct Hin as [Hin|[<-|[]]]; [exact (H4 i Hin Hq)|].
    specialize (H3 _ Hq). lia.
  - exact H5.
  - exact H6.
Qed.

Lemma IdsOkS_ensure_active s : IdsOkS s -> IdsOkS (ensure_active s).
Proof.
  unfold ensure_active. destruct (s_active s) as [a|] eqn:E; [auto|].
  apply IdsOkS_grow; [|reflexivity|reflexivity]. rewrite !ids_eq, E. cbn [s_closed s_active new_blob b_id].
  rewrite app_nil_r. reflexivity.
Qed.

Lemma IdsOkS_request_dump s : IdsOkS s -> IdsOkS (request_dump s).
Proof. unfold request_dump. destruct (s_alive s); [|auto]. apply IdsOkS_ext; reflexivity. Qed.

Lemma ids_push_closed s a :
  s_active s = Some a -> ids (push_closed (upd_active s None) a) = ids s.
Proof.
  intros E. rewrite !ids_eq, E. cbn [push_closed upd_closed upd_active s_closed s_active].
  rewrite cb_app, map_app, app_nil_r. reflexivity.
Qed.

Lemma IdsOkS_close_active s : IdsOkS s -> IdsOkS (fst (close_active s)).
Proof.
  unfold close_active. destruct (s_active s) as [a|] eqn:E; cbn [fst]; [|auto].
  apply IdsOkS_same; [apply ids_push_closed, E|reflexivity|reflexivity].
Qed.

Lemma IdsOkS_create_active s : IdsOkS s -> IdsOkS (fst (create_active s)).
Proof.
  unfold create_active. destruct (s_active s) as [a|] eqn:E; cbn [fst]; [auto|]. apply IdsOkS_ensure_active.
Qed.

Lemma IdsOkS_restore_active s : IdsOkS s -> IdsOkS (fst (restore_active K s)).
Proof.
  unfold restore_active. destruct (s_active s) as [a|] eqn:E; cbn [fst]; [auto|].
  destruct (pop_last (s_closed s)) as [[b c]|] eqn:P; cbn [fst]; [|auto].
  apply IdsOkS_same; [|reflexivity|reflexivity]. rewrite !ids_eq, E. cbn [upd_closed upd_active s_closed s_active].
  rewrite (pop_last_cb _ _ _ P), map_app, app_nil_r. cbn [map]. rewrite blob_load_index_id. reflexivity.
Qed.

Lemma IdsOkS_worker s f :
  (forall s, IdsOkS s -> IdsOkS (fst (f s))) -> IdsOkS s -> IdsOkS (worker s f).
Proof.
  intros Hf H. unfold worker. destruct (s_alive s); [|exact H].
  specialize (Hf s H). destruct (f s) as [s' [e|]]; cbn [fst] in Hf; [|exact Hf].
  revert Hf. apply IdsOkS_ext; reflexivity.
Qed.

Lemma IdsOkS_replace_active s : IdsOkS s -> IdsOkS (replace_active s).
Proof.
  apply IdsOkS_grow; [|reflexivity|reflexivity]. unfold replace_active. rewrite !ids_eq.
  cbn [s_closed s_active new_blob b_id]. destruct (s_active s) as [a|].
  - cbn [push_closed upd_closed s_closed]. rewrite cb_app, map_app. reflexivity.
  - rewrite app_nil_r. reflexivity.
Qed.

Lemma IdsOkS_maybe_rotate s : IdsOkS s -> IdsOkS (maybe_rotate K cfg s).
Proof.
  intros H. unfold maybe_rotate. destruct (s_active s) as [a|]; [|exact H].
  destruct (blob_full K cfg a && s_aged s && s_alive s); [|exact H].
  apply IdsOkS_request_dump, IdsOkS_replace_active, H.
Qed.

Lemma IdsOkS_upd_active s a b' :
  s_active s = Some a -> b_id b' = b_id a -> IdsOkS s -> IdsOkS (upd_active s (Some b')).
Proof.
  intros E Hi. apply IdsOkS_same; [|reflexivity|reflexivity]. rewrite !ids_eq, E.
  cbn [upd_active s_closed s_active]. rewrite Hi. reflexivity.
Qed.

Lemma do_write_IdsOkS s k ts meta msize dlen dseed :
  IdsOkS s -> IdsOkS (fst (do_write K cfg s k ts meta msize dlen dseed)).
Proof.
  intros H. unfold do_write. pose proof (IdsOkS_ensure_active s H) as H1.
  set (s1 := ensure_active s) in *. clearbody s1.
  destruct (negb (c_dup cfg) && is_found (get_latest_entry s1 k meta)); cbn [fst]; [exact H1|].
  destruct (s_active s1) as [a|] eqn:EA; cbn [fst]; [|exact H1].
  pose proof (blob_append_id a (mk_rec k ts false meta msize dlen dseed)) as Hid.
  destruct (blob_append a (mk_rec k ts false meta msize dlen dseed)) as [b' ok]. cbn [fst] in Hid.
  pose proof (IdsOkS_upd_active s1 a b' EA Hid H1) as H2.
  destruct ok; cbn [fst].
  - apply IdsOkS_maybe_rotate, H2.
  - revert H2. apply IdsOkS_ext; reflexivity.
Qed.

Lemma IdsOkS_upd_closed s c :
  map b_id (cb c) = map b_id (cb (s_closed s)) -> IdsOkS s -> IdsOkS (upd_closed s c).
Proof.
  intros Hc. apply IdsOkS_same; [|reflexivity|reflexivity]. rewrite !ids_eq. cbn [upd_closed s_closed s_active].
  rewrite Hc. reflexivity.
Qed.

Lemma do_delete_IdsOkS s k ts meta msize oip :
  IdsOkS s -> IdsOkS (fst (do_delete K s k ts meta msize oip)).
Proof.
  intros H. unfold do_delete.
  assert (H1 : IdsOkS (if oip then s else ensure_active s)).
  { destruct oip; [exact H|apply IdsOkS_ensure_active, H]. }
  set (s1 := if oip then s else ensure_active s) in *. clearbody s1.
  set (mk := mk_rec k ts true meta msize 0 0).
  destruct (s_active s1) as [a|] eqn:EA.
  - destruct (blob_delete K a mk oip) as [[b' d] ok] eqn:B.
    destruct (blob_delete_spec _ _ _ _ _ _ B) as (Hk & Hi & Hb). subst ok. cbn [negb].
    pose proof (IdsOkS_upd_active s1 a b' EA Hi H1) as H2.
    destruct (delete_in_closed K (s_closed (upd_active s1 (Some b'))) mk) as [[c' nc] f] eqn:D.
    destruct (delete_in_closed_spec _ _ _ _ _ D) as (Hf & Hid & Hok).
    assert (H3 : IdsOkS (upd_f2 (upd_closed (upd_active s1 (Some b')) c') f)).
    { generalize (IdsOkS_upd_closed _ c' Hid H2). apply IdsOkS_ext; reflexivity. }
    destruct (0 <? nc); cbn [fst]; [apply IdsOkS_request_dump, H3|exact H3].
  - cbn [negb].
    destruct (delete_in_closed K (s_closed s1) mk) as [[c' nc] f] eqn:D.
    destruct (delete_in_closed_spec _ _ _ _ _ D) as (Hf & Hid & Hok).
    assert (H3 : IdsOkS (upd_f2 (upd_closed s1 c') f)).
    { generalize (IdsOkS_upd_closed _ c' Hid H1). apply IdsOkS_ext; reflexivity. }
    destruct (0 <? nc); cbn [fst]; [apply IdsOkS_request_dump, H3|exact H3].
Qed.

Lemma ids_dump_all_closed s : ids (dump_all_closed K s) = ids s.
Proof.
  rewrite !ids_eq. unfold dump_all_closed. cbn [upd_closed s_closed s_active].
  rewrite cb_map_opt, (map_id_ext _ _ blob_dump_id). reflexivity.
Qed.

Lemma ids_quiesce s : ids (quiesce K s) = ids s.
Proof.
  unfold quiesce. destruct (s_alive s && s_dump_req s); [|reflexivity].
  rewrite <- (ids_dump_all_closed s). rewrite !ids_eq. reflexivity.
Qed.

Theorem quiesce_IdsOk : forall s, IdsOk s -> IdsOk (quiesce K s).
Proof.
  intros s. apply IdsOk_same; [apply ids_quiesce| | |];
    unfold quiesce; destruct (s_alive s && s_dump_req s); reflexivity.
Qed.

Lemma ids_closed_state files s : ids (closed_state files s) = map b_id files.
Proof. rewrite ids_eq. cbn [closed_state s_closed s_active]. rewrite cb_map_Some, app_nil_r. reflexivity. Qed.

Lemma increasing_closed s : increasing (ids s) -> increasing (map b_id (closed_blobs s)).
Proof. rewrite ids_eq, closed_blobs_cb. apply increasing_app_l. Qed.

(* what `open` makes of an id-ordered directory: the readable blobs, in the same order *)
Lemma in_good_files bad files b : In b (good_files bad files) <-> In b files /\ ~ In (b_id b) bad.
Proof.
  unfold good_files, is_bad. rewrite filter_In. split; intros [H1 H2]; (split; [exact H1|]).
  - intros Hb. apply negb_true_iff in H2. rewrite <- not_true_iff_false in H2. apply H2.
    apply existsb_exists. exists (b_id b). split; [exact Hb|apply N.eqb_refl].
  - apply negb_true_iff, not_true_iff_false. intros E. apply existsb_exists in E. destruct E as (x & Hx & E).
    apply N.eqb_eq in E. subst x. exact (H2 Hx).
Qed.

Lemma in_new_quar bad files q : In q (new_quar bad files) <-> exists b, In b files /\ b_id b = q /\ In q bad.
Proof.
  unfold new_quar, is_bad. rewrite in_map_iff. split.
  - intros (b & <- & Hb). apply filter_In in Hb. destruct Hb as [Hb E]. exists b. split; [exact Hb|]. split; [reflexivity|].
    apply existsb_exists in E. destruct E as (x & Hx & E). apply N.eqb_eq in E. subst x. exact Hx.
  - intros (b & Hb & <- & Hq). exists b. split; [reflexivity|]. apply filter_In. split; [exact Hb|].
    apply existsb_exists. exists (b_id b). split; [exact Hq|apply N.eqb_refl].
Qed.

Lemma do_open_order files bad quar c lazy f2 : increasing (map b_id files) -> good_files bad files <> [] ->
  map b_id (blobs_in_order (do_open K files bad quar c lazy f2)) = map b_id (good_files bad files) /\
  flat_map b_recs (blobs_in_order (do_open K files bad quar c lazy f2)) = flat_map b_recs (good_files bad files) /\
  s_next (do_open K files bad quar c lazy f2) = next_above (map b_id files ++ quar).
Proof.
  intros Hinc Hne. assert (Hf : files <> []) by (intros ->; apply Hne; reflexivity).
  rewrite do_open_nonempty by exact Hf.
  pose proof (increasing_filter (fun b => negb (is_bad bad b)) files Hinc) as Hg. fold (good_files bad files) in Hg.
  set (good := good_files bad files) in *.
  rewrite sort_by_id_increasing by (rewrite (map_id_ext _ _ blob_from_file_id); exact Hg).
  rewrite <- (map_id_ext _ good blob_from_file_id).
  rewrite <- (flat_map_recs_ext _ good blob_from_file_recs).
  assert (Hb : map (blob_from_file K) good <> []) by (destruct good; [contradiction|discriminate]).
  set (blobs := map (blob_from_file K) good) in *. clearbody blobs. cbv zeta.
  unfold blobs_in_order. rewrite !closed_blobs_cb.
  destruct lazy.
  - cbn [s_closed s_active s_next]. rewrite cb_map_some_f, !app_nil_r.
    rewrite (map_id_ext _ _ blob_dump_id), (flat_map_recs_ext _ _ blob_dump_recs). auto.
  - destruct (rev blobs) as [|last r] eqn:R.
    + exfalso. apply Hb. apply (f_equal (@rev blob)) in R. rewrite rev_involutive in R. exact R.
    + apply rev_cons_inv in R. cbn [s_closed s_active s_next]. rewrite cb_map_some_f. subst blobs.
      rewrite !map_app, !flat_map_app. cbn [map flat_map].
      rewrite (map_id_ext _ _ blob_dump_id), (flat_map_recs_ext _ _ blob_dump_recs).
      rewrite blob_load_index_id, blob_load_index_recs. auto.
Qed.

(* no readable file: a fresh active blob (init_new on an empty directory, eager init when every file was moved away),
   or nothing at all (init_lazy) *)
Definition fresh_on_open (files : list blob) (lazy : bool) : bool := match files with [] => true | _ => negb lazy end.

Lemma do_open_nogood files bad quar c lazy f2 : good_files bad files = [] ->
  blobs_in_order (do_open K files bad quar c lazy f2) =
    (if fresh_on_open files lazy then [new_blob (next_above (map b_id files ++ quar))] else []) /\
  s_next (do_open K files bad quar c lazy f2) =
    (if fresh_on_open files lazy then next_above (map b_id files ++ quar) + 1 else next_above (map b_id files ++ quar)).
Proof.
  intros Hg. destruct files as [|f0 fs] eqn:EF; [split; reflexivity|].
  rewrite <- EF in *. rewrite do_open_nonempty by (rewrite EF; discriminate). rewrite Hg.
  replace (fresh_on_open files lazy) with (negb lazy) by (rewrite EF; reflexivity).
  destruct lazy; split; reflexivity.
Qed.

Lemma do_open_quar files bad quar c lazy f2 :
  s_quar (do_open K files bad quar c lazy f2) = quar ++ new_quar bad files /\
  s_corrupted (do_open K files bad quar c lazy f2) = c + N.of_nat (length (new_quar bad files)) /\
  s_bad (do_open K files bad quar c lazy f2) = [].
Proof.
  destruct files as [|f0 fs] eqn:EF.
  - cbn [do_open s_quar s_corrupted s_bad new_quar filter map length]. rewrite app_nil_r, N.add_0_r. auto.
  - rewrite <- EF. rewrite do_open_nonempty by (rewrite EF; discriminate). cbv zeta.
    destruct lazy; [auto|]. destruct (rev (sort_by_id (map (blob_from_file K) (good_files bad files)))); auto.
Qed.

Lemma do_open_next_ge files bad quar c lazy f2 :
  next_above (map b_id files ++ quar) <= s_next (do_open K files bad quar c lazy f2).
Proof.
  destruct files as [|f0 fs] eqn:EF; [cbn [do_open s_next map app]; lia|].
  rewrite <- EF. rewrite do_open_nonempty by (rewrite EF; discriminate). cbv zeta.
  destruct lazy; [cbn [s_next]; lia|].
  destruct (rev (sort_by_id (map (blob_from_file K) (good_files bad files)))); cbn [s_next]; lia.
Qed.

Lemma do_open_IdsOkS files bad quar c lazy f2 :
  increasing (map b_id files) -> (forall b, In b files -> ~ In (b_id b) quar) -> c = N.of_nat (length quar) ->
  IdsOkS (do_open K files bad quar c lazy f2).
Proof.
  intros Hinc Hnq Hc.
  destruct (do_open_quar files bad quar c lazy f2) as (Eq & Ec & Eb).
  pose proof (do_open_next_ge files bad quar c lazy f2) as Hge.
  assert (Hsub : forall q, In q (quar ++ new_quar bad files) -> In q (map b_id files ++ quar)).
  { intros q Hq. apply in_or_app. apply in_app_or in Hq. destruct Hq as [Hq|Hq]; [right; exact Hq|left].
    apply in_new_quar in Hq. destruct Hq as (b & Hb & <- & _). apply in_map. exact Hb. }
  assert (HQ1 : forall q, In q (quar ++ new_quar bad files) -> q < s_next (do_open K files bad quar c lazy f2)).
  { intros q Hq. pose proof (next_above_bound _ _ (Hsub q Hq)). lia. }
  assert (HC : c + N.of_nat (length (new_quar bad files)) = N.of_nat (length (quar ++ new_quar bad files))).
  { rewrite app_length, Nat2N.inj_add, Hc. reflexivity. }
  unfold IdsOkS, QuarS. rewrite Eq, Ec, Eb. unfold ids.
  destruct (good_files bad files) as [|g0 gs] eqn:EG.
  - destruct (do_open_nogood files bad quar c lazy f2 EG) as [Hb Hn]. rewrite Hb.
    destruct (fresh_on_open files lazy); cbn [map new_blob b_id].
    + split; [split; exact I|]. split; [intros i [<-|[]]; lia|]. split; [exact HQ1|]. split; [|auto].
      intros i [<-|[]] Hq. pose proof (next_above_bound _ _ (Hsub _ Hq)). lia.
    + split; [exact I|]. split; [intros i []|]. split; [exact HQ1|]. split; [intros i []|auto].
  - assert (Hne : good_files bad files <> []) by (rewrite EG; discriminate).
    destruct (do_open_order files bad quar c lazy f2 Hinc Hne) as (Hi & _ & Hn). rewrite Hi.
    split; [apply (increasing_filter (fun b => negb (is_bad bad b)) files Hinc)|].
    split; [|split; [exact HQ1|split; [|auto]]].
    + intros i Hin. rewrite Hn. apply next_above_bound. apply in_or_app. left.
      apply in_map_iff in Hin. destruct Hin as (b & <- & Hb). apply in_map. apply in_good_files in Hb. apply Hb.
    + intros i Hin Hq. apply in_map_iff in Hin. destruct Hin as (b & <- & Hb). apply in_good_files in Hb.
      destruct Hb as [Hb Hnb]. apply in_app_or in Hq. destruct Hq as [Hq|Hq]; [exact (Hnq b Hb Hq)|].
      apply in_new_quar in Hq. destruct Hq as (b' & _ & _ & Hq). exact (Hnb Hq).
Qed.

Lemma ids_do_cut s id keep : ids (do_cut K s id keep) = ids s.
Proof.
  rewrite !ids_eq, active_do_cut, closed_do_cut. destruct keep as [j|]; [|reflexivity].
  destruct (s_open s); [reflexivity|]. rewrite cb_map_opt, (map_id_ext _ _ (cut_blob_id id j)). reflexivity.
Qed.

Lemma IdsOk_do_cut s id keep : IdsOk s -> IdsOk (do_cut K s id keep).
Proof.
  intros H. destruct (s_open s) eqn:EO; [unfold do_cut; rewrite EO; exact H|].
  apply IdsOk_iff in H. apply IdsOk_iff. destruct (quar_do_cut s id keep) as [Eq Ec].
  rewrite open_do_cut, EO, next_do_cut, Eq, Ec, ids_do_cut. destruct H as (H1 & H2 & H3 & H4 & H5 & H6).
  split; [exact H1|]. split; [discriminate|]. split; [discriminate|]. split; [exact H4|]. split; [discriminate|exact H6].
Qed.

Theorem init_IdsOk : IdsOk init_storage.
Proof.
  split; [exact I|]. split; [intros _ b []|]. split; [intros _ q []|]. split; [intros b []|]. split; reflexivity.
Qed.

Theorem step_IdsOk : forall s o, IdsOk s -> IdsOk (fst (step K cfg s o)).
Proof.
  intros s o H. unfold step. destruct (needs_open o && negb (s_open s)) eqn:EN; [exact H|].
  destruct o; try exact H.
  all: try (cbn [needs_open andb] in EN; apply negb_false_iff in EN; pose proof (IdsOk_IdsOkS s H EN) as HS).
  - apply IdsOkS_IdsOk, do_write_IdsOkS, HS.
  - apply IdsOkS_IdsOk, do_delete_IdsOkS, HS.
  - pose proof (IdsOkS_close_active s HS) as H1. destruct (close_active s) as [s' e].
    cbn [fst] in *. apply IdsOkS_IdsOk, IdsOkS_request_dump, H1.
  - pose proof (IdsOkS_create_active s HS) as H1. destruct (create_active s) as [s' e].
    cbn [fst] in *. apply IdsOkS_IdsOk, H1.
  - pose proof (IdsOkS_restore_active s HS) as H1. destruct (restore_active K s) as [s' e].
    cbn [fst] in *. apply IdsOkS_IdsOk, H1.
  - cbn [fst]. apply IdsOkS_IdsOk, IdsOkS_request_dump, IdsOkS_worker; [apply IdsOkS_close_active|exact HS].
  - cbn [fst]. apply IdsOkS_IdsOk, IdsOkS_worker; [apply IdsOkS_create_active|exact HS].
  - cbn [fst]. apply IdsOkS_IdsOk, IdsOkS_worker; [apply IdsOkS_restore_active|exact HS].
  - cbn [fst]. apply IdsOkS_IdsOk, IdsOkS_request_dump.
    destruct (s_alive s && eval_pred pred s); [apply IdsOkS_replace_active, HS|exact HS].
  - cbn [fst]. apply IdsOkS_IdsOk, IdsOkS_request_dump, HS.
  - cbn [fst]. apply quiesce_IdsOk, H.
  - cbn [fst]. apply IdsOkS_IdsOk. revert HS. apply IdsOkS_same; [|reflexivity|reflexivity].
    rewrite ids_closed_state, ids_eq. unfold do_close. rewrite map_app, closed_blobs_cb.
    destruct (s_active s) as [a|]; [|reflexivity]. cbn [map]. rewrite blob_dump_id. reflexivity.
  - cbn [fst]. apply IdsOkS_IdsOk. revert HS. apply IdsOkS_same; [|reflexivity|reflexivity].
    rewrite ids_closed_state, ids_eq. rewrite map_app, closed_blobs_cb.
    destruct (s_active s) as [a|]; reflexivity.
  - destruct (s_open s); cbn [fst]; [exact H|].
    apply IdsOk_iff in H. destruct H as (H1 & _ & _ & H4 & _ & H6).
    apply IdsOkS_IdsOk, do_open_IdsOkS; [apply increasing_closed, H1| |exact H6].
    intros b Hb. apply H4. rewrite ids_eq, <- closed_blobs_cb. apply in_or_app. left. apply in_map. exact Hb.
  - cbn [fst]. revert H. apply IdsOk_same; [|reflexivity|reflexivity|reflexivity].
    rewrite !ids_eq. cbn [upd_closed s_closed s_active]. rewrite cb_map_opt.
    rewrite map_id_ext; [reflexivity|]. intros b. destruct (b_id b =? id); reflexivity.
  - cbn [fst]. apply IdsOk_do_cut, H.
Qed.

Theorem run_IdsOk : forall ops s, IdsOk s -> IdsOk (fst (run K cfg s ops)).
Proof.
  induction ops as [|o ops IH]; intros s H; cbn [run]; [exact H|].
  unfold step_q. pose proof (step_IdsOk s o H) as H1. destruct (step K cfg s o) as [s' x]. cbn [fst] in H1.
  specialize (IH (quiesce K s') (quiesce_IdsOk s' H1)).
  destruct (run K cfg (quiesce K s') ops) as [s'' xs]. exact IH.
Qed.

(* ---------- the abstraction ---------- *)
Lemma abs_eq s :
  abs s = flat_map b_recs (cb (s_closed s)) ++ match s_active s with Some b => b_recs b | None => [] end.
Proof.
  unfold abs, blobs_in_order. rewrite flat_map_app, closed_blobs_cb.
  destruct (s_active s); [cbn [flat_map]; rewrite app_nil_r|]; reflexivity.
Qed.

Lemma abs_ext s s' : s_closed s' = s_closed s -> s_active s' = s_active s -> abs s' = abs s.
Proof. intros Hc Ha. rewrite !abs_eq, Hc, Ha. reflexivity. Qed.

Lemma abs_request_dump s : abs (request_dump s) = abs s.
Proof. unfold request_dump. destruct (s_alive s); reflexivity. Qed.

Lemma abs_ensure_active s : abs (ensure_active s) = abs s.
Proof.
  unfold ensure_active. destruct (s_active s) as [a|] eqn:E; [reflexivity|].
  rewrite !abs_eq, E. reflexivity.
Qed.

Lemma abs_close_active s : abs (fst (close_active s)) = abs s.
Proof.
  unfold close_active. destruct (s_active s) as [a|] eqn:E; cbn [fst]; [|reflexivity].
  rewrite !abs_eq, E. cbn [push_closed upd_closed upd_active s_closed s_active].
  rewrite cb_app, flat_map_app, app_nil_r. cbn [cb flat_map app]. rewrite !app_nil_r. reflexivity.
Qed.

Lemma abs_create_active s : abs (fst (create_active s)) = abs s.
Proof. unfold create_active. destruct (s_active s) as [a|]; [reflexivity|apply abs_ensure_active]. Qed.

Lemma abs_restore_active s : abs (fst (restore_active K s)) = abs s.
Proof.
  unfold restore_active. destruct (s_active s) as [a|] eqn:E; cbn [fst]; [reflexivity|].
  destruct (pop_last (s_closed s)) as [[b c]|] eqn:P; cbn [fst]; [|reflexivity].
  rewrite !abs_eq, E. cbn [upd_closed upd_active s_closed s_active].
  rewrite (pop_last_cb _ _ _ P), flat_map_app. cbn [flat_map]. rewrite !app_nil_r, blob_load_index_recs. reflexivity.
Qed.

Lemma abs_worker s f : (forall s, abs (fst (f s)) = abs s) -> abs (worker s f) = abs s.
Proof.
  intros Hf. unfold worker. destruct (s_alive s); [|reflexivity].
  specialize (Hf s). destruct (f s) as [s' [e|]]; exact Hf.
Qed.

Lemma abs_replace_active s : abs (replace_active s) = abs s.
Proof.
  unfold replace_active. rewrite !abs_eq. cbn [s_closed s_active new_blob b_recs].
  destruct (s_active s) as [a|].
  - cbn [push_closed upd_closed s_closed]. rewrite cb_app, flat_map_app. cbn [cb flat_map app].
    rewrite !app_nil_r. reflexivity.
  - reflexivity.
Qed.

Theorem quiesce_abs : forall s, abs (quiesce K s) = abs s.
Proof.
  intros s. unfold quiesce. destruct (s_alive s && s_dump_req s); [|reflexivity].
  rewrite !abs_eq. cbn [upd_dump_req dump_all_closed upd_closed s_closed s_active].
  rewrite cb_map_opt, (flat_map_recs_ext _ _ blob_dump_recs). reflexivity.
Qed.

Lemma abs_closed_state files s : abs (closed_state files s) = flat_map b_recs files.
Proof. rewrite abs_eq. cbn [closed_state s_closed s_active]. rewrite cb_map_Some, app_nil_r. reflexivity. Qed.

(* the operations that change the log: the two data operations of the storage, and damage done to a blob file by a crash *)
Definition is_data_op (o : op) : bool :=
  match o with OWrite _ _ _ _ _ _ | ODelete _ _ _ _ _ | OCut _ _ => true | _ => false end.

Lemma good_files_nil files : good_files [] files = files.
Proof. unfold good_files. induction files as [|x l IH]; [reflexivity|]. cbn [filter]. unfold is_bad at 1. cbn [existsb negb]. rewrite IH. reflexivity. Qed.

(* the log after `open`: the records of the readable files *)
Lemma do_open_recs files bad quar c lazy f2 : increasing (map b_id files) ->
  flat_map b_recs (blobs_in_order (do_open K files bad quar c lazy f2)) = flat_map b_recs (good_files bad files).
Proof.
  intros Hinc. destruct (good_files bad files) as [|g0 gs] eqn:EG.
  - destruct (do_open_nogood files bad quar c lazy f2 EG) as [Hb _]. rewrite Hb.
    destruct (fresh_on_open files lazy); reflexivity.
  - assert (Hne : good_files bad files <> []) by (rewrite EG; discriminate).
    destruct (do_open_order files bad quar c lazy f2 Hinc Hne) as (_ & Hr & _). rewrite Hr, EG. reflexivity.
Qed.

Lemma open_abs s lazy : IdsOk s -> NoActiveWhenClosed s -> s_open s = false ->
  abs (fst (step K cfg s (OOpen lazy))) = flat_map b_recs (good_files (s_bad s) (closed_blobs s)).
Proof.
  intros H HN EO. unfold step. cbn [needs_open andb]. rewrite EO. cbn [fst].
  apply IdsOk_iff in H. destruct H as [Hinc _]. apply increasing_closed in Hinc.
  apply do_open_recs, Hinc.
Qed.

(* everything but the data operations, crash damage and `open` *)
Lemma nondata_abs_noopen : forall s o, is_data_op o = false -> (forall l, o <> OOpen l) ->
  abs (fst (step K cfg s o)) = abs s.
Proof.
  intros s o Hd Hn. unfold step. destruct (needs_open o && negb (s_open s)); [reflexivity|].
  destruct o; try discriminate Hd; try reflexivity.
  - pose proof (abs_close_active s) as H1. destruct (close_active s) as [s' e].
    cbn [fst] in *. rewrite abs_request_dump. exact H1.
  - pose proof (abs_create_active s) as H1. destruct (create_active s) as [s' e]. exact H1.
  - pose proof (abs_restore_active s) as H1. destruct (restore_active K s) as [s' e]. exact H1.
  - cbn [fst]. rewrite abs_request_dump. apply abs_worker, abs_close_active.
  - cbn [fst]. apply abs_worker, abs_create_active.
  - cbn [fst]. apply abs_worker, abs_restore_active.
  - cbn [fst]. rewrite abs_request_dump.
    destruct (s_alive s && eval_pred pred s); [apply abs_replace_active|reflexivity].
  - cbn [fst]. apply abs_request_dump.
  - cbn [fst]. apply quiesce_abs.
  - cbn [fst]. rewrite abs_closed_state, abs_eq. unfold do_close. rewrite flat_map_app, closed_blobs_cb.
    destruct (s_active s) as [a|]; [|reflexivity]. cbn [flat_map]. rewrite blob_dump_recs, app_nil_r. reflexivity.
  - cbn [fst]. rewrite abs_closed_state, abs_eq. rewrite flat_map_app, closed_blobs_cb.
    destruct (s_active s) as [a|]; [|reflexivity]. cbn [flat_map]. rewrite app_nil_r. reflexivity.
  - exfalso. apply (Hn lazy). reflexivity.
  - cbn [fst]. rewrite !abs_eq. cbn [upd_closed s_closed s_active]. rewrite cb_map_opt.
    rewrite flat_map_recs_ext; [reflexivity|]. intros b. destruct (b_id b =? id); reflexivity.
Qed.

(* the log of the blob files that can be read back: what `open` makes the log *)
Definition readable_log (s : storage) : log := flat_map b_recs (good_files (s_bad s) (blobs_in_order s)).

Lemma readable_log_no_bad s : s_bad s = [] -> readable_log s = abs s.
Proof. intros HB. unfold readable_log. rewrite HB, good_files_nil. reflexivity. Qed.

(* see the header comment for the NoActiveWhenClosed hypothesis. After EVERY operation that is not a write, a delete or
   crash damage the log is as before -- except that `open` drops the records of the blob files a crash made unreadable
   (they are moved to the corrupted directory); while the storage is open there is no such file (IdsOk) *)
Theorem nondata_abs_gen : forall s o, is_data_op o = false -> IdsOk s -> NoActiveWhenClosed s ->
  abs (fst (step K cfg s o)) = match o with OOpen _ => readable_log s | _ => abs s end.
Proof.
  intros s o Hd H HN.
  assert (Hno : (forall l, o <> OOpen l) -> abs (fst (step K cfg s o)) = abs s) by (apply nondata_abs_noopen, Hd).
  destruct o; try (apply Hno; discriminate).
  destruct (s_open s) eqn:EO.
  - rewrite readable_log_no_bad by (apply H, EO). unfold step. cbn [needs_open andb]. rewrite EO. reflexivity.
  - rewrite (open_abs s lazy H HN EO). unfold readable_log, blobs_in_order. rewrite (HN EO), app_nil_r. reflexivity.
Qed.

(* `s_bad s = []`: no blob file of the directory was made unreadable by a crash since the last start (always so while
   the storage is open) *)
Theorem nondata_abs : forall s o, is_data_op o = false -> IdsOk s -> NoActiveWhenClosed s -> s_bad s = [] ->
  abs (fst (step K cfg s o)) = abs s.
Proof.
  intros s o Hd H HN HB. rewrite (nondata_abs_gen s o Hd H HN). rewrite (readable_log_no_bad s HB).
  destruct o; reflexivity.
Qed.

(* ---------- why nondata_abs needs NoActiveWhenClosed ---------- *)
Definition r0 : rec := mk_rec 0 0 false None 0 0 0.
Definition cex_blob : blob :=
  {| b_id := 0; b_recs := [r0]; b_idx := index_of [r0]; b_ondisk := false; b_idxfile := None |}.
Definition cex_closed : storage :=
  {| s_active := Some cex_blob; s_closed := []; s_next := 1; s_corrupted := 0; s_alive := false;
     s_dump_req := false; s_aged := false; s_open := false; s_f2 := false; s_bad := []; s_quar := [] |}.

Lemma cex_blob_ok : blob_ok K cex_blob.
Proof. split; [reflexivity|exact I]. Qed.

(* IdsOk and BlobsOk do not say that a closed storage has no active blob; on such a state OOpen
   loses the records of the active blob (the state is not reachable: run_NoActiveWhenClosed) *)
Lemma nondata_abs_needs_NoActiveWhenClosed :
  IdsOk cex_closed /\ BlobsOk K cex_closed /\ s_open cex_closed = false /\
  abs (fst (step K cfg cex_closed (OOpen false))) <> abs cex_closed.
Proof.
  split; [|split; [|split]].
  - split; [split; exact I|]. split; [intros Ho; discriminate Ho|]. split; [intros Ho; discriminate Ho|].
    split; [intros b _ []|]. split; reflexivity.
  - split; [intros b []|]. intros b E. injection E as <-. apply cex_blob_ok.
  - reflexivity.
  - assert (E1 : abs (fst (step K cfg cex_closed (OOpen false))) = []) by reflexivity.
    assert (E2 : abs cex_closed = [r0]) by reflexivity.
    rewrite E1, E2. discriminate.
Qed.

(* ---------- a closed storage has no active blob ---------- *)
Lemma open_request_dump s : s_open (request_dump s) = s_open s.
Proof. unfold request_dump. destruct (s_alive s); reflexivity. Qed.

Lemma open_ensure_active s : s_open (ensure_active s) = s_open s.
Proof. unfold ensure_active. destruct (s_active s); reflexivity. Qed.

Lemma open_close_active s : s_open (fst (close_active s)) = s_open s.
Proof. unfold close_active. destruct (s_active s); reflexivity. Qed.

Lemma open_create_active s : s_open (fst (create_active s)) = s_open s.
Proof. unfold create_active. destruct (s_active s); [reflexivity|apply open_ensure_active]. Qed.

Lemma open_restore_active s : s_open (fst (restore_active K s)) = s_open s.
Proof.
  unfold restore_active. destruct (s_active s); [reflexivity|].
  destruct (pop_last (s_closed s)) as [[b c]|]; reflexivity.
Qed.

Lemma open_worker s f : (forall s, s_open (fst (f s)) = s_open s) -> s_open (worker s f) = s_open s.
Proof.
  intros Hf. unfold worker. destruct (s_alive s); [|reflexivity].
  specialize (Hf s). destruct (f s) as [s' [e|]]; exact Hf.
Qed.

Lemma open_maybe_rotate s : s_open (maybe_rotate K cfg s) = s_open s.
Proof.
  unfold maybe_rotate. destruct (s_active s) as [a|]; [|reflexivity].
  destruct (blob_full K cfg a && s_aged s && s_alive s); [|reflexivity].
  rewrite open_request_dump. reflexivity.
Qed.

Lemma open_quiesce s : s_open (quiesce K s) = s_open s.
Proof. unfold quiesce. destruct (s_alive s && s_dump_req s); reflexivity. Qed.

Lemma open_do_write s k ts meta msize dlen dseed :
  s_open (fst (do_write K cfg s k ts meta msize dlen dseed)) = s_open s.
Proof.
  unfold do_write. rewrite <- (open_ensure_active s).
  set (s1 := ensure_active s). clearbody s1.
  destruct (negb (c_dup cfg) && is_found (get_latest_entry s1 k meta)); cbn [fst]; [reflexivity|].
  destruct (s_active s1) as [a|]; cbn [fst]; [|reflexivity].
  destruct (blob_append a (mk_rec k ts false meta msize dlen dseed)) as [b' ok].
  destruct ok; cbn [fst]; [rewrite open_maybe_rotate|]; reflexivity.
Qed.

Lemma open_do_delete s k ts meta msize oip :
  s_open (fst (do_delete K s k ts meta msize oip)) = s_open s.
Proof.
  unfold do_delete.
  assert (H1 : s_open (if oip then s else ensure_active s) = s_open s).
  { destruct oip; [reflexivity|apply open_ensure_active]. }
  rewrite <- H1. set (s1 := if oip then s else ensure_active s). clearbody s1.
  set (mk := mk_rec k ts true meta msize 0 0).
  destruct (s_active s1) as [a|].
  - destruct (blob_delete K a mk oip) as [[b' d] ok].
    destruct (negb ok); cbn [fst]; [reflexivity|].
    destruct (delete_in_closed K (s_closed (upd_active s1 (Some b'))) mk) as [[c' nc] f].
    destruct (0 <? nc); cbn [fst]; [rewrite open_request_dump|]; reflexivity.
  - cbn [negb]. destruct (delete_in_closed K (s_closed s1) mk) as [[c' nc] f].
    destruct (0 <? nc); cbn [fst]; [rewrite open_request_dump|]; reflexivity.
Qed.

Theorem init_NoActiveWhenClosed : NoActiveWhenClosed init_storage.
Proof. intros _. reflexivity. Qed.

Theorem step_NoActiveWhenClosed : forall s o,
  NoActiveWhenClosed s -> NoActiveWhenClosed (fst (step K cfg s o)).
Proof.
  intros s o H. unfold step. destruct (needs_open o && negb (s_open s)) eqn:EN; [exact H|].
  destruct o; try exact H.
  all: try (cbn [needs_open andb] in EN; apply negb_false_iff in EN).
  all: try (intros _; reflexivity).
  all: try (cbn [fst]; intros Ho; rewrite open_do_cut in Ho; rewrite active_do_cut; exact (H Ho)).
  all: unfold NoActiveWhenClosed; intros Ho; exfalso.
  - rewrite open_do_write in Ho. congruence.
  - rewrite open_do_delete in Ho. congruence.
  - pose proof (open_close_active s) as H1. destruct (close_active s) as [s' e].
    cbn [fst] in *. rewrite open_request_dump in Ho. congruence.
  - pose proof (open_create_active s) as H1. destruct (create_active s) as [s' e].
    cbn [fst] in *. congruence.
  - pose proof (open_restore_active s) as H1. destruct (restore_active K s) as [s' e].
    cbn [fst] in *. congruence.
  - cbn [fst] in Ho. rewrite open_request_dump, open_worker in Ho by apply open_close_active. congruence.
  - cbn [fst] in Ho. rewrite open_worker in Ho by apply open_create_active. congruence.
  - cbn [fst] in Ho. rewrite open_worker in Ho by apply open_restore_active. congruence.
  - cbn [fst] in Ho. rewrite open_request_dump in Ho.
    destruct (s_alive s && eval_pred pred s); cbn [replace_active s_open] in Ho; congruence.
  - cbn [fst] in Ho. rewrite open_request_dump in Ho. congruence.
  - cbn [fst] in Ho. rewrite open_quiesce in Ho. congruence.
  - destruct (s_open s) eqn:EO; cbn [fst] in Ho; [congruence|].
    rewrite open_do_open in Ho. discriminate.
Qed.

Theorem quiesce_NoActiveWhenClosed : forall s, NoActiveWhenClosed s -> NoActiveWhenClosed (quiesce K s).
Proof. intros s H. unfold quiesce. destruct (s_alive s && s_dump_req s); exact H. Qed.

Theorem run_NoActiveWhenClosed : forall ops s,
  NoActiveWhenClosed s -> NoActiveWhenClosed (fst (run K cfg s ops)).
Proof.
  induction ops as [|o ops IH]; intros s H; cbn [run]; [exact H|].
  unfold step_q. pose proof (step_NoActiveWhenClosed s o H) as H1.
  destruct (step K cfg s o) as [s' x]. cbn [fst] in H1.
  specialize (IH (quiesce K s') (quiesce_NoActiveWhenClosed s' H1)).
  destruct (run K cfg (quiesce K s') ops) as [s'' xs]. exact IH.
Qed.

(* ---------- the quarantine fields are touched by `open` and by crash damage only ---------- *)
Lemma qf_request_dump s : qf (request_dump s) = qf s.
Proof. unfold request_dump. destruct (s_alive s); reflexivity. Qed.

Lemma qf_ensure_active s : qf (ensure_active s) = qf s.
Proof. unfold ensure_active. destruct (s_active s); reflexivity. Qed.

Lemma qf_close_active s : qf (fst (close_active s)) = qf s.
Proof. unfold close_active. destruct (s_active s); reflexivity. Qed.

Lemma qf_create_active s : qf (fst (create_active s)) = qf s.
Proof. unfold create_active. destruct (s_active s); [reflexivity|apply qf_ensure_active]. Qed.

Lemma qf_restore_active s : qf (fst (restore_active K s)) = qf s.
Proof.
  unfold restore_active. destruct (s_active s); [reflexivity|].
  destruct (pop_last (s_closed s)) as [[b c]|]; reflexivity.
Qed.

Lemma qf_worker s f : (forall s, qf (fst (f s)) = qf s) -> qf (worker s f) = qf s.
Proof.
  intros Hf. unfold worker. destruct (s_alive s); [|reflexivity].
  specialize (Hf s). destruct (f s) as [s' [e|]]; exact Hf.
Qed.

Lemma qf_maybe_rotate s : qf (maybe_rotate K cfg s) = qf s.
Proof.
  unfold maybe_rotate. destruct (s_active s) as [a|]; [|reflexivity].
  destruct (blob_full K cfg a && s_aged s && s_alive s); [|reflexivity].
  rewrite qf_request_dump. reflexivity.
Qed.

Lemma qf_quiesce s : qf (quiesce K s) = qf s.
Proof. unfold quiesce. destruct (s_alive s && s_dump_req s); reflexivity. Qed.

Lemma qf_do_write s k ts meta msize dlen dseed :
  qf (fst (do_write K cfg s k ts meta msize dlen dseed)) = qf s.
Proof.
  unfold do_write. rewrite <- (qf_ensure_active s).
  set (s1 := ensure_active s). clearbody s1.
  destruct (negb (c_dup cfg) && is_found (get_latest_entry s1 k meta)); cbn [fst]; [reflexivity|].
  destruct (s_active s1) as [a|]; cbn [fst]; [|reflexivity].
  destruct (blob_append a (mk_rec k ts false meta msize dlen dseed)) as [b' ok].
  destruct ok; cbn [fst]; [rewrite qf_maybe_rotate|]; reflexivity.
Qed.

Lemma qf_do_delete s k ts meta msize oip :
  qf (fst (do_delete K s k ts meta msize oip)) = qf s.
Proof.
  unfold do_delete.
  assert (H1 : qf (if oip then s else ensure_active s) = qf s).
  { destruct oip; [reflexivity|apply qf_ensure_active]. }
  rewrite <- H1. set (s1 := if oip then s else ensure_active s). clearbody s1.
  set (mk := mk_rec k ts true meta msize 0 0).
  destruct (s_active s1) as [a|].
  - destruct (blob_delete K a mk oip) as [[b' d] ok].
    destruct (negb ok); cbn [fst]; [reflexivity|].
    destruct (delete_in_closed K (s_closed (upd_active s1 (Some b'))) mk) as [[c' nc] f].
    destruct (0 <? nc); cbn [fst]; [rewrite qf_request_dump|]; reflexivity.
  - cbn [negb]. destruct (delete_in_closed K (s_closed s1) mk) as [[c' nc] f].
    destruct (0 <? nc); cbn [fst]; [rewrite qf_request_dump|]; reflexivity.
Qed.

Definition is_cut (o : op) : bool := match o with OCut _ _ => true | _ => false end.
Definition touches_quar (o : op) : bool := match o with OOpen _ | OCut _ _ => true | _ => false end.

Theorem qf_step : forall s o, touches_quar o = false -> qf (fst (step K cfg s o)) = qf s.
Proof.
  intros s o Ht. unfold step. destruct (needs_open o && negb (s_open s)); [reflexivity|].
  destruct o; try discriminate Ht; try reflexivity.
  - apply qf_do_write.
  - apply qf_do_delete.
  - pose proof (qf_close_active s) as H1. destruct (close_active s) as [s' e].
    cbn [fst] in *. rewrite qf_request_dump. exact H1.
  - pose proof (qf_create_active s) as H1. destruct (create_active s) as [s' e]. exact H1.
  - pose proof (qf_restore_active s) as H1. destruct (restore_active K s) as [s' e]. exact H1.
  - cbn [fst]. rewrite qf_request_dump. apply qf_worker, qf_close_active.
  - cbn [fst]. apply qf_worker, qf_create_active.
  - cbn [fst]. apply qf_worker, qf_restore_active.
  - cbn [fst]. rewrite qf_request_dump. destruct (s_alive s && eval_pred pred s); reflexivity.
  - cbn [fst]. apply qf_request_dump.
  - cbn [fst]. apply qf_quiesce.
Qed.

(* without crash damage no file becomes unreadable *)
Theorem bad_step : forall s o, is_cut o = false -> s_bad s = [] -> s_bad (fst (step K cfg s o)) = [].
Proof.
  intros s o Hc HB. destruct (touches_quar o) eqn:Ht.
  - destruct o; try discriminate Ht; try discriminate Hc.
    unfold step. cbn [needs_open andb]. destruct (s_open s); cbn [fst]; [exact HB|apply do_open_quar].
  - pose proof (qf_step s o Ht) as E. apply qf_inv in E. destruct E as (_ & E & _). rewrite E. exact HB.
Qed.

Theorem bad_step_q : forall s o, is_cut o = false -> s_bad s = [] -> s_bad (fst (step_q K cfg s o)) = [].
Proof.
  intros s o Hc HB. unfold step_q. pose proof (bad_step s o Hc HB) as H1.
  destruct (step K cfg s o) as [s' r]. cbn [fst] in *.
  pose proof (qf_quiesce s') as E. apply qf_inv in E. destruct E as (_ & E & _). rewrite E. exact H1.
Qed.

(* ---------- unreadable files appear only through a crash and disappear at the next open ---------- *)
Lemma step_stays_open s o : s_open s = true -> o <> OClose -> o <> ODrop -> s_open (fst (step K cfg s o)) = true.
Proof.
  intros Ho H1 H2. unfold step. rewrite Ho, andb_false_r.
  destruct o; cbn [fst]; try exact Ho; try contradiction.
  - rewrite open_do_write. exact Ho.
  - rewrite open_do_delete. exact Ho.
  - pose proof (open_close_active s) as E. destruct (close_active s) as [s' e]. cbn [fst] in *.
    rewrite open_request_dump, E. exact Ho.
  - pose proof (open_create_active s) as E. destruct (create_active s) as [s' e]. cbn [fst] in *. rewrite E. exact Ho.
  - pose proof (open_restore_active s) as E. destruct (restore_active K s) as [s' e]. cbn [fst] in *. rewrite E. exact Ho.
  - rewrite open_request_dump, open_worker by apply open_close_active. exact Ho.
  - rewrite open_worker by apply open_create_active. exact Ho.
  - rewrite open_worker by apply open_restore_active. exact Ho.
  - rewrite open_request_dump. destruct (s_alive s && eval_pred pred s); [cbn [replace_active s_open]|]; exact Ho.
  - rewrite open_request_dump. exact Ho.
  - rewrite open_quiesce. exact Ho.
  - rewrite open_do_cut. exact Ho.
Qed.

Lemma bad_quiesce s : s_bad (quiesce K s) = s_bad s.
Proof. unfold quiesce. destruct (s_alive s && s_dump_req s); reflexivity. Qed.

Lemma quar_quiesce s : s_quar (quiesce K s) = s_quar s /\ s_corrupted (quiesce K s) = s_corrupted s.
Proof. unfold quiesce. destruct (s_alive s && s_dump_req s); split; reflexivity. Qed.

Theorem bad_nil_step : forall s o, IdsOk s -> (forall id, o <> OCut id None) -> s_bad s = [] ->
  s_bad (fst (step K cfg s o)) = [].
Proof.
  intros s o H Hc HB. pose proof (step_IdsOk s o H) as HI. apply IdsOk_iff in HI.
  destruct HI as (_ & _ & _ & _ & H5 & _). destruct (s_open s) eqn:EO.
  - destruct o; try (apply H5, step_stays_open; [exact EO|discriminate|discriminate]);
      unfold step; rewrite EO; cbn [needs_open andb negb fst closed_state s_bad]; exact HB.
  - unfold step. rewrite EO. destruct o; cbn [needs_open andb negb fst]; try exact HB.
    + apply do_open_quar.
    + destruct keep as [j|]; [|exfalso; exact (Hc id eq_refl)]. unfold do_cut. rewrite EO. exact HB.
Qed.

Theorem bad_nil_step_q : forall s o, IdsOk s -> (forall id, o <> OCut id None) -> s_bad s = [] ->
  s_bad (fst (step_q K cfg s o)) = [].
Proof.
  intros s o H Hc HB. unfold step_q. pose proof (bad_nil_step s o H Hc HB) as H1.
  destruct (step K cfg s o) as [s' r]. cbn [fst] in *. rewrite bad_quiesce. exact H1.
Qed.

Theorem step_q_nondata_abs_gen : forall s o,
  is_data_op o = false -> IdsOk s -> NoActiveWhenClosed s ->
  abs (fst (step_q K cfg s o)) = match o with OOpen _ => readable_log s | _ => abs s end.
Proof.
  intros s o Hd H HN. unfold step_q. pose proof (nondata_abs_gen s o Hd H HN) as H1.
  destruct (step K cfg s o) as [s' r]. cbn [fst] in *. rewrite quiesce_abs. exact H1.
Qed.

Theorem step_q_nondata_abs : forall s o,
  is_data_op o = false -> IdsOk s -> NoActiveWhenClosed s -> s_bad s = [] -> abs (fst (step_q K cfg s o)) = abs s.
Proof.
  intros s o Hd H HN HB. unfold step_q. pose proof (nondata_abs s o Hd H HN HB) as H1.
  destruct (step K cfg s o) as [s' r]. cbn [fst] in *. rewrite quiesce_abs. exact H1.
Qed.

(* ---------- the combined invariant ---------- *)
Theorem init_Inv : Inv K init_storage.
Proof. split; [apply init_BlobsOk|]. split; [apply init_IdsOk|apply init_NoActiveWhenClosed]. Qed.

Theorem step_Inv : forall s o,
  Inv K s -> s_f2 (fst (step K cfg s o)) = false -> Inv K (fst (step K cfg s o)).
Proof.
  intros s o (HB & HI & HN) F. split; [apply step_BlobsOk; assumption|].
  split; [apply step_IdsOk, HI|apply step_NoActiveWhenClosed, HN].
Qed.

Theorem quiesce_Inv : forall s, Inv K s -> Inv K (quiesce K s).
Proof.
  intros s (HB & HI & HN). split; [apply quiesce_BlobsOk, HB|].
  split; [apply quiesce_IdsOk, HI|apply quiesce_NoActiveWhenClosed, HN].
Qed.

Theorem step_q_Inv : forall s o,
  Inv K s -> s_f2 (fst (step_q K cfg s o)) = false -> Inv K (fst (step_q K cfg s o)).
Proof.
  intros s o H. unfold step_q. pose proof (step_Inv s o H) as H1.
  destruct (step K cfg s o) as [s' r]. cbn [fst] in *. rewrite f2_quiesce. intros F.
  apply quiesce_Inv, H1, F.
Qed.

Theorem run_Inv : forall ops s,
  Inv K s -> s_f2 (fst (run K cfg s ops)) = false -> Inv K (fst (run K cfg s ops)).
Proof.
  induction ops as [|o ops IH]; intros s H F; cbn [run] in *; [exact H|].
  pose proof (step_q_Inv s o H) as H1. pose proof (f2_monotone_run ops (fst (step_q K cfg s o))) as HM.
  destruct (step_q K cfg s o) as [s' x]. cbn [fst] in *.
  specialize (IH s'). destruct (run K cfg s' ops) as [s'' xs]. cbn [fst] in *.
  assert (F1 : s_f2 s' = false).
  { destruct (s_f2 s'); [|reflexivity]. rewrite HM in F by reflexivity. discriminate. }
  apply IH; [apply H1, F1|exact F].
Qed.

(* ---------- the active blob's index is in memory: F2 is unreachable ---------- *)
(* Every place that installs an active blob installs one whose index is in memory: new_blob
   (ensure_active, replace_active, init_new), blob_load_index (eager open, restore_active -- the
   repair of F2 --, push_deletion_record); blob_append keeps the state of the index; close and drop
   leave no active blob; the background dump touches closed blobs only. *)
Definition ActiveInMemory (s : storage) : Prop := forall b, s_active s = Some b -> b_ondisk b = false.

Lemma aim_ext s s' : s_active s' = s_active s -> ActiveInMemory s -> ActiveInMemory s'.
Proof. unfold ActiveInMemory. intros ->. auto. Qed.

Lemma aim_none s : s_active s = None -> ActiveInMemory s.
Proof. intros E b Hb. rewrite E in Hb. discriminate. Qed.

Lemma aim_some s b : s_active s = Some b -> b_ondisk b = false -> ActiveInMemory s.
Proof. intros E D x Hx. rewrite E in Hx. injection Hx as <-. exact D. Qed.

Theorem init_ActiveInMemory : ActiveInMemory init_storage.
Proof. apply aim_none. reflexivity. Qed.

Lemma aim_request_dump s : ActiveInMemory s -> ActiveInMemory (request_dump s).
Proof. unfold request_dump. destruct (s_alive s); [|auto]. apply aim_ext; reflexivity. Qed.

Lemma aim_ensure_active s : ActiveInMemory s -> ActiveInMemory (ensure_active s).
Proof.
  intros H. unfold ensure_active. destruct (s_active s) as [a|] eqn:E; [exact H|].
  apply (aim_some _ (new_blob (s_next s))); reflexivity.
Qed.

Lemma aim_close_active s : ActiveInMemory s -> ActiveInMemory (fst (close_active s)).
Proof.
  intros H. unfold close_active. destruct (s_active s) as [a|] eqn:E; cbn [fst]; [|exact H].
  apply aim_none. reflexivity.
Qed.

Lemma aim_create_active s : ActiveInMemory s -> ActiveInMemory (fst (create_active s)).
Proof.
  intros H. unfold create_active. destruct (s_active s) as [a|] eqn:E; cbn [fst]; [exact H|].
  apply aim_ensure_active, H.
Qed.

Lemma aim_restore_active s : ActiveInMemory s -> ActiveInMemory (fst (restore_active K s)).
Proof.
  intros H. unfold restore_active. destruct (s_active s) as [a|] eqn:E; cbn [fst]; [exact H|].
  destruct (pop_last (s_closed s)) as [[b c]|] eqn:P; cbn [fst]; [|exact H].
  apply (aim_some _ (blob_load_index K b)); [reflexivity|apply blob_load_index_mem].
Qed.

Lemma aim_worker s f :
  (forall s, ActiveInMemory s -> ActiveInMemory (fst (f s))) -> ActiveInMemory s -> ActiveInMemory (worker s f).
Proof.
  intros Hf H. unfold worker. destruct (s_alive s); [|exact H].
  specialize (Hf s H). destruct (f s) as [s' [e|]]; cbn [fst] in Hf; [|exact Hf].
  revert Hf. apply aim_ext; reflexivity.
Qed.

Lemma aim_replace_active s : ActiveInMemory (replace_active s).
Proof. apply (aim_some _ (new_blob (s_next s))); reflexivity. Qed.

Lemma aim_maybe_rotate s : ActiveInMemory s -> ActiveInMemory (maybe_rotate K cfg s).
Proof.
  intros H. unfold maybe_rotate. destruct (s_active s) as [a|]; [|exact H].
  destruct (blob_full K cfg a && s_aged s && s_alive s); [|exact H].
  apply aim_request_dump, aim_replace_active.
Qed.

Theorem quiesce_ActiveInMemory : forall s, ActiveInMemory s -> ActiveInMemory (quiesce K s).
Proof.
  intros s. unfold quiesce. destruct (s_alive s && s_dump_req s); [|auto]. apply aim_ext; reflexivity.
Qed.

Lemma blob_append_ondisk b r : b_ondisk (fst (blob_append b r)) = b_ondisk b.
Proof. unfold blob_append. destruct (b_ondisk b) eqn:D; cbn [fst b_ondisk]; [reflexivity|reflexivity]. Qed.

Lemma blob_delete_mem b mk oip :
  b_ondisk b = false -> b_ondisk (fst (fst (blob_delete K b mk oip))) = false.
Proof.
  intros Hd. unfold blob_delete.
  destruct (negb oip || match idx_get_latest (b_idx b) (r_key mk) with Found _ => true | _ => false end);
    [|exact Hd].
  pose proof (blob_append_ondisk (blob_load_index K b) mk) as Ha.
  destruct (blob_append (blob_load_index K b) mk) as [b2 ok]. cbn [fst] in *.
  rewrite Ha. apply blob_load_index_mem.
Qed.

Lemma aim_do_open files bad quar c lazy f2 : ActiveInMemory (do_open K files bad quar c lazy f2).
Proof.
  unfold do_open. destruct files as [|f0 fs]; [apply (aim_some _ (new_blob (next_above quar))); reflexivity|].
  destruct lazy; [apply aim_none; reflexivity|].
  destruct (rev (sort_by_id (map (blob_from_file K) (filter (fun b => negb (is_bad bad b)) (f0 :: fs))))) as [|last r];
    [apply (aim_some _ (new_blob (next_above (map b_id (f0 :: fs) ++ quar)))); reflexivity|].
  apply (aim_some _ (blob_load_index K last)); [reflexivity|apply blob_load_index_mem].
Qed.

(* with the active index in memory a write is acknowledged, or refused for another reason, and the
   ghost flag stays as it was *)
Lemma do_write_mem s k ts meta msize dlen dseed :
  ActiveInMemory s ->
  ActiveInMemory (fst (do_write K cfg s k ts meta msize dlen dseed)) /\
  s_f2 (fst (do_write K cfg s k ts meta msize dlen dseed)) = s_f2 s /\
  snd (do_write K cfg s k ts meta msize dlen dseed) <> RErr EIndex.
Proof.
  intros H. unfold do_write. pose proof (aim_ensure_active s H) as H1. rewrite <- (f2_ensure_active s).
  set (s1 := ensure_active s) in *. clearbody s1.
  destruct (negb (c_dup cfg) && is_found (get_latest_entry s1 k meta)); cbn [fst snd];
    [split; [exact H1|split; [reflexivity|discriminate]]|].
  destruct (s_active s1) as [a|] eqn:EA; cbn [fst snd];
    [|split; [exact H1|split; [reflexivity|discriminate]]].
  pose proof (blob_append_mem a (mk_rec k ts false meta msize dlen dseed) (H1 a EA)) as Hok.
  pose proof (blob_append_ondisk a (mk_rec k ts false meta msize dlen dseed)) as Hd.
  destruct (blob_append a (mk_rec k ts false meta msize dlen dseed)) as [b' ok].
  cbn [fst snd] in Hok, Hd. subst ok. cbn [fst snd]. split; [|split; [|discriminate]].
  - apply aim_maybe_rotate, (aim_some _ b'); [reflexivity|]. rewrite Hd. apply H1, EA.
  - rewrite f2_maybe_rotate. reflexivity.
Qed.

Lemma ensure_active_some s : exists a, s_active (ensure_active s) = Some a.
Proof.
  unfold ensure_active. destruct (s_active s) as [a|] eqn:E; [exists a; exact E|].
  exists (new_blob (s_next s)). reflexivity.
Qed.

(* with the active index in memory every write is acknowledged *)
Lemma do_write_ack s k ts meta msize dlen dseed :
  ActiveInMemory s -> snd (do_write K cfg s k ts meta msize dlen dseed) = RUnit.
Proof.
  intros H. unfold do_write. pose proof (aim_ensure_active s H) as H1.
  destruct (ensure_active_some s) as [a EA].
  set (s1 := ensure_active s) in *. clearbody s1.
  destruct (negb (c_dup cfg) && is_found (get_latest_entry s1 k meta)); [reflexivity|].
  rewrite EA.
  pose proof (blob_append_mem a (mk_rec k ts false meta msize dlen dseed) (H1 a EA)) as Hok.
  destruct (blob_append a (mk_rec k ts false meta msize dlen dseed)) as [b' ok].
  cbn [snd] in Hok. subst ok. reflexivity.
Qed.

(* a delete never fails with the index error, whatever the state (blob_delete_spec) *)
Lemma do_delete_mem s k ts meta msize oip :
  ActiveInMemory s ->
  ActiveInMemory (fst (do_delete K s k ts meta msize oip)) /\
  s_f2 (fst (do_delete K s k ts meta msize oip)) = s_f2 s /\
  snd (do_delete K s k ts meta msize oip) <> RErr EIndex.
Proof.
  intros H. unfold do_delete.
  assert (H1 : ActiveInMemory (if oip then s else ensure_active s)).
  { destruct oip; [exact H|apply aim_ensure_active, H]. }
  assert (F1 : s_f2 (if oip then s else ensure_active s) = s_f2 s).
  { destruct oip; [reflexivity|apply f2_ensure_active]. }
  rewrite <- F1. set (s1 := if oip then s else ensure_active s) in *. clearbody s1.
  set (mk := mk_rec k ts true meta msize 0 0).
  destruct (s_active s1) as [a|] eqn:EA.
  - pose proof (blob_delete_mem a mk oip (H1 a EA)) as Hd.
    destruct (blob_delete K a mk oip) as [[b' d] ok] eqn:B.
    destruct (blob_delete_spec _ _ _ _ _ _ B) as (Hk & _ & _). subst ok. cbn [negb fst] in *.
    destruct (delete_in_closed K (s_closed (upd_active s1 (Some b'))) mk) as [[c' nc] f] eqn:D.
    destruct (delete_in_closed_spec _ _ _ _ _ D) as (Hf & _ & _). subst f.
    destruct (0 <? nc); cbn [fst snd]; (split; [|split; [|discriminate]]).
    + apply aim_request_dump, (aim_some _ b'); [reflexivity|exact Hd].
    + rewrite f2_request_dump. cbn [s_f2 upd_f2 upd_closed upd_active]. apply orb_false_r.
    + apply (aim_some _ b'); [reflexivity|exact Hd].
    + cbn [s_f2 upd_f2 upd_closed upd_active]. apply orb_false_r.
  - cbn [negb].
    destruct (delete_in_closed K (s_closed s1) mk) as [[c' nc] f] eqn:D.
    destruct (delete_in_closed_spec _ _ _ _ _ D) as (Hf & _ & _). subst f.
    destruct (0 <? nc); cbn [fst snd]; (split; [|split; [|discriminate]]).
    + apply aim_request_dump. revert H1. apply aim_ext; reflexivity.
    + rewrite f2_request_dump. cbn [s_f2 upd_f2 upd_closed]. apply orb_false_r.
    + revert H1. apply aim_ext; reflexivity.
    + cbn [s_f2 upd_f2 upd_closed]. apply orb_false_r.
Qed.

Theorem step_ActiveInMemory : forall s o, ActiveInMemory s -> ActiveInMemory (fst (step K cfg s o)).
Proof.
  intros s o H. unfold step. destruct (needs_open o && negb (s_open s)); [exact H|].
  destruct o; try exact H.
  - apply do_write_mem, H.
  - apply do_delete_mem, H.
  - pose proof (aim_close_active s H) as H1. destruct (close_active s) as [s' e].
    cbn [fst] in *. apply aim_request_dump, H1.
  - pose proof (aim_create_active s H) as H1. destruct (create_active s) as [s' e]. exact H1.
  - pose proof (aim_restore_active s H) as H1. destruct (restore_active K s) as [s' e]. exact H1.
  - cbn [fst]. apply aim_request_dump, aim_worker; [apply aim_close_active|exact H].
  - cbn [fst]. apply aim_worker; [apply aim_create_active|exact H].
  - cbn [fst]. apply aim_worker; [apply aim_restore_active|exact H].
  - cbn [fst]. apply aim_request_dump.
    destruct (s_alive s && eval_pred pred s); [apply aim_replace_active|exact H].
  - cbn [fst]. apply aim_request_dump, H.
  - cbn [fst]. apply quiesce_ActiveInMemory, H.
  - cbn [fst]. apply aim_none. reflexivity.
  - cbn [fst]. apply aim_none. reflexivity.
  - destruct (s_open s); cbn [fst]; [exact H|apply aim_do_open].
  - cbn [fst]. revert H. apply aim_ext, active_do_cut.
Qed.

(* no operation raises the ghost flag *)
Theorem step_f2_eq : forall s o, ActiveInMemory s -> s_f2 (fst (step K cfg s o)) = s_f2 s.
Proof.
  intros s o H. unfold step. destruct (needs_open o && negb (s_open s)); [reflexivity|].
  destruct o; try reflexivity.
  - apply do_write_mem, H.
  - apply do_delete_mem, H.
  - pose proof (f2_close_active s) as H1. destruct (close_active s) as [s' e].
    cbn [fst] in *. rewrite f2_request_dump. exact H1.
  - pose proof (f2_create_active s) as H1. destruct (create_active s) as [s' e]. exact H1.
  - pose proof (f2_restore_active s) as H1. destruct (restore_active K s) as [s' e]. exact H1.
  - cbn [fst]. rewrite f2_request_dump. apply f2_worker, f2_close_active.
  - cbn [fst]. apply f2_worker, f2_create_active.
  - cbn [fst]. apply f2_worker, f2_restore_active.
  - cbn [fst]. rewrite f2_request_dump. destruct (s_alive s && eval_pred pred s); reflexivity.
  - cbn [fst]. apply f2_request_dump.
  - cbn [fst]. apply f2_quiesce.
  - destruct (s_open s); cbn [fst]; [reflexivity|apply f2_do_open].
  - cbn [fst]. apply f2_do_cut.
Qed.

(* ... and no write or delete is refused with ErrorKind::Index *)
Theorem step_no_index_error : forall s o, ActiveInMemory s -> snd (step K cfg s o) <> RErr EIndex.
Proof.
  intros s o H. unfold step. destruct (needs_open o && negb (s_open s)); [discriminate|].
  destruct o; cbn [snd]; try discriminate.
  - apply do_write_mem, H.
  - apply do_delete_mem, H.
  - unfold close_active. destruct (s_active s); discriminate.
  - unfold create_active. destruct (s_active s); discriminate.
  - unfold restore_active. destruct (s_active s); [discriminate|].
    destruct (pop_last (s_closed s)) as [[b c]|]; discriminate.
  - destruct (s_open s); discriminate.
Qed.

Theorem run_ActiveInMemory : forall ops s,
  ActiveInMemory s ->
  ActiveInMemory (fst (run K cfg s ops)) /\ s_f2 (fst (run K cfg s ops)) = s_f2 s.
Proof.
  induction ops as [|o ops IH]; intros s H; cbn [run]; [split; [exact H|reflexivity]|].
  unfold step_q. pose proof (step_ActiveInMemory s o H) as H1. pose proof (step_f2_eq s o H) as F1.
  destruct (step K cfg s o) as [s' x]. cbn [fst] in H1, F1.
  destruct (IH (quiesce K s') (quiesce_ActiveInMemory s' H1)) as [H2 F2].
  destruct (run K cfg (quiesce K s') ops) as [s'' xs]. cbn [fst] in *.
  split; [exact H2|]. rewrite F2, f2_quiesce. exact F1.
Qed.

(* the invariant without the proviso on the ghost flag *)
Theorem run_Inv_mem : forall ops s,
  Inv K s -> ActiveInMemory s -> s_f2 s = false -> Inv K (fst (run K cfg s ops)).
Proof.
  intros ops s HI HA F. apply run_Inv; [exact HI|].
  rewrite (proj2 (run_ActiveInMemory ops s HA)). exact F.
Qed.

End K.

Print Assumptions init_BlobsOk.
Print Assumptions step_BlobsOk.
Print Assumptions quiesce_BlobsOk.
Print Assumptions f2_monotone_step.
Print Assumptions f2_quiesce.
Print Assumptions run_BlobsOk.
Print Assumptions init_IdsOk.
Print Assumptions step_IdsOk.
Print Assumptions quiesce_IdsOk.
Print Assumptions run_IdsOk.
Print Assumptions nondata_abs.
Print Assumptions nondata_abs_gen.
Print Assumptions step_q_nondata_abs_gen.
Print Assumptions bad_nil_step.
Print Assumptions qf_step.
Print Assumptions quiesce_abs.
Print Assumptions step_q_nondata_abs.
Print Assumptions run_NoActiveWhenClosed.
Print Assumptions init_Inv.
Print Assumptions step_Inv.
Print Assumptions step_q_Inv.
Print Assumptions run_Inv.
Print Assumptions nondata_abs_needs_NoActiveWhenClosed.
Print Assumptions step_ActiveInMemory.
Print Assumptions step_f2_eq.
Print Assumptions step_no_index_error.
Print Assumptions run_ActiveInMemory.
Print Assumptions run_Inv_mem.
