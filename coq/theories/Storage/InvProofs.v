(* Preservation of the invariants of Inv.v by every operation of the L3 storage model.

   Main theorems (all closed under the global context, see the Print Assumptions at the end):
     init_BlobsOk, step_BlobsOk, quiesce_BlobsOk, f2_monotone_step, f2_quiesce, run_BlobsOk,
     init_IdsOk, step_IdsOk, quiesce_IdsOk, run_IdsOk, nondata_abs, quiesce_abs.
   `quiesce` takes K (it dumps blobs, and the dump records blob_size K); IdsOk, abs, init_storage
   and closed_blobs do not.

   Also: init_/step_/quiesce_/run_NoActiveWhenClosed, and the combined init_Inv, step_Inv, step_q_Inv,
   run_Inv, step_q_nondata_abs.

   nondata_abs needs NoActiveWhenClosed: `step s (OOpen l)` on a closed storage is
   `do_open (closed_blobs s) ...`, which re-reads the closed blobs only, so an active blob object
   held by a closed storage would vanish with its records.  IdsOk and BlobsOk do not exclude such a
   state (nondata_abs_needs_NoActiveWhenClosed gives one); NoActiveWhenClosed does, and it is
   preserved by every operation.  (OOpen on an already-open storage is an EAlreadyOpen no-op.)
   IdsOk is used only in the OOpen case (sort_by_id is the identity on id-ordered files).

   Side facts established on the way:
     * blob_delete never fails (blob_delete_spec): push_deletion_record calls load_index first,
       which leaves the index in memory, so the append cannot hit the on-disk branch.  Hence
       delete_in_closed never reports f2 and do_delete never sets the ghost flag; ODelete preserves
       BlobsOk without using the `s_f2 = false` hypothesis.  Only OWrite could raise F2.
     * F2 is unreachable since the repair of restore_active (it installs blob_load_index b, as
       do_open does for the last blob): ActiveInMemory (the active blob's index is never on disk)
       holds of init_storage and is kept by every step and by quiesce (step_ActiveInMemory,
       quiesce_ActiveInMemory, run_ActiveInMemory); under it no step raises the ghost flag
       (step_f2_eq), no step answers ErrorKind::Index (step_no_index_error), every write is
       acknowledged (do_write_ack), and the invariant needs no proviso (run_Inv_mem).  The
       theorems with an `s_f2 ... = false` hypothesis (step_BlobsOk, run_Inv, ...) are kept as the
       stepping stones; Theorems.v discharges the hypothesis with never_f2.
     * do_open on id-ordered files keeps the blobs, their ids and their records in the same order
       (do_open_order). *)
Require Import Pearl.Base.Prelude Pearl.Storage.Model Pearl.Storage.Spec Pearl.Storage.Inv.

(* ---------- generic list facts ---------- *)
Definition cb (l : list (option blob)) : list blob :=
  flat_map (fun o => match o with Some b => [b] | None => [] end) l.

Lemma closed_blobs_cb s : closed_blobs s = cb (s_closed s).
Proof. reflexivity. Qed.

Lemma cb_app l1 l2 : cb (l1 ++ l2) = cb l1 ++ cb l2.
Proof. apply flat_map_app. Qed.

Lemma cb_cons_some b l : cb (Some b :: l) = b :: cb l.
Proof. reflexivity. Qed.

Lemma cb_cons_none l : cb (None :: l) = cb l.
Proof. reflexivity. Qed.

Lemma in_cb l b : In b (cb l) <-> In (Some b) l.
Proof.
  induction l as [|[x|] l IH].
  - split; intros [].
  - rewrite cb_cons_some. cbn [In]. rewrite IH. split; intros [H|H]; auto; left; congruence.
  - rewrite cb_cons_none. cbn [In]. rewrite IH. split; [auto|]. intros [H|H]; [discriminate|assumption].
Qed.

Lemma cb_map_Some l : cb (map Some l) = l.
Proof. induction l as [|x l IH]; [reflexivity|]. cbn [map]. rewrite cb_cons_some, IH. reflexivity. Qed.

Lemma cb_map_some_f (f : blob -> blob) l : cb (map (fun b => Some (f b)) l) = map f l.
Proof. induction l as [|x l IH]; [reflexivity|]. cbn [map]. rewrite cb_cons_some, IH. reflexivity. Qed.

Lemma cb_map_opt (f : blob -> blob) l :
  cb (map (fun o => match o with Some b => Some (f b) | None => None end) l) = map f (cb l).
Proof.
  induction l as [|[x|] l IH]; [reflexivity| |].
  - cbn [map]. rewrite !cb_cons_some. cbn [map]. rewrite IH. reflexivity.
  - cbn [map]. rewrite !cb_cons_none. exact IH.
Qed.

Lemma firstn_app_le {A} n (l : list A) x : (n <= length l)%nat -> firstn n (l ++ [x]) = firstn n l.
Proof.
  intros H. rewrite firstn_app. replace (n - length l)%nat with O by lia.
  cbn [firstn]. apply app_nil_r.
Qed.

Lemma flat_map_recs_ext (f : blob -> blob) l :
  (forall b, b_recs (f b) = b_recs b) -> flat_map b_recs (map f l) = flat_map b_recs l.
Proof.
  intros H. induction l as [|x l IH]; [reflexivity|]. cbn [map flat_map]. rewrite H, IH. reflexivity.
Qed.

Lemma map_id_ext (f : blob -> blob) l :
  (forall b, b_id (f b) = b_id b) -> map b_id (map f l) = map b_id l.
Proof.
  intros H. induction l as [|x l IH]; [reflexivity|]. cbn [map]. rewrite H, IH. reflexivity.
Qed.

Lemma rev_cons_inv {A} (l : list A) x r : rev l = x :: r -> l = rev r ++ [x].
Proof. intros H. rewrite <- (rev_involutive l), H. reflexivity. Qed.

(* ---------- pop_last ---------- *)
Lemma pop_last_cb l : forall b c, pop_last l = Some (b, c) -> cb l = cb c ++ [b].
Proof.
  induction l as [|x l IH]; intros b c E; cbn [pop_last] in E; [discriminate|].
  destruct (pop_last l) as [[b1 r1]|] eqn:P.
  - injection E as E1 E2. subst b1 c. specialize (IH _ _ eq_refl).
    destruct x as [y|]; [rewrite !cb_cons_some|rewrite !cb_cons_none]; rewrite IH; reflexivity.
  - destruct x as [y|]; [|discriminate]. injection E as E1 E2. subst y c.
    rewrite cb_cons_some, cb_cons_none.
    assert (Hn : cb l = []).
    { clear IH. induction l as [|z l IHl]; [reflexivity|]. cbn [pop_last] in P.
      destruct (pop_last l) as [[b1 r1]|]; [discriminate|]. destruct z; [discriminate|].
      rewrite cb_cons_none. apply IHl. reflexivity. }
    rewrite Hn. reflexivity.
Qed.

Lemma pop_last_none l : pop_last l = None -> cb l = [].
Proof.
  induction l as [|z l IHl]; intros P; [reflexivity|]. cbn [pop_last] in P.
  destruct (pop_last l) as [[b1 r1]|]; [discriminate|]. destruct z; [discriminate|].
  rewrite cb_cons_none. apply IHl. reflexivity.
Qed.

Lemma pop_last_in l b c : pop_last l = Some (b, c) ->
  In (Some b) l /\ forall x, In (Some x) c -> In (Some x) l.
Proof.
  intros E. apply pop_last_cb in E. split.
  - apply in_cb. rewrite E. apply in_or_app. right. left. reflexivity.
  - intros x Hx. apply in_cb. rewrite E. apply in_or_app. left. apply in_cb. exact Hx.
Qed.

(* ---------- sort_by_id / max_id ---------- *)
Lemma in_insert_by_id x b l : In x (insert_by_id b l) <-> x = b \/ In x l.
Proof.
  induction l as [|y l IH]; cbn [insert_by_id].
  - cbn [In]. split; intros [H|H]; auto.
  - destruct (b_id b <? b_id y).
    + cbn [In]. split; intros [H|H]; auto.
    + cbn [In]. rewrite IH. split; intros [H|[H|H]]; auto.
Qed.

Lemma in_sort_by_id x l : In x (sort_by_id l) <-> In x l.
Proof.
  unfold sort_by_id. induction l as [|y l IH]; cbn [fold_right]; [reflexivity|].
  rewrite in_insert_by_id, IH. cbn [In]. split; intros [H|H]; auto.
Qed.

Lemma increasing_tail x l : increasing (x :: l) -> increasing l.
Proof. intros [_ H]. exact H. Qed.

Lemma sort_by_id_increasing l : increasing (map b_id l) -> sort_by_id l = l.
Proof.
  unfold sort_by_id. induction l as [|x l IH]; intros H; [reflexivity|].
  cbn [fold_right]. cbn [map] in H. rewrite IH by (apply (increasing_tail _ _ H)).
  destruct l as [|y l]; [reflexivity|]. cbn [map increasing] in H. destruct H as [Hlt _].
  cbn [insert_by_id]. apply N.ltb_lt in Hlt. rewrite Hlt. reflexivity.
Qed.

Lemma max_id_fold l : forall a, exists m,
  fold_left (fun a b => match a with Some m => Some (N.max m (b_id b)) | None => Some (b_id b) end) l (Some a) = Some m
  /\ a <= m /\ forall b, In b l -> b_id b <= m.
Proof.
  induction l as [|x l IH]; intros a; cbn [fold_left].
  - exists a. split; [reflexivity|]. split; [lia|]. intros b [].
  - destruct (IH (N.max a (b_id x))) as (m & E & Ha & Hl). exists m. split; [exact E|]. split; [lia|].
    intros b [<-|Hb]; [lia|apply Hl, Hb].
Qed.

Lemma max_id_bound l b :
  In b l -> b_id b < match max_id l with Some m => m + 1 | None => 0 end.
Proof.
  destruct l as [|x l]; intros Hb; [destruct Hb|]. unfold max_id. cbn [fold_left].
  destruct (max_id_fold l (b_id x)) as (m & E & Ha & Hl). rewrite E.
  destruct Hb as [<-|Hb]; [lia|]. specialize (Hl _ Hb). lia.
Qed.

(* ---------- increasing ---------- *)
Lemma increasing_app_l l1 l2 : increasing (l1 ++ l2) -> increasing l1.
Proof.
  induction l1 as [|x l1 IH]; intros H; [exact I|]. cbn [app increasing] in H. destruct H as [Hx Hr].
  cbn [increasing]. split; [|apply IH, Hr]. destruct l1 as [|y l1]; [exact I|exact Hx].
Qed.

Lemma increasing_snoc l x : increasing l -> (forall i, In i l -> i < x) -> increasing (l ++ [x]).
Proof.
  induction l as [|y l IH]; intros Hi Hb; cbn [app increasing]; [auto|].
  destruct Hi as [Hy Hr]. split.
  - destruct l as [|z l]; cbn [app]; [apply Hb; left; reflexivity|exact Hy].
  - apply IH; [exact Hr|]. intros i Hin. apply Hb. right. exact Hin.
Qed.

Section K.
Variable K : N.
Variable cfg : config.

(* ---------- sizes ---------- *)
Lemma blob_size_size_of b : blob_size K b = size_of K (b_recs b).
Proof. reflexivity. Qed.

Lemma rec_size_pos r : 0 < rec_size K r.
Proof. unfold rec_size, rhs. lia. Qed.

Lemma fold_size_ge l : forall a, a <= fold_left (fun a r => a + rec_size K r) l a.
Proof.
  induction l as [|x l IH]; intros a; cbn [fold_left]; [lia|].
  specialize (IH (a + rec_size K x)). pose proof (rec_size_pos x). lia.
Qed.

Lemma fold_size_gt l : l <> [] -> forall a, a < fold_left (fun a r => a + rec_size K r) l a.
Proof.
  destruct l as [|x l]; intros Hne a; [contradiction|]. cbn [fold_left].
  pose proof (fold_size_ge l (a + rec_size K x)). pose proof (rec_size_pos x). lia.
Qed.

Lemma prefix_full n l : size_of K (firstn n l) = size_of K l -> firstn n l = l.
Proof.
  intros H. rewrite <- (firstn_skipn n l) in H at 2. unfold size_of in H. rewrite fold_left_app in H.
  destruct (skipn n l) as [|y t] eqn:S.
  - rewrite <- (firstn_skipn n l) at 2. rewrite S. symmetry. apply app_nil_r.
  - exfalso. assert (Hne : y :: t <> []) by discriminate.
    pose proof (fold_size_gt (y :: t) Hne (fold_left (fun a r => a + rec_size K r) (firstn n l) BLOB_HEADER_SIZE)) as Hgt.
    rewrite <- H in Hgt. lia.
Qed.

(* ---------- blob-level preservation ---------- *)
Lemma index_of_snoc rs r : index_of (rs ++ [r]) = imap_push (index_of rs) r.
Proof. unfold index_of. rewrite fold_left_app. reflexivity. Qed.

Lemma blob_ok_new id : blob_ok K (new_blob id).
Proof. split; [reflexivity|exact I]. Qed.

Lemma idxfile_full b sz m : idxfile_ok K b -> b_idxfile b = Some (sz, m) -> sz = blob_size K b -> m = index_of (b_recs b).
Proof.
  unfold idxfile_ok. intros Hf E Hsz. rewrite E in Hf. destruct Hf as (n & Hn & Hs & Hm).
  rewrite blob_size_size_of in Hsz. rewrite Hs in Hsz. apply prefix_full in Hsz. rewrite Hsz in Hm. exact Hm.
Qed.

Lemma idxfile_ok_ext b b' :
  b_recs b' = b_recs b -> b_idxfile b' = b_idxfile b -> idxfile_ok K b -> idxfile_ok K b'.
Proof. unfold idxfile_ok. intros -> ->. auto. Qed.

Lemma blob_append_ok b r b' : blob_ok K b -> blob_append b r = (b', true) -> blob_ok K b'.
Proof.
  intros [Hi Hf] E. unfold blob_append in E. destruct (b_ondisk b) eqn:D; [discriminate|].
  injection E as E. subst b'. split.
  - unfold idx_ok in *. cbn [b_idx b_recs]. rewrite index_of_snoc, Hi. reflexivity.
  - unfold idxfile_ok in *. cbn [b_idxfile b_recs]. destruct (b_idxfile b) as [[sz m]|]; [|exact I].
    destruct Hf as (n & Hn & Hs & Hm). exists n. rewrite app_length. cbn [length].
    rewrite firstn_app_le by exact Hn. split; [lia|]. split; assumption.
Qed.

Lemma blob_append_id b r : b_id (fst (blob_append b r)) = b_id b.
Proof. unfold blob_append. destruct (b_ondisk b); reflexivity. Qed.

Lemma blob_append_mem b r : b_ondisk b = false -> snd (blob_append b r) = true.
Proof. intros D. unfold blob_append. rewrite D. reflexivity. Qed.

Lemma blob_load_index_ok b : blob_ok K b -> blob_ok K (blob_load_index K b).
Proof.
  intros [Hi Hf]. unfold blob_load_index. destruct (b_ondisk b) eqn:D; [|split; assumption]. split.
  - unfold idx_ok. cbn [b_idx b_recs]. destruct (b_idxfile b) as [[sz m]|] eqn:E; [|reflexivity].
    destruct (N.eqb_spec sz (blob_size K b)) as [Hsz|]; [|reflexivity].
    apply (idxfile_full b sz m Hf E Hsz).
  - exact Hf.
Qed.

Lemma blob_load_index_mem b : b_ondisk (blob_load_index K b) = false.
Proof. unfold blob_load_index. destruct (b_ondisk b) eqn:D; [reflexivity|exact D]. Qed.

Lemma blob_load_index_id b : b_id (blob_load_index K b) = b_id b.
Proof. unfold blob_load_index. destruct (b_ondisk b); reflexivity. Qed.

Lemma blob_load_index_recs b : b_recs (blob_load_index K b) = b_recs b.
Proof. unfold blob_load_index. destruct (b_ondisk b); reflexivity. Qed.

Lemma blob_dump_ok b : blob_ok K b -> blob_ok K (blob_dump K b).
Proof.
  intros [Hi Hf]. unfold blob_dump. destruct (b_ondisk b); [split; assumption|].
  destruct (b_idx b) as [|p t] eqn:E; [split; assumption|]. split.
  - unfold idx_ok in *. cbn [b_idx b_recs]. rewrite <- E. exact Hi.
  - unfold idxfile_ok. cbn [b_idxfile b_recs]. exists (length (b_recs b)). rewrite firstn_all.
    split; [lia|]. split; [reflexivity|]. rewrite <- E. exact Hi.
Qed.

Lemma blob_dump_id b : b_id (blob_dump K b) = b_id b.
Proof. unfold blob_dump. destruct (b_ondisk b); [reflexivity|]. destruct (b_idx b); reflexivity. Qed.

Lemma blob_dump_recs b : b_recs (blob_dump K b) = b_recs b.
Proof. unfold blob_dump. destruct (b_ondisk b); [reflexivity|]. destruct (b_idx b); reflexivity. Qed.

Lemma blob_from_file_ok b : blob_ok K b -> blob_ok K (blob_from_file K b).
Proof.
  intros [Hi Hf]. unfold blob_from_file. destruct (b_idxfile b) as [[sz m]|] eqn:E.
  - destruct (N.eqb_spec sz (blob_size K b)) as [Hsz|].
    + split; [|apply (idxfile_ok_ext b); [reflexivity|symmetry; exact E|exact Hf]].
      unfold idx_ok. cbn [b_idx b_recs]. apply (idxfile_full b sz m Hf E Hsz).
    + split; [reflexivity|apply (idxfile_ok_ext b); [reflexivity|symmetry; exact E|exact Hf]].
  - split; [reflexivity|exact I].
Qed.

Lemma blob_from_file_id b : b_id (blob_from_file K b) = b_id b.
Proof.
  unfold blob_from_file. destruct (b_idxfile b) as [[sz m]|]; [|reflexivity].
  destruct (sz =? blob_size K b); reflexivity.
Qed.

Lemma blob_from_file_recs b : b_recs (blob_from_file K b) = b_recs b.
Proof.
  unfold blob_from_file. destruct (b_idxfile b) as [[sz m]|]; [|reflexivity].
  destruct (sz =? blob_size K b); reflexivity.
Qed.

Lemma rm_index_ok b : blob_ok K b -> blob_ok K (rm_index b).
Proof. intros [Hi Hf]. split; [exact Hi|exact I]. Qed.

(* the deletion record is pushed after load_index, so the push never fails *)
Lemma blob_delete_spec b mk oip b' d ok :
  blob_delete K b mk oip = (b', d, ok) ->
  ok = true /\ b_id b' = b_id b /\ (blob_ok K b -> blob_ok K b').
Proof.
  unfold blob_delete. intros E.
  destruct (negb oip || match idx_get_latest (b_idx b) (r_key mk) with Found _ => true | _ => false end).
  - destruct (blob_append (blob_load_index K b) mk) as [b2 ok2] eqn:A.
    injection E as E1 E2 E3. subst b2 d ok2.
    pose proof (blob_append_mem (blob_load_index K b) mk (blob_load_index_mem b)) as Hok.
    rewrite A in Hok. cbn [snd] in Hok. subst ok.
    pose proof (blob_append_id (blob_load_index K b) mk) as Hid. rewrite A in Hid. cbn [fst] in Hid.
    rewrite blob_load_index_id in Hid.
    split; [reflexivity|]. split; [exact Hid|]. intros Hb.
    apply (blob_append_ok (blob_load_index K b) mk b'); [apply blob_load_index_ok, Hb|exact A].
  - injection E as E1 E2 E3. subst b' d ok. auto.
Qed.

(* ---------- BlobsOk: storage-level helpers ---------- *)
Lemma BlobsOk_intro s :
  (forall b, In (Some b) (s_closed s) -> blob_ok K b) ->
  (forall b, s_active s = Some b -> blob_ok K b) -> BlobsOk K s.
Proof. intros H1 H2. split; assumption. Qed.

Lemma BlobsOk_ext s s' :
  s_closed s' = s_closed s -> s_active s' = s_active s -> BlobsOk K s -> BlobsOk K s'.
Proof. unfold BlobsOk. intros -> ->. auto. Qed.

Lemma BlobsOk_upd_active s a :
  BlobsOk K s -> (forall b, a = Some b -> blob_ok K b) -> BlobsOk K (upd_active s a).
Proof. intros [Hc Ha] H. split; cbn [s_closed s_active upd_active]; assumption. Qed.

Lemma BlobsOk_upd_closed s c :
  BlobsOk K s -> (forall b, In (Some b) c -> blob_ok K b) -> BlobsOk K (upd_closed s c).
Proof. intros [Hc Ha] H. split; cbn [s_closed s_active upd_closed]; assumption. Qed.

Lemma BlobsOk_upd_f2 s f : BlobsOk K s -> BlobsOk K (upd_f2 s f).
Proof. apply BlobsOk_ext; reflexivity. Qed.

Lemma BlobsOk_request_dump s : BlobsOk K s -> BlobsOk K (request_dump s).
Proof. unfold request_dump. destruct (s_alive s); [|auto]. apply BlobsOk_ext; reflexivity. Qed.

Lemma BlobsOk_ensure_active s : BlobsOk K s -> BlobsOk K (ensure_active s).
Proof.
  intros H. unfold ensure_active. destruct (s_active s) as [a|] eqn:E; [exact H|].
  split; cbn [s_closed s_active]; [exact (proj1 H)|]. intros b Hb. injection Hb as <-. apply blob_ok_new.
Qed.

Lemma BlobsOk_push_closed s b : BlobsOk K s -> blob_ok K b -> BlobsOk K (push_closed s b).
Proof.
  intros H Hb. unfold push_closed. apply BlobsOk_upd_closed; [exact H|].
  intros x Hx. apply in_app_or in Hx. destruct Hx as [Hx|[Hx|[]]]; [apply (proj1 H), Hx|].
  injection Hx as <-. exact Hb.
Qed.

Lemma BlobsOk_close_active s : BlobsOk K s -> BlobsOk K (fst (close_active s)).
Proof.
  intros H. unfold close_active. destruct (s_active s) as [a|] eqn:E; cbn [fst]; [|exact H].
  apply BlobsOk_push_closed; [|apply (proj2 H), E].
  apply BlobsOk_upd_active; [exact H|discriminate].
Qed.

Lemma BlobsOk_create_active s : BlobsOk K s -> BlobsOk K (fst (create_active s)).
Proof.
  intros H. unfold create_active. destruct (s_active s) as [a|] eqn:E; cbn [fst]; [exact H|].
  apply BlobsOk_ensure_active, H.
Qed.

Lemma BlobsOk_restore_active s : BlobsOk K s -> BlobsOk K (fst (restore_active K s)).
Proof.
  intros H. unfold restore_active. destruct (s_active s) as [a|] eqn:E; cbn [fst]; [exact H|].
  destruct (pop_last (s_closed s)) as [[b c]|] eqn:P; cbn [fst]; [|exact H].
  destruct (pop_last_in _ _ _ P) as [Hb Hc].
  apply BlobsOk_upd_active.
  - apply BlobsOk_upd_closed; [exact H|]. intros x Hx. apply (proj1 H), Hc, Hx.
  - intros x Hx. injection Hx as <-. apply blob_load_index_ok, (proj1 H), Hb.
Qed.

Lemma BlobsOk_worker s f :
  (forall s, BlobsOk K s -> BlobsOk K (fst (f s))) -> BlobsOk K s -> BlobsOk K (worker s f).
Proof.
  intros Hf H. unfold worker. destruct (s_alive s); [|exact H].
  specialize (Hf s H). destruct (f s) as [s' [e|]]; cbn [fst] in Hf; [|exact Hf].
  revert Hf. apply BlobsOk_ext; reflexivity.
Qed.

Lemma BlobsOk_replace_active s : BlobsOk K s -> BlobsOk K (replace_active s).
Proof.
  intros H. unfold replace_active.
  assert (H1 : BlobsOk K (match s_active s with Some b => push_closed s b | None => s end)).
  { destruct (s_active s) as [a|] eqn:E; [|exact H]. apply BlobsOk_push_closed; [exact H|apply (proj2 H), E]. }
  split; cbn [s_closed s_active]; [exact (proj1 H1)|].
  intros b Hb. injection Hb as <-. apply blob_ok_new.
Qed.

Lemma BlobsOk_maybe_rotate s : BlobsOk K s -> BlobsOk K (maybe_rotate K cfg s).
Proof.
  intros H. unfold maybe_rotate. destruct (s_active s) as [a|]; [|exact H].
  destruct (blob_full K cfg a && s_aged s && s_alive s); [|exact H].
  apply BlobsOk_request_dump, BlobsOk_replace_active, H.
Qed.

Lemma BlobsOk_dump_all_closed s : BlobsOk K s -> BlobsOk K (dump_all_closed K s).
Proof.
  intros H. unfold dump_all_closed. apply BlobsOk_upd_closed; [exact H|].
  intros b Hb. apply in_map_iff in Hb. destruct Hb as ([x|] & Hx & Hin); [|discriminate].
  injection Hx as <-. apply blob_dump_ok, (proj1 H), Hin.
Qed.

Theorem quiesce_BlobsOk : forall s, BlobsOk K s -> BlobsOk K (quiesce K s).
Proof.
  intros s H. unfold quiesce. destruct (s_alive s && s_dump_req s); [|exact H].
  generalize (BlobsOk_dump_all_closed s H). apply BlobsOk_ext; reflexivity.
Qed.

Lemma BlobsOk_closed_state files s :
  (forall b, In b files -> blob_ok K b) -> BlobsOk K (closed_state files s).
Proof.
  intros H. split; cbn [s_closed s_active closed_state]; [|discriminate].
  intros b Hb. apply in_map_iff in Hb. destruct Hb as (x & Hx & Hin). injection Hx as <-. apply H, Hin.
Qed.

Lemma BlobsOk_closed_blobs s b : BlobsOk K s -> In b (closed_blobs s) -> blob_ok K b.
Proof. intros H Hb. rewrite closed_blobs_cb in Hb. apply in_cb in Hb. apply (proj1 H), Hb. Qed.

Lemma do_open_nonempty files c lazy f2 : files <> [] ->
  do_open K files c lazy f2 =
    let blobs := sort_by_id (map (blob_from_file K) files) in
    let next := match max_id blobs with Some m => m + 1 | None => 0 end in
    let '(active, rest) :=
      if lazy then (None, blobs)
      else match rev blobs with
           | last :: r => (Some (blob_load_index K last), rev r)
           | [] => (None, [])
           end in
    {| s_active := active; s_closed := map (fun b => Some (blob_dump K b)) rest; s_next := next;
       s_corrupted := c; s_alive := true; s_dump_req := false; s_aged := false; s_open := true; s_f2 := f2 |}.
Proof. destruct files; [contradiction|reflexivity]. Qed.

Lemma BlobsOk_do_open files c lazy f2 :
  (forall b, In b files -> blob_ok K b) -> BlobsOk K (do_open K files c lazy f2).
Proof.
  intros H. destruct files as [|f0 fs] eqn:EF.
  - cbn [do_open]. split; cbn [s_closed s_active]; [intros b []|].
    intros b Hb. injection Hb as <-. apply blob_ok_new.
  - rewrite <- EF in *. rewrite do_open_nonempty by (rewrite EF; discriminate).
    set (blobs := sort_by_id (map (blob_from_file K) files)).
    assert (HB : forall b, In b blobs -> blob_ok K b).
    { intros b Hb. unfold blobs in Hb. apply (proj1 (in_sort_by_id _ _)) in Hb. apply in_map_iff in Hb. destruct Hb as (x & <- & Hx).
      apply blob_from_file_ok, H, Hx. }
    clearbody blobs. cbv zeta.
    assert (HD : forall rest, (forall b, In b rest -> blob_ok K b) ->
                 forall b, In (Some b) (map (fun b => Some (blob_dump K b)) rest) -> blob_ok K b).
    { intros rest Hr b Hb. apply in_map_iff in Hb. destruct Hb as (x & Hx & Hin). injection Hx as <-.
      apply blob_dump_ok, Hr, Hin. }
    destruct lazy.
    + split; cbn [s_closed s_active]; [apply HD, HB|discriminate].
    + destruct (rev blobs) as [|last r] eqn:R.
      * split; cbn [s_closed s_active map]; [intros b []|discriminate].
      * apply rev_cons_inv in R. subst blobs.
        split; cbn [s_closed s_active].
        -- apply HD. intros b Hb. apply HB. apply in_or_app. left. exact Hb.
        -- intros b Hb. injection Hb as <-. apply blob_load_index_ok, HB. apply in_or_app. right. left. reflexivity.
Qed.

Lemma delete_in_closed_spec l mk : forall l' n f,
  delete_in_closed K l mk = (l', n, f) ->
  f = false /\ map b_id (cb l') = map b_id (cb l) /\
  ((forall b, In (Some b) l -> blob_ok K b) -> forall b, In (Some b) l' -> blob_ok K b).
Proof.
  induction l as [|[x|] l IH]; intros l' n f E; cbn [delete_in_closed] in E.
  - injection E as <- <- <-. split; [reflexivity|]. split; [reflexivity|]. intros _ b [].
  - destruct (delete_in_closed K l mk) as [[r' n1] f1] eqn:D.
    destruct (blob_delete K x mk true) as [[b' d] ok] eqn:B.
    injection E as <- <- <-. destruct (IH _ _ _ eq_refl) as (Hf & Hid & Hok).
    destruct (blob_delete_spec _ _ _ _ _ _ B) as (Hk & Hi & Hb).
    subst f1 ok. split; [reflexivity|]. split.
    + rewrite !cb_cons_some. cbn [map]. rewrite Hi, Hid. reflexivity.
    + intros HA b [Hx|Hx].
      * injection Hx as <-. apply Hb, HA. left. reflexivity.
      * apply Hok; [|exact Hx]. intros y Hy. apply HA. right. exact Hy.
  - destruct (delete_in_closed K l mk) as [[r' n1] f1] eqn:D.
    injection E as <- <- <-. destruct (IH _ _ _ eq_refl) as (Hf & Hid & Hok).
    split; [exact Hf|]. split; [rewrite !cb_cons_none; exact Hid|].
    intros HA b [Hx|Hx]; [discriminate|]. apply Hok; [|exact Hx]. intros y Hy. apply HA. right. exact Hy.
Qed.

Lemma do_write_BlobsOk s k ts meta msize dlen dseed :
  BlobsOk K s -> s_f2 (fst (do_write K cfg s k ts meta msize dlen dseed)) = false ->
  BlobsOk K (fst (do_write K cfg s k ts meta msize dlen dseed)).
Proof.
  intros H. unfold do_write. pose proof (BlobsOk_ensure_active s H) as H1.
  set (s1 := ensure_active s) in *. clearbody s1.
  destruct (negb (c_dup cfg) && is_found (get_latest_entry s1 k meta)); cbn [fst]; [intros _; exact H1|].
  destruct (s_active s1) as [a|] eqn:EA; cbn [fst]; [|intros _; exact H1].
  destruct (blob_append a (mk_rec k ts false meta msize dlen dseed)) as [b' ok] eqn:A.
  destruct ok; cbn [fst].
  - intros _. apply BlobsOk_maybe_rotate. apply BlobsOk_upd_active; [exact H1|].
    intros b Hb. injection Hb as <-. apply (blob_append_ok a _ b' (proj2 H1 a EA) A).
  - cbn [s_f2 upd_f2]. rewrite orb_true_r. discriminate.
Qed.

Lemma do_delete_BlobsOk s k ts meta msize oip :
  BlobsOk K s -> BlobsOk K (fst (do_delete K s k ts meta msize oip)).
Proof.
  intros H. unfold do_delete.
  assert (H1 : BlobsOk K (if oip then s else ensure_active s)).
  { destruct oip; [exact H|apply BlobsOk_ensure_active, H]. }
  set (s1 := if oip then s else ensure_active s) in *. clearbody s1.
  set (mk := mk_rec k ts true meta msize 0 0).
  destruct (s_active s1) as [a|] eqn:EA.
  - destruct (blob_delete K a mk oip) as [[b' d] ok] eqn:B.
    destruct (blob_delete_spec _ _ _ _ _ _ B) as (Hk & Hi & Hb). subst ok. cbn [negb].
    destruct (delete_in_closed K (s_closed (upd_active s1 (Some b'))) mk) as [[c' nc] f] eqn:D.
    destruct (delete_in_closed_spec _ _ _ _ _ D) as (Hf & Hid & Hok).
    assert (H2 : BlobsOk K (upd_active s1 (Some b'))).
    { apply BlobsOk_upd_active; [exact H1|]. intros b E. injection E as <-. apply Hb, (proj2 H1), EA. }
    assert (H3 : BlobsOk K (upd_f2 (upd_closed (upd_active s1 (Some b')) c') f)).
    { apply BlobsOk_upd_f2, BlobsOk_upd_closed; [exact H2|]. apply Hok, (proj1 H2). }
    destruct (0 <? nc); cbn [fst]; [apply BlobsOk_request_dump, H3|exact H3].
  - cbn [negb].
    destruct (delete_in_closed K (s_closed s1) mk) as [[c' nc] f] eqn:D.
    destruct (delete_in_closed_spec _ _ _ _ _ D) as (Hf & Hid & Hok).
    assert (H3 : BlobsOk K (upd_f2 (upd_closed s1 c') f)).
    { apply BlobsOk_upd_f2, BlobsOk_upd_closed; [exact H1|]. apply Hok, (proj1 H1). }
    destruct (0 <? nc); cbn [fst]; [apply BlobsOk_request_dump, H3|exact H3].
Qed.

Theorem init_BlobsOk : BlobsOk K init_storage.
Proof. split; cbn [s_closed s_active init_storage]; [intros b []|discriminate]. Qed.

Theorem step_BlobsOk : forall s o,
  BlobsOk K s -> s_f2 (fst (step K cfg s o)) = false -> BlobsOk K (fst (step K cfg s o)).
Proof.
  intros s o H. unfold step. destruct (needs_open o && negb (s_open s)); [intros _; exact H|].
  destruct o; try (intros _; exact H).
  - apply do_write_BlobsOk, H.
  - intros _. apply do_delete_BlobsOk, H.
  - intros _. pose proof (BlobsOk_close_active s H) as H1. destruct (close_active s) as [s' e].
    cbn [fst] in *. apply BlobsOk_request_dump, H1.
  - intros _. pose proof (BlobsOk_create_active s H) as H1. destruct (create_active s) as [s' e]. exact H1.
  - intros _. pose proof (BlobsOk_restore_active s H) as H1. destruct (restore_active K s) as [s' e]. exact H1.
  - intros _. cbn [fst]. apply BlobsOk_request_dump, BlobsOk_worker; [apply BlobsOk_close_active|exact H].
  - intros _. cbn [fst]. apply BlobsOk_worker; [apply BlobsOk_create_active|exact H].
  - intros _. cbn [fst]. apply BlobsOk_worker; [apply BlobsOk_restore_active|exact H].
  - intros _. cbn [fst]. apply BlobsOk_request_dump.
    destruct (s_alive s && eval_pred pred s); [apply BlobsOk_replace_active, H|exact H].
  - intros _. cbn [fst]. apply BlobsOk_request_dump, H.
  - intros _. cbn [fst]. apply quiesce_BlobsOk, H.
  - intros _. cbn [fst]. apply BlobsOk_closed_state. intros b Hb. unfold do_close in Hb.
    apply in_app_or in Hb. destruct Hb as [Hb|Hb]; [apply (BlobsOk_closed_blobs s b H Hb)|].
    destruct (s_active s) as [a|] eqn:EA; [|destruct Hb]. destruct Hb as [<-|[]].
    apply blob_dump_ok, (proj2 H), EA.
  - intros _. cbn [fst]. apply BlobsOk_closed_state. intros b Hb.
    apply in_app_or in Hb. destruct Hb as [Hb|Hb]; [apply (BlobsOk_closed_blobs s b H Hb)|].
    destruct (s_active s) as [a|] eqn:EA; [|destruct Hb]. destruct Hb as [<-|[]].
    apply (proj2 H), EA.
  - intros _. destruct (s_open s); cbn [fst]; [exact H|].
    apply BlobsOk_do_open. intros b Hb. apply (BlobsOk_closed_blobs s b H Hb).
  - intros _. cbn [fst]. apply BlobsOk_upd_closed; [exact H|].
    intros b Hb. apply in_map_iff in Hb. destruct Hb as ([x|] & Hx & Hin); [|discriminate].
    injection Hx as <-. destruct (b_id x =? id); [apply rm_index_ok|]; apply (proj1 H), Hin.
Qed.

(* ---------- the ghost flag ---------- *)
Lemma f2_request_dump s : s_f2 (request_dump s) = s_f2 s.
Proof. unfold request_dump. destruct (s_alive s); reflexivity. Qed.

Lemma f2_ensure_active s : s_f2 (ensure_active s) = s_f2 s.
Proof. unfold ensure_active. destruct (s_active s); reflexivity. Qed.

Lemma f2_close_active s : s_f2 (fst (close_active s)) = s_f2 s.
Proof. unfold close_active. destruct (s_active s); reflexivity. Qed.

Lemma f2_create_active s : s_f2 (fst (create_active s)) = s_f2 s.
Proof. unfold create_active. destruct (s_active s); [reflexivity|apply f2_ensure_active]. Qed.

Lemma f2_restore_active s : s_f2 (fst (restore_active K s)) = s_f2 s.
Proof.
  unfold restore_active. destruct (s_active s); [reflexivity|].
  destruct (pop_last (s_closed s)) as [[b c]|]; reflexivity.
Qed.

Lemma f2_worker s f : (forall s, s_f2 (fst (f s)) = s_f2 s) -> s_f2 (worker s f) = s_f2 s.
Proof.
  intros Hf. unfold worker. destruct (s_alive s); [|reflexivity].
  specialize (Hf s). destruct (f s) as [s' [e|]]; exact Hf.
Qed.

Lemma f2_replace_active s : s_f2 (replace_active s) = s_f2 s.
Proof. reflexivity. Qed.

Lemma f2_maybe_rotate s : s_f2 (maybe_rotate K cfg s) = s_f2 s.
Proof.
  unfold maybe_rotate. destruct (s_active s) as [a|]; [|reflexivity].
  destruct (blob_full K cfg a && s_aged s && s_alive s); [|reflexivity].
  rewrite f2_request_dump. reflexivity.
Qed.

Theorem f2_quiesce : forall s, s_f2 (quiesce K s) = s_f2 s.
Proof. intros s. unfold quiesce. destruct (s_alive s && s_dump_req s); reflexivity. Qed.

Lemma f2_do_write s k ts meta msize dlen dseed :
  s_f2 s = true -> s_f2 (fst (do_write K cfg s k ts meta msize dlen dseed)) = true.
Proof.
  intros H. unfold do_write. rewrite <- f2_ensure_active in H.
  set (s1 := ensure_active s) in *. clearbody s1.
  destruct (negb (c_dup cfg) && is_found (get_latest_entry s1 k meta)); cbn [fst]; [exact H|].
  destruct (s_active s1) as [a|] eqn:EA; cbn [fst]; [|exact H].
  destruct (blob_append a (mk_rec k ts false meta msize dlen dseed)) as [b' ok].
  destruct ok; cbn [fst].
  - rewrite f2_maybe_rotate. exact H.
  - cbn [s_f2 upd_f2]. apply orb_true_r.
Qed.

Lemma f2_do_delete s k ts meta msize oip :
  s_f2 s = true -> s_f2 (fst (do_delete K s k ts meta msize oip)) = true.
Proof.
  intros H. unfold do_delete.
  assert (H1 : s_f2 (if oip then s else ensure_active s) = true).
  { destruct oip; [exact H|rewrite f2_ensure_active; exact H]. }
  set (s1 := if oip then s else ensure_active s) in *. clearbody s1.
  set (mk := mk_rec k ts true meta msize 0 0).
  destruct (s_active s1) as [a|] eqn:EA.
  - destruct (blob_delete K a mk oip) as [[b' d] ok].
    destruct (negb ok); cbn [fst]; [cbn [s_f2 upd_f2]; apply orb_true_r|].
    destruct (delete_in_closed K (s_closed (upd_active s1 (Some b'))) mk) as [[c' nc] f].
    destruct (0 <? nc); cbn [fst]; [rewrite f2_request_dump|]; cbn [s_f2 upd_f2 upd_closed upd_active];
      rewrite H1; reflexivity.
  - cbn [negb]. destruct (delete_in_closed K (s_closed s1) mk) as [[c' nc] f].
    destruct (0 <? nc); cbn [fst]; [rewrite f2_request_dump|]; cbn [s_f2 upd_f2 upd_closed];
      rewrite H1; reflexivity.
Qed.

Theorem f2_monotone_step : forall s o, s_f2 s = true -> s_f2 (fst (step K cfg s o)) = true.
Proof.
  intros s o H. unfold step. destruct (needs_open o && negb (s_open s)); [exact H|].
  destruct o; try exact H.
  - apply f2_do_write, H.
  - apply f2_do_delete, H.
  - pose proof (f2_close_active s) as H1. destruct (close_active s) as [s' e].
    cbn [fst] in *. rewrite f2_request_dump, H1. exact H.
  - pose proof (f2_create_active s) as H1. destruct (create_active s) as [s' e].
    cbn [fst] in *. rewrite H1. exact H.
  - pose proof (f2_restore_active s) as H1. destruct (restore_active K s) as [s' e].
    cbn [fst] in *. rewrite H1. exact H.
  - cbn [fst]. rewrite f2_request_dump, f2_worker by apply f2_close_active. exact H.
  - cbn [fst]. rewrite f2_worker by apply f2_create_active. exact H.
  - cbn [fst]. rewrite f2_worker by apply f2_restore_active. exact H.
  - cbn [fst]. rewrite f2_request_dump. destruct (s_alive s && eval_pred pred s); exact H.
  - cbn [fst]. rewrite f2_request_dump. exact H.
  - cbn [fst]. rewrite f2_quiesce. exact H.
  - destruct (s_open s); cbn [fst]; [exact H|].
    unfold do_open. destruct (closed_blobs s) as [|f0 fs]; [exact H|].
    destruct lazy; [exact H|].
    destruct (rev (sort_by_id (map (blob_from_file K) (f0 :: fs)))); exact H.
Qed.

Lemma f2_monotone_step_q s o : s_f2 s = true -> s_f2 (fst (step_q K cfg s o)) = true.
Proof.
  intros H. unfold step_q. pose proof (f2_monotone_step s o H) as H1.
  destruct (step K cfg s o) as [s' r]. cbn [fst] in *. rewrite f2_quiesce. exact H1.
Qed.

Lemma f2_monotone_run ops : forall s, s_f2 s = true -> s_f2 (fst (run K cfg s ops)) = true.
Proof.
  induction ops as [|o ops IH]; intros s H; cbn [run]; [exact H|].
  pose proof (f2_monotone_step_q s o H) as H1. destruct (step_q K cfg s o) as [s' x].
  cbn [fst] in H1. specialize (IH s' H1). destruct (run K cfg s' ops) as [s'' xs]. exact IH.
Qed.

Theorem run_BlobsOk : forall ops s,
  BlobsOk K s -> s_f2 (fst (run K cfg s ops)) = false -> BlobsOk K (fst (run K cfg s ops)).
Proof.
  induction ops as [|o ops IH]; intros s H F; cbn [run] in *; [exact H|].
  unfold step_q in *. pose proof (step_BlobsOk s o H) as H1.
  destruct (step K cfg s o) as [s' x]. cbn [fst] in H1.
  specialize (IH (quiesce K s')). pose proof (f2_monotone_run ops (quiesce K s')) as HM.
  destruct (run K cfg (quiesce K s') ops) as [s'' xs]. cbn [fst] in *.
  rewrite f2_quiesce in HM.
  assert (F1 : s_f2 s' = false).
  { destruct (s_f2 s'); [|reflexivity]. rewrite HM in F by reflexivity. discriminate. }
  apply IH; [|exact F]. apply quiesce_BlobsOk, H1, F1.
Qed.

(* ---------- ids ---------- *)
Definition ids (s : storage) : list N := map b_id (blobs_in_order s).

Lemma ids_eq s :
  ids s = map b_id (cb (s_closed s)) ++ match s_active s with Some b => [b_id b] | None => [] end.
Proof. unfold ids, blobs_in_order. rewrite map_app, closed_blobs_cb. destruct (s_active s); reflexivity. Qed.

(* the form used for open storages: the bound on ids holds unconditionally *)
Definition IdsOkS (s : storage) : Prop := increasing (ids s) /\ forall i, In i (ids s) -> i < s_next s.

Lemma IdsOk_iff s :
  IdsOk s <-> increasing (ids s) /\ (s_open s = true -> forall i, In i (ids s) -> i < s_next s).
Proof.
  unfold IdsOk, ids. split; intros [H1 H2]; (split; [exact H1|]); intros Ho.
  - intros i Hi. apply in_map_iff in Hi. destruct Hi as (b & <- & Hb). apply H2; assumption.
  - intros b Hb. apply H2; [exact Ho|]. apply in_map. exact Hb.
Qed.

Lemma IdsOkS_IdsOk s : IdsOkS s -> IdsOk s.
Proof. intros [H1 H2]. apply IdsOk_iff. split; [exact H1|]. intros _. exact H2. Qed.

Lemma IdsOk_IdsOkS s : IdsOk s -> s_open s = true -> IdsOkS s.
Proof. intros H Ho. apply IdsOk_iff in H. destruct H as [H1 H2]. split; [exact H1|apply H2, Ho]. Qed.

Lemma IdsOk_same s s' :
  ids s' = ids s -> s_next s' = s_next s -> s_open s' = s_open s -> IdsOk s -> IdsOk s'.
Proof. intros Hi Hn Ho H. apply IdsOk_iff in H. apply IdsOk_iff. rewrite Hi, Hn, Ho. exact H. Qed.

Lemma IdsOkS_same s s' : ids s' = ids s -> s_next s' = s_next s -> IdsOkS s -> IdsOkS s'.
Proof. unfold IdsOkS. intros -> ->. auto. Qed.

Lemma IdsOkS_ext s s' :
  s_closed s' = s_closed s -> s_active s' = s_active s -> s_next s' = s_next s -> IdsOkS s -> IdsOkS s'.
Proof. intros Hc Ha Hn. apply IdsOkS_same; [|exact Hn]. rewrite !ids_eq, Hc, Ha. reflexivity. Qed.

Lemma IdsOkS_grow s s' :
  ids s' = ids s ++ [s_next s] -> s_next s' = s_next s + 1 -> IdsOkS s -> IdsOkS s'.
Proof.
  unfold IdsOkS. intros -> -> [H1 H2]. split.
  - apply increasing_snoc; assumption.
  - intros i Hi. apply in_app_or in Hi. destruct Hi as [Hi|[<-|[]]]; [specialize (H2 i Hi)|]; lia.
Qed.

Lemma IdsOkS_ensure_active s : IdsOkS s -> IdsOkS (ensure_active s).
Proof.
  unfold ensure_active. destruct (s_active s) as [a|] eqn:E; [auto|].
  apply IdsOkS_grow; [|reflexivity]. rewrite !ids_eq, E. cbn [s_closed s_active new_blob b_id].
  rewrite app_nil_r. reflexivity.
Qed.

Lemma IdsOkS_request_dump s : IdsOkS s -> IdsOkS (request_dump s).
Proof. unfold request_dump. destruct (s_alive s); [|auto]. apply IdsOkS_ext; reflexivity. Qed.

Lemma ids_push_closed s a :
  s_active s = Some a -> ids (push_closed (upd_active s None) a) = ids s.
Proof.
  intros E. rewrite !ids_eq, E. cbn [push_closed upd_closed upd_active s_closed s_active].
  rewrite cb_app, map_app, app_nil_r. reflexivity.
Qed.

Lemma IdsOkS_close_active s : IdsOkS s -> IdsOkS (fst (close_active s)).
Proof.
  unfold close_active. destruct (s_active s) as [a|] eqn:E; cbn [fst]; [|auto].
  apply IdsOkS_same; [apply ids_push_closed, E|reflexivity].
Qed.

Lemma IdsOkS_create_active s : IdsOkS s -> IdsOkS (fst (create_active s)).
Proof.
  unfold create_active. destruct (s_active s) as [a|] eqn:E; cbn [fst]; [auto|]. apply IdsOkS_ensure_active.
Qed.

Lemma IdsOkS_restore_active s : IdsOkS s -> IdsOkS (fst (restore_active K s)).
Proof.
  unfold restore_active. destruct (s_active s) as [a|] eqn:E; cbn [fst]; [auto|].
  destruct (pop_last (s_closed s)) as [[b c]|] eqn:P; cbn [fst]; [|auto].
  apply IdsOkS_same; [|reflexivity]. rewrite !ids_eq, E. cbn [upd_closed upd_active s_closed s_active].
  rewrite (pop_last_cb _ _ _ P), map_app, app_nil_r. cbn [map]. rewrite blob_load_index_id. reflexivity.
Qed.

Lemma IdsOkS_worker s f :
  (forall s, IdsOkS s -> IdsOkS (fst (f s))) -> IdsOkS s -> IdsOkS (worker s f).
Proof.
  intros Hf H. unfold worker. destruct (s_alive s); [|exact H].
  specialize (Hf s H). destruct (f s) as [s' [e|]]; cbn [fst] in Hf; [|exact Hf].
  revert Hf. apply IdsOkS_ext; reflexivity.
Qed.

Lemma IdsOkS_replace_active s : IdsOkS s -> IdsOkS (replace_active s).
Proof.
  apply IdsOkS_grow; [|reflexivity]. unfold replace_active. rewrite !ids_eq.
  cbn [s_closed s_active new_blob b_id]. destruct (s_active s) as [a|].
  - cbn [push_closed upd_closed s_closed]. rewrite cb_app, map_app. reflexivity.
  - rewrite app_nil_r. reflexivity.
Qed.

Lemma IdsOkS_maybe_rotate s : IdsOkS s -> IdsOkS (maybe_rotate K cfg s).
Proof.
  intros H. unfold maybe_rotate. destruct (s_active s) as [a|]; [|exact H].
  destruct (blob_full K cfg a && s_aged s && s_alive s); [|exact H].
  apply IdsOkS_request_dump, IdsOkS_replace_active, H.
Qed.

Lemma IdsOkS_upd_active s a b' :
  s_active s = Some a -> b_id b' = b_id a -> IdsOkS s -> IdsOkS (upd_active s (Some b')).
Proof.
  intros E Hi. apply IdsOkS_same; [|reflexivity]. rewrite !ids_eq, E.
  cbn [upd_active s_closed s_active]. rewrite Hi. reflexivity.
Qed.

Lemma do_write_IdsOkS s k ts meta msize dlen dseed :
  IdsOkS s -> IdsOkS (fst (do_write K cfg s k ts meta msize dlen dseed)).
Proof.
  intros H. unfold do_write. pose proof (IdsOkS_ensure_active s H) as H1.
  set (s1 := ensure_active s) in *. clearbody s1.
  destruct (negb (c_dup cfg) && is_found (get_latest_entry s1 k meta)); cbn [fst]; [exact H1|].
  destruct (s_active s1) as [a|] eqn:EA; cbn [fst]; [|exact H1].
  pose proof (blob_append_id a (mk_rec k ts false meta msize dlen dseed)) as Hid.
  destruct (blob_append a (mk_rec k ts false meta msize dlen dseed)) as [b' ok]. cbn [fst] in Hid.
  pose proof (IdsOkS_upd_active s1 a b' EA Hid H1) as H2.
  destruct ok; cbn [fst].
  - apply IdsOkS_maybe_rotate, H2.
  - revert H2. apply IdsOkS_ext; reflexivity.
Qed.

Lemma IdsOkS_upd_closed s c :
  map b_id (cb c) = map b_id (cb (s_closed s)) -> IdsOkS s -> IdsOkS (upd_closed s c).
Proof.
  intros Hc. apply IdsOkS_same; [|reflexivity]. rewrite !ids_eq. cbn [upd_closed s_closed s_active].
  rewrite Hc. reflexivity.
Qed.

Lemma do_delete_IdsOkS s k ts meta msize oip :
  IdsOkS s -> IdsOkS (fst (do_delete K s k ts meta msize oip)).
Proof.
  intros H. unfold do_delete.
  assert (H1 : IdsOkS (if oip then s else ensure_active s)).
  { destruct oip; [exact H|apply IdsOkS_ensure_active, H]. }
  set (s1 := if oip then s else ensure_active s) in *. clearbody s1.
  set (mk := mk_rec k ts true meta msize 0 0).
  destruct (s_active s1) as [a|] eqn:EA.
  - destruct (blob_delete K a mk oip) as [[b' d] ok] eqn:B.
    destruct (blob_delete_spec _ _ _ _ _ _ B) as (Hk & Hi & Hb). subst ok. cbn [negb].
    pose proof (IdsOkS_upd_active s1 a b' EA Hi H1) as H2.
    destruct (delete_in_closed K (s_closed (upd_active s1 (Some b'))) mk) as [[c' nc] f] eqn:D.
    destruct (delete_in_closed_spec _ _ _ _ _ D) as (Hf & Hid & Hok).
    assert (H3 : IdsOkS (upd_f2 (upd_closed (upd_active s1 (Some b')) c') f)).
    { generalize (IdsOkS_upd_closed _ c' Hid H2). apply IdsOkS_ext; reflexivity. }
    destruct (0 <? nc); cbn [fst]; [apply IdsOkS_request_dump, H3|exact H3].
  - cbn [negb].
    destruct (delete_in_closed K (s_closed s1) mk) as [[c' nc] f] eqn:D.
    destruct (delete_in_closed_spec _ _ _ _ _ D) as (Hf & Hid & Hok).
    assert (H3 : IdsOkS (upd_f2 (upd_closed s1 c') f)).
    { generalize (IdsOkS_upd_closed _ c' Hid H1). apply IdsOkS_ext; reflexivity. }
    destruct (0 <? nc); cbn [fst]; [apply IdsOkS_request_dump, H3|exact H3].
Qed.

Lemma ids_dump_all_closed s : ids (dump_all_closed K s) = ids s.
Proof.
  rewrite !ids_eq. unfold dump_all_closed. cbn [upd_closed s_closed s_active].
  rewrite cb_map_opt, (map_id_ext _ _ blob_dump_id). reflexivity.
Qed.

Lemma ids_quiesce s : ids (quiesce K s) = ids s.
Proof.
  unfold quiesce. destruct (s_alive s && s_dump_req s); [|reflexivity].
  rewrite <- (ids_dump_all_closed s). rewrite !ids_eq. reflexivity.
Qed.

Theorem quiesce_IdsOk : forall s, IdsOk s -> IdsOk (quiesce K s).
Proof.
  intros s. apply IdsOk_same; [apply ids_quiesce| |];
    unfold quiesce; destruct (s_alive s && s_dump_req s); reflexivity.
Qed.

Lemma ids_closed_state files s : ids (closed_state files s) = map b_id files.
Proof. rewrite ids_eq. cbn [closed_state s_closed s_active]. rewrite cb_map_Some, app_nil_r. reflexivity. Qed.

Lemma increasing_closed s : increasing (ids s) -> increasing (map b_id (closed_blobs s)).
Proof. rewrite ids_eq, closed_blobs_cb. apply increasing_app_l. Qed.

(* what `open` makes of an id-ordered directory: the same blobs, in the same order *)
Lemma do_open_order files c lazy f2 : increasing (map b_id files) -> files <> [] ->
  map b_id (blobs_in_order (do_open K files c lazy f2)) = map b_id files /\
  flat_map b_recs (blobs_in_order (do_open K files c lazy f2)) = flat_map b_recs files /\
  s_next (do_open K files c lazy f2) =
    match max_id (map (blob_from_file K) files) with Some m => m + 1 | None => 0 end.
Proof.
  intros Hinc Hne. rewrite do_open_nonempty by exact Hne.
  rewrite sort_by_id_increasing by (rewrite (map_id_ext _ _ blob_from_file_id); exact Hinc).
  rewrite <- (map_id_ext _ files blob_from_file_id).
  rewrite <- (flat_map_recs_ext _ files blob_from_file_recs).
  set (blobs := map (blob_from_file K) files). clearbody blobs. cbv zeta.
  unfold blobs_in_order. rewrite !closed_blobs_cb.
  destruct lazy.
  - cbn [s_closed s_active s_next]. rewrite cb_map_some_f, !app_nil_r.
    rewrite (map_id_ext _ _ blob_dump_id), (flat_map_recs_ext _ _ blob_dump_recs). auto.
  - destruct (rev blobs) as [|last r] eqn:R.
    + cbn [s_closed s_active s_next map]. apply (f_equal (@rev blob)) in R. rewrite rev_involutive in R.
      subst blobs. auto.
    + apply rev_cons_inv in R. cbn [s_closed s_active s_next]. rewrite cb_map_some_f. subst blobs.
      rewrite !map_app, !flat_map_app. cbn [map flat_map].
      rewrite (map_id_ext _ _ blob_dump_id), (flat_map_recs_ext _ _ blob_dump_recs).
      rewrite blob_load_index_id, blob_load_index_recs. auto.
Qed.

Lemma do_open_IdsOkS files c lazy f2 : increasing (map b_id files) -> IdsOkS (do_open K files c lazy f2).
Proof.
  intros Hinc. destruct files as [|f0 fs] eqn:EF.
  - cbn [do_open]. split.
    + unfold ids, blobs_in_order. cbn. auto.
    + unfold ids, blobs_in_order. cbn [closed_blobs s_closed s_active flat_map app map new_blob b_id s_next].
      intros i [<-|[]]. lia.
  - rewrite <- EF in *. assert (Hne : files <> []) by (rewrite EF; discriminate).
    destruct (do_open_order files c lazy f2 Hinc Hne) as (Hi & _ & Hn).
    unfold IdsOkS, ids. rewrite Hi, Hn. split; [exact Hinc|].
    intros i Hin. apply in_map_iff in Hin. destruct Hin as (b & <- & Hb).
    rewrite <- (blob_from_file_id b). apply max_id_bound. apply in_map. exact Hb.
Qed.

Theorem init_IdsOk : IdsOk init_storage.
Proof. split; [exact I|]. intros _ b []. Qed.

Theorem step_IdsOk : forall s o, IdsOk s -> IdsOk (fst (step K cfg s o)).
Proof.
  intros s o H. unfold step. destruct (needs_open o && negb (s_open s)) eqn:EN; [exact H|].
  destruct o; try exact H.
  all: try (cbn [needs_open andb] in EN; apply negb_false_iff in EN; pose proof (IdsOk_IdsOkS s H EN) as HS).
  - apply IdsOkS_IdsOk, do_write_IdsOkS, HS.
  - apply IdsOkS_IdsOk, do_delete_IdsOkS, HS.
  - pose proof (IdsOkS_close_active s HS) as H1. destruct (close_active s) as [s' e].
    cbn [fst] in *. apply IdsOkS_IdsOk, IdsOkS_request_dump, H1.
  - pose proof (IdsOkS_create_active s HS) as H1. destruct (create_active s) as [s' e].
    cbn [fst] in *. apply IdsOkS_IdsOk, H1.
  - pose proof (IdsOkS_restore_active s HS) as H1. destruct (restore_active K s) as [s' e].
    cbn [fst] in *. apply IdsOkS_IdsOk, H1.
  - cbn [fst]. apply IdsOkS_IdsOk, IdsOkS_request_dump, IdsOkS_worker; [apply IdsOkS_close_active|exact HS].
  - cbn [fst]. apply IdsOkS_IdsOk, IdsOkS_worker; [apply IdsOkS_create_active|exact HS].
  - cbn [fst]. apply IdsOkS_IdsOk, IdsOkS_worker; [apply IdsOkS_restore_active|exact HS].
  - cbn [fst]. apply IdsOkS_IdsOk, IdsOkS_request_dump.
    destruct (s_alive s && eval_pred pred s); [apply IdsOkS_replace_active, HS|exact HS].
  - cbn [fst]. apply IdsOkS_IdsOk, IdsOkS_request_dump, HS.
  - cbn [fst]. apply quiesce_IdsOk, H.
  - cbn [fst]. apply IdsOkS_IdsOk. revert HS. apply IdsOkS_same; [|reflexivity].
    rewrite ids_closed_state, ids_eq. unfold do_close. rewrite map_app, closed_blobs_cb.
    destruct (s_active s) as [a|]; [|reflexivity]. cbn [map]. rewrite blob_dump_id. reflexivity.
  - cbn [fst]. apply IdsOkS_IdsOk. revert HS. apply IdsOkS_same; [|reflexivity].
    rewrite ids_closed_state, ids_eq. rewrite map_app, closed_blobs_cb.
    destruct (s_active s) as [a|]; reflexivity.
  - destruct (s_open s); cbn [fst]; [exact H|].
    apply IdsOkS_IdsOk, do_open_IdsOkS. apply increasing_closed. apply IdsOk_iff in H. apply H.
  - cbn [fst]. revert H. apply IdsOk_same; [|reflexivity|reflexivity].
    rewrite !ids_eq. cbn [upd_closed s_closed s_active]. rewrite cb_map_opt.
    rewrite map_id_ext; [reflexivity|]. intros b. destruct (b_id b =? id); reflexivity.
Qed.

Theorem run_IdsOk : forall ops s, IdsOk s -> IdsOk (fst (run K cfg s ops)).
Proof.
  induction ops as [|o ops IH]; intros s H; cbn [run]; [exact H|].
  unfold step_q. pose proof (step_IdsOk s o H) as H1. destruct (step K cfg s o) as [s' x]. cbn [fst] in H1.
  specialize (IH (quiesce K s') (quiesce_IdsOk s' H1)).
  destruct (run K cfg (quiesce K s') ops) as [s'' xs]. exact IH.
Qed.

(* ---------- the abstraction ---------- *)
Lemma abs_eq s :
  abs s = flat_map b_recs (cb (s_closed s)) ++ match s_active s with Some b => b_recs b | None => [] end.
Proof.
  unfold abs, blobs_in_order. rewrite flat_map_app, closed_blobs_cb.
  destruct (s_active s); [cbn [flat_map]; rewrite app_nil_r|]; reflexivity.
Qed.

Lemma abs_ext s s' : s_closed s' = s_closed s -> s_active s' = s_active s -> abs s' = abs s.
Proof. intros Hc Ha. rewrite !abs_eq, Hc, Ha. reflexivity. Qed.

Lemma abs_request_dump s : abs (request_dump s) = abs s.
Proof. unfold request_dump. destruct (s_alive s); reflexivity. Qed.

Lemma abs_ensure_active s : abs (ensure_active s) = abs s.
Proof.
  unfold ensure_active. destruct (s_active s) as [a|] eqn:E; [reflexivity|].
  rewrite !abs_eq, E. reflexivity.
Qed.

Lemma abs_close_active s : abs (fst (close_active s)) = abs s.
Proof.
  unfold close_active. destruct (s_active s) as [a|] eqn:E; cbn [fst]; [|reflexivity].
  rewrite !abs_eq, E. cbn [push_closed upd_closed upd_active s_closed s_active].
  rewrite cb_app, flat_map_app, app_nil_r. cbn [cb flat_map app]. rewrite !app_nil_r. reflexivity.
Qed.

Lemma abs_create_active s : abs (fst (create_active s)) = abs s.
Proof. unfold create_active. destruct (s_active s) as [a|]; [reflexivity|apply abs_ensure_active]. Qed.

Lemma abs_restore_active s : abs (fst (restore_active K s)) = abs s.
Proof.
  unfold restore_active. destruct (s_active s) as [a|] eqn:E; cbn [fst]; [reflexivity|].
  destruct (pop_last (s_closed s)) as [[b c]|] eqn:P; cbn [fst]; [|reflexivity].
  rewrite !abs_eq, E. cbn [upd_closed upd_active s_closed s_active].
  rewrite (pop_last_cb _ _ _ P), flat_map_app. cbn [flat_map]. rewrite !app_nil_r, blob_load_index_recs. reflexivity.
Qed.

Lemma abs_worker s f : (forall s, abs (fst (f s)) = abs s) -> abs (worker s f) = abs s.
Proof.
  intros Hf. unfold worker. destruct (s_alive s); [|reflexivity].
  specialize (Hf s). destruct (f s) as [s' [e|]]; exact Hf.
Qed.

Lemma abs_replace_active s : abs (replace_active s) = abs s.
Proof.
  unfold replace_active. rewrite !abs_eq. cbn [s_closed s_active new_blob b_recs].
  destruct (s_active s) as [a|].
  - cbn [push_closed upd_closed s_closed]. rewrite cb_app, flat_map_app. cbn [cb flat_map app].
    rewrite !app_nil_r. reflexivity.
  - reflexivity.
Qed.

Theorem quiesce_abs : forall s, abs (quiesce K s) = abs s.
Proof.
  intros s. unfold quiesce. destruct (s_alive s && s_dump_req s); [|reflexivity].
  rewrite !abs_eq. cbn [upd_dump_req dump_all_closed upd_closed s_closed s_active].
  rewrite cb_map_opt, (flat_map_recs_ext _ _ blob_dump_recs). reflexivity.
Qed.

Lemma abs_closed_state files s : abs (closed_state files s) = flat_map b_recs files.
Proof. rewrite abs_eq. cbn [closed_state s_closed s_active]. rewrite cb_map_Some, app_nil_r. reflexivity. Qed.

Definition is_data_op (o : op) : bool :=
  match o with OWrite _ _ _ _ _ _ | ODelete _ _ _ _ _ => true | _ => false end.

(* see the header comment for the NoActiveWhenClosed hypothesis *)
Theorem nondata_abs : forall s o, is_data_op o = false -> IdsOk s -> NoActiveWhenClosed s ->
  abs (fst (step K cfg s o)) = abs s.
Proof.
  intros s o Hd H HN. unfold step. destruct (needs_open o && negb (s_open s)); [reflexivity|].
  destruct o; try discriminate Hd; try reflexivity.
  - pose proof (abs_close_active s) as H1. destruct (close_active s) as [s' e].
    cbn [fst] in *. rewrite abs_request_dump. exact H1.
  - pose proof (abs_create_active s) as H1. destruct (create_active s) as [s' e]. exact H1.
  - pose proof (abs_restore_active s) as H1. destruct (restore_active K s) as [s' e]. exact H1.
  - cbn [fst]. rewrite abs_request_dump. apply abs_worker, abs_close_active.
  - cbn [fst]. apply abs_worker, abs_create_active.
  - cbn [fst]. apply abs_worker, abs_restore_active.
  - cbn [fst]. rewrite abs_request_dump.
    destruct (s_alive s && eval_pred pred s); [apply abs_replace_active|reflexivity].
  - cbn [fst]. apply abs_request_dump.
  - cbn [fst]. apply quiesce_abs.
  - cbn [fst]. rewrite abs_closed_state, abs_eq. unfold do_close. rewrite flat_map_app, closed_blobs_cb.
    destruct (s_active s) as [a|]; [|reflexivity]. cbn [flat_map]. rewrite blob_dump_recs, app_nil_r. reflexivity.
  - cbn [fst]. rewrite abs_closed_state, abs_eq. rewrite flat_map_app, closed_blobs_cb.
    destruct (s_active s) as [a|]; [|reflexivity]. cbn [flat_map]. rewrite app_nil_r. reflexivity.
  - destruct (s_open s) eqn:EO; cbn [fst]; [reflexivity|].
    rewrite (abs_eq s), (HN EO), app_nil_r, <- closed_blobs_cb.
    apply IdsOk_iff in H. destruct H as [Hinc _]. apply increasing_closed in Hinc.
    destruct (closed_blobs s) as [|f0 fs] eqn:EF; [reflexivity|].
    rewrite <- EF in *. assert (Hne : closed_blobs s <> []) by (rewrite EF; discriminate).
    destruct (do_open_order (closed_blobs s) (s_corrupted s) lazy (s_f2 s) Hinc Hne) as (_ & Hr & _).
    exact Hr.
  - cbn [fst]. rewrite !abs_eq. cbn [upd_closed s_closed s_active]. rewrite cb_map_opt.
    rewrite flat_map_recs_ext; [reflexivity|]. intros b. destruct (b_id b =? id); reflexivity.
Qed.

(* ---------- why nondata_abs needs NoActiveWhenClosed ---------- *)
Definition r0 : rec := mk_rec 0 0 false None 0 0 0.
Definition cex_blob : blob :=
  {| b_id := 0; b_recs := [r0]; b_idx := index_of [r0]; b_ondisk := false; b_idxfile := None |}.
Definition cex_closed : storage :=
  {| s_active := Some cex_blob; s_closed := []; s_next := 1; s_corrupted := 0; s_alive := false;
     s_dump_req := false; s_aged := false; s_open := false; s_f2 := false |}.

Lemma cex_blob_ok : blob_ok K cex_blob.
Proof. split; [reflexivity|exact I]. Qed.

(* IdsOk and BlobsOk do not say that a closed storage has no active blob; on such a state OOpen
   loses the records of the active blob (the state is not reachable: run_NoActiveWhenClosed) *)
Lemma nondata_abs_needs_NoActiveWhenClosed :
  IdsOk cex_closed /\ BlobsOk K cex_closed /\ s_open cex_closed = false /\
  abs (fst (step K cfg cex_closed (OOpen false))) <> abs cex_closed.
Proof.
  split; [|split; [|split]].
  - split; [split; exact I|]. intros Ho. discriminate Ho.
  - split; [intros b []|]. intros b E. injection E as <-. apply cex_blob_ok.
  - reflexivity.
  - assert (E1 : abs (fst (step K cfg cex_closed (OOpen false))) = []) by reflexivity.
    assert (E2 : abs cex_closed = [r0]) by reflexivity.
    rewrite E1, E2. discriminate.
Qed.

(* ---------- a closed storage has no active blob ---------- *)
Lemma open_request_dump s : s_open (request_dump s) = s_open s.
Proof. unfold request_dump. destruct (s_alive s); reflexivity. Qed.

Lemma open_ensure_active s : s_open (ensure_active s) = s_open s.
Proof. unfold ensure_active. destruct (s_active s); reflexivity. Qed.

Lemma open_close_active s : s_open (fst (close_active s)) = s_open s.
Proof. unfold close_active. destruct (s_active s); reflexivity. Qed.

Lemma open_create_active s : s_open (fst (create_active s)) = s_open s.
Proof. unfold create_active. destruct (s_active s); [reflexivity|apply open_ensure_active]. Qed.

Lemma open_restore_active s : s_open (fst (restore_active K s)) = s_open s.
Proof.
  unfold restore_active. destruct (s_active s); [reflexivity|].
  destruct (pop_last (s_closed s)) as [[b c]|]; reflexivity.
Qed.

Lemma open_worker s f : (forall s, s_open (fst (f s)) = s_open s) -> s_open (worker s f) = s_open s.
Proof.
  intros Hf. unfold worker. destruct (s_alive s); [|reflexivity].
  specialize (Hf s). destruct (f s) as [s' [e|]]; exact Hf.
Qed.

Lemma open_maybe_rotate s : s_open (maybe_rotate K cfg s) = s_open s.
Proof.
  unfold maybe_rotate. destruct (s_active s) as [a|]; [|reflexivity].
  destruct (blob_full K cfg a && s_aged s && s_alive s); [|reflexivity].
  rewrite open_request_dump. reflexivity.
Qed.

Lemma open_quiesce s : s_open (quiesce K s) = s_open s.
Proof. unfold quiesce. destruct (s_alive s && s_dump_req s); reflexivity. Qed.

Lemma open_do_write s k ts meta msize dlen dseed :
  s_open (fst (do_write K cfg s k ts meta msize dlen dseed)) = s_open s.
Proof.
  unfold do_write. rewrite <- (open_ensure_active s).
  set (s1 := ensure_active s). clearbody s1.
  destruct (negb (c_dup cfg) && is_found (get_latest_entry s1 k meta)); cbn [fst]; [reflexivity|].
  destruct (s_active s1) as [a|]; cbn [fst]; [|reflexivity].
  destruct (blob_append a (mk_rec k ts false meta msize dlen dseed)) as [b' ok].
  destruct ok; cbn [fst]; [rewrite open_maybe_rotate|]; reflexivity.
Qed.

Lemma open_do_delete s k ts meta msize oip :
  s_open (fst (do_delete K s k ts meta msize oip)) = s_open s.
Proof.
  unfold do_delete.
  assert (H1 : s_open (if oip then s else ensure_active s) = s_open s).
  { destruct oip; [reflexivity|apply open_ensure_active]. }
  rewrite <- H1. set (s1 := if oip then s else ensure_active s). clearbody s1.
  set (mk := mk_rec k ts true meta msize 0 0).
  destruct (s_active s1) as [a|].
  - destruct (blob_delete K a mk oip) as [[b' d] ok].
    destruct (negb ok); cbn [fst]; [reflexivity|].
    destruct (delete_in_closed K (s_closed (upd_active s1 (Some b'))) mk) as [[c' nc] f].
    destruct (0 <? nc); cbn [fst]; [rewrite open_request_dump|]; reflexivity.
  - cbn [negb]. destruct (delete_in_closed K (s_closed s1) mk) as [[c' nc] f].
    destruct (0 <? nc); cbn [fst]; [rewrite open_request_dump|]; reflexivity.
Qed.

Lemma open_do_open files c lazy f2 : s_open (do_open K files c lazy f2) = true.
Proof.
  unfold do_open. destruct files as [|f0 fs]; [reflexivity|]. destruct lazy; [reflexivity|].
  destruct (rev (sort_by_id (map (blob_from_file K) (f0 :: fs)))); reflexivity.
Qed.

Theorem init_NoActiveWhenClosed : NoActiveWhenClosed init_storage.
Proof. intros _. reflexivity. Qed.

Theorem step_NoActiveWhenClosed : forall s o,
  NoActiveWhenClosed s -> NoActiveWhenClosed (fst (step K cfg s o)).
Proof.
  intros s o H. unfold step. destruct (needs_open o && negb (s_open s)) eqn:EN; [exact H|].
  destruct o; try exact H.
  all: try (cbn [needs_open andb] in EN; apply negb_false_iff in EN).
  all: try (intros _; reflexivity).
  all: unfold NoActiveWhenClosed; intros Ho; exfalso.
  - rewrite open_do_write in Ho. congruence.
  - rewrite open_do_delete in Ho. congruence.
  - pose proof (open_close_active s) as H1. destruct (close_active s) as [s' e].
    cbn [fst] in *. rewrite open_request_dump in Ho. congruence.
  - pose proof (open_create_active s) as H1. destruct (create_active s) as [s' e].
    cbn [fst] in *. congruence.
  - pose proof (open_restore_active s) as H1. destruct (restore_active K s) as [s' e].
    cbn [fst] in *. congruence.
  - cbn [fst] in Ho. rewrite open_request_dump, open_worker in Ho by apply open_close_active. congruence.
  - cbn [fst] in Ho. rewrite open_worker in Ho by apply open_create_active. congruence.
  - cbn [fst] in Ho. rewrite open_worker in Ho by apply open_restore_active. congruence.
  - cbn [fst] in Ho. rewrite open_request_dump in Ho.
    destruct (s_alive s && eval_pred pred s); cbn [replace_active s_open] in Ho; congruence.
  - cbn [fst] in Ho. rewrite open_request_dump in Ho. congruence.
  - cbn [fst] in Ho. rewrite open_quiesce in Ho. congruence.
  - destruct (s_open s) eqn:EO; cbn [fst] in Ho; [congruence|].
    rewrite open_do_open in Ho. discriminate.
Qed.

Theorem quiesce_NoActiveWhenClosed : forall s, NoActiveWhenClosed s -> NoActiveWhenClosed (quiesce K s).
Proof. intros s H. unfold quiesce. destruct (s_alive s && s_dump_req s); exact H. Qed.

Theorem run_NoActiveWhenClosed : forall ops s,
  NoActiveWhenClosed s -> NoActiveWhenClosed (fst (run K cfg s ops)).
Proof.
  induction ops as [|o ops IH]; intros s H; cbn [run]; [exact H|].
  unfold step_q. pose proof (step_NoActiveWhenClosed s o H) as H1.
  destruct (step K cfg s o) as [s' x]. cbn [fst] in H1.
  specialize (IH (quiesce K s') (quiesce_NoActiveWhenClosed s' H1)).
  destruct (run K cfg (quiesce K s') ops) as [s'' xs]. exact IH.
Qed.

Theorem step_q_nondata_abs : forall s o,
  is_data_op o = false -> IdsOk s -> NoActiveWhenClosed s -> abs (fst (step_q K cfg s o)) = abs s.
Proof.
  intros s o Hd H HN. unfold step_q. pose proof (nondata_abs s o Hd H HN) as H1.
  destruct (step K cfg s o) as [s' r]. cbn [fst] in *. rewrite quiesce_abs. exact H1.
Qed.

(* ---------- the combined invariant ---------- *)
Theorem init_Inv : Inv K init_storage.
Proof. split; [apply init_BlobsOk|]. split; [apply init_IdsOk|apply init_NoActiveWhenClosed]. Qed.

Theorem step_Inv : forall s o,
  Inv K s -> s_f2 (fst (step K cfg s o)) = false -> Inv K (fst (step K cfg s o)).
Proof.
  intros s o (HB & HI & HN) F. split; [apply step_BlobsOk; assumption|].
  split; [apply step_IdsOk, HI|apply step_NoActiveWhenClosed, HN].
Qed.

Theorem quiesce_Inv : forall s, Inv K s -> Inv K (quiesce K s).
Proof.
  intros s (HB & HI & HN). split; [apply quiesce_BlobsOk, HB|].
  split; [apply quiesce_IdsOk, HI|apply quiesce_NoActiveWhenClosed, HN].
Qed.

Theorem step_q_Inv : forall s o,
  Inv K s -> s_f2 (fst (step_q K cfg s o)) = false -> Inv K (fst (step_q K cfg s o)).
Proof.
  intros s o H. unfold step_q. pose proof (step_Inv s o H) as H1.
  destruct (step K cfg s o) as [s' r]. cbn [fst] in *. rewrite f2_quiesce. intros F.
  apply quiesce_Inv, H1, F.
Qed.

Theorem run_Inv : forall ops s,
  Inv K s -> s_f2 (fst (run K cfg s ops)) = false -> Inv K (fst (run K cfg s ops)).
Proof.
  induction ops as [|o ops IH]; intros s H F; cbn [run] in *; [exact H|].
  pose proof (step_q_Inv s o H) as H1. pose proof (f2_monotone_run ops (fst (step_q K cfg s o))) as HM.
  destruct (step_q K cfg s o) as [s' x]. cbn [fst] in *.
  specialize (IH s'). destruct (run K cfg s' ops) as [s'' xs]. cbn [fst] in *.
  assert (F1 : s_f2 s' = false).
  { destruct (s_f2 s'); [|reflexivity]. rewrite HM in F by reflexivity. discriminate. }
  apply IH; [apply H1, F1|exact F].
Qed.

(* ---------- the active blob's index is in memory: F2 is unreachable ---------- *)
(* Every place that installs an active blob installs one whose index is in memory: new_blob
   (ensure_active, replace_active, init_new), blob_load_index (eager open, restore_active -- the
   repair of F2 --, push_deletion_record); blob_append keeps the state of the index; close and drop
   leave no active blob; the background dump touches closed blobs only. *)
Definition ActiveInMemory (s : storage) : Prop := forall b, s_active s = Some b -> b_ondisk b = false.

Lemma aim_ext s s' : s_active s' = s_active s -> ActiveInMemory s -> ActiveInMemory s'.
Proof. unfold ActiveInMemory. intros ->. auto. Qed.

Lemma aim_none s : s_active s = None -> ActiveInMemory s.
Proof. intros E b Hb. rewrite E in Hb. discriminate. Qed.

Lemma aim_some s b : s_active s = Some b -> b_ondisk b = false -> ActiveInMemory s.
Proof. intros E D x Hx. rewrite E in Hx. injection Hx as <-. exact D. Qed.

Theorem init_ActiveInMemory : ActiveInMemory init_storage.
Proof. apply aim_none. reflexivity. Qed.

Lemma aim_request_dump s : ActiveInMemory s -> ActiveInMemory (request_dump s).
Proof. unfold request_dump. destruct (s_alive s); [|auto]. apply aim_ext; reflexivity. Qed.

Lemma aim_ensure_active s : ActiveInMemory s -> ActiveInMemory (ensure_active s).
Proof.
  intros H. unfold ensure_active. destruct (s_active s) as [a|] eqn:E; [exact H|].
  apply (aim_some _ (new_blob (s_next s))); reflexivity.
Qed.

Lemma aim_close_active s : ActiveInMemory s -> ActiveInMemory (fst (close_active s)).
Proof.
  intros H. unfold close_active. destruct (s_active s) as [a|] eqn:E; cbn [fst]; [|exact H].
  apply aim_none. reflexivity.
Qed.

Lemma aim_create_active s : ActiveInMemory s -> ActiveInMemory (fst (create_active s)).
Proof.
  intros H. unfold create_active. destruct (s_active s) as [a|] eqn:E; cbn [fst]; [exact H|].
  apply aim_ensure_active, H.
Qed.

Lemma aim_restore_active s : ActiveInMemory s -> ActiveInMemory (fst (restore_active K s)).
Proof.
  intros H. unfold restore_active. destruct (s_active s) as [a|] eqn:E; cbn [fst]; [exact H|].
  destruct (pop_last (s_closed s)) as [[b c]|] eqn:P; cbn [fst]; [|exact H].
  apply (aim_some _ (blob_load_index K b)); [reflexivity|apply blob_load_index_mem].
Qed.

Lemma aim_worker s f :
  (forall s, ActiveInMemory s -> ActiveInMemory (fst (f s))) -> ActiveInMemory s -> ActiveInMemory (worker s f).
Proof.
  intros Hf H. unfold worker. destruct (s_alive s); [|exact H].
  specialize (Hf s H). destruct (f s) as [s' [e|]]; cbn [fst] in Hf; [|exact Hf].
  revert Hf. apply aim_ext; reflexivity.
Qed.

Lemma aim_replace_active s : ActiveInMemory (replace_active s).
Proof. apply (aim_some _ (new_blob (s_next s))); reflexivity. Qed.

Lemma aim_maybe_rotate s : ActiveInMemory s -> ActiveInMemory (maybe_rotate K cfg s).
Proof.
  intros H. unfold maybe_rotate. destruct (s_active s) as [a|]; [|exact H].
  destruct (blob_full K cfg a && s_aged s && s_alive s); [|exact H].
  apply aim_request_dump, aim_replace_active.
Qed.

Theorem quiesce_ActiveInMemory : forall s, ActiveInMemory s -> ActiveInMemory (quiesce K s).
Proof.
  intros s. unfold quiesce. destruct (s_alive s && s_dump_req s); [|auto]. apply aim_ext; reflexivity.
Qed.

Lemma blob_append_ondisk b r : b_ondisk (fst (blob_append b r)) = b_ondisk b.
Proof. unfold blob_append. destruct (b_ondisk b) eqn:D; cbn [fst b_ondisk]; [reflexivity|reflexivity]. Qed.

Lemma blob_delete_mem b mk oip :
  b_ondisk b = false -> b_ondisk (fst (fst (blob_delete K b mk oip))) = false.
Proof.
  intros Hd. unfold blob_delete.
  destruct (negb oip || match idx_get_latest (b_idx b) (r_key mk) with Found _ => true | _ => false end);
    [|exact Hd].
  pose proof (blob_append_ondisk (blob_load_index K b) mk) as Ha.
  destruct (blob_append (blob_load_index K b) mk) as [b2 ok]. cbn [fst] in *.
  rewrite Ha. apply blob_load_index_mem.
Qed.

Lemma aim_do_open files c lazy f2 : ActiveInMemory (do_open K files c lazy f2).
Proof.
  unfold do_open. destruct files as [|f0 fs]; [apply (aim_some _ (new_blob 0)); reflexivity|].
  destruct lazy; [apply aim_none; reflexivity|].
  destruct (rev (sort_by_id (map (blob_from_file K) (f0 :: fs)))) as [|last r];
    [apply aim_none; reflexivity|].
  apply (aim_some _ (blob_load_index K last)); [reflexivity|apply blob_load_index_mem].
Qed.

(* with the active index in memory a write is acknowledged, or refused for another reason, and the
   ghost flag stays as it was *)
Lemma do_write_mem s k ts meta msize dlen dseed :
  ActiveInMemory s ->
  ActiveInMemory (fst (do_write K cfg s k ts meta msize dlen dseed)) /\
  s_f2 (fst (do_write K cfg s k ts meta msize dlen dseed)) = s_f2 s /\
  snd (do_write K cfg s k ts meta msize dlen dseed) <> RErr EIndex.
Proof.
  intros H. unfold do_write. pose proof (aim_ensure_active s H) as H1. rewrite <- (f2_ensure_active s).
  set (s1 := ensure_active s) in *. clearbody s1.
  destruct (negb (c_dup cfg) && is_found (get_latest_entry s1 k meta)); cbn [fst snd];
    [split; [exact H1|split; [reflexivity|discriminate]]|].
  destruct (s_active s1) as [a|] eqn:EA; cbn [fst snd];
    [|split; [exact H1|split; [reflexivity|discriminate]]].
  pose proof (blob_append_mem a (mk_rec k ts false meta msize dlen dseed) (H1 a EA)) as Hok.
  pose proof (blob_append_ondisk a (mk_rec k ts false meta msize dlen dseed)) as Hd.
  destruct (blob_append a (mk_rec k ts false meta msize dlen dseed)) as [b' ok].
  cbn [fst snd] in Hok, Hd. subst ok. cbn [fst snd]. split; [|split; [|discriminate]].
  - apply aim_maybe_rotate, (aim_some _ b'); [reflexivity|]. rewrite Hd. apply H1, EA.
  - rewrite f2_maybe_rotate. reflexivity.
Qed.

Lemma ensure_active_some s : exists a, s_active (ensure_active s) = Some a.
Proof.
  unfold ensure_active. destruct (s_active s) as [a|] eqn:E; [exists a; exact E|].
  exists (new_blob (s_next s)). reflexivity.
Qed.

(* with the active index in memory every write is acknowledged *)
Lemma do_write_ack s k ts meta msize dlen dseed :
  ActiveInMemory s -> snd (do_write K cfg s k ts meta msize dlen dseed) = RUnit.
Proof.
  intros H. unfold do_write. pose proof (aim_ensure_active s H) as H1.
  destruct (ensure_active_some s) as [a EA].
  set (s1 := ensure_active s) in *. clearbody s1.
  destruct (negb (c_dup cfg) && is_found (get_latest_entry s1 k meta)); [reflexivity|].
  rewrite EA.
  pose proof (blob_append_mem a (mk_rec k ts false meta msize dlen dseed) (H1 a EA)) as Hok.
  destruct (blob_append a (mk_rec k ts false meta msize dlen dseed)) as [b' ok].
  cbn [snd] in Hok. subst ok. reflexivity.
Qed.

(* a delete never fails with the index error, whatever the state (blob_delete_spec) *)
Lemma do_delete_mem s k ts meta msize oip :
  ActiveInMemory s ->
  ActiveInMemory (fst (do_delete K s k ts meta msize oip)) /\
  s_f2 (fst (do_delete K s k ts meta msize oip)) = s_f2 s /\
  snd (do_delete K s k ts meta msize oip) <> RErr EIndex.
Proof.
  intros H. unfold do_delete.
  assert (H1 : ActiveInMemory (if oip then s else ensure_active s)).
  { destruct oip; [exact H|apply aim_ensure_active, H]. }
  assert (F1 : s_f2 (if oip then s else ensure_active s) = s_f2 s).
  { destruct oip; [reflexivity|apply f2_ensure_active]. }
  rewrite <- F1. set (s1 := if oip then s else ensure_active s) in *. clearbody s1.
  set (mk := mk_rec k ts true meta msize 0 0).
  destruct (s_active s1) as [a|] eqn:EA.
  - pose proof (blob_delete_mem a mk oip (H1 a EA)) as Hd.
    destruct (blob_delete K a mk oip) as [[b' d] ok] eqn:B.
    destruct (blob_delete_spec _ _ _ _ _ _ B) as (Hk & _ & _). subst ok. cbn [negb fst] in *.
    destruct (delete_in_closed K (s_closed (upd_active s1 (Some b'))) mk) as [[c' nc] f] eqn:D.
    destruct (delete_in_closed_spec _ _ _ _ _ D) as (Hf & _ & _). subst f.
    destruct (0 <? nc); cbn [fst snd]; (split; [|split; [|discriminate]]).
    + apply aim_request_dump, (aim_some _ b'); [reflexivity|exact Hd].
    + rewrite f2_request_dump. cbn [s_f2 upd_f2 upd_closed upd_active]. apply orb_false_r.
    + apply (aim_some _ b'); [reflexivity|exact Hd].
    + cbn [s_f2 upd_f2 upd_closed upd_active]. apply orb_false_r.
  - cbn [negb].
    destruct (delete_in_closed K (s_closed s1) mk) as [[c' nc] f] eqn:D.
    destruct (delete_in_closed_spec _ _ _ _ _ D) as (Hf & _ & _). subst f.
    destruct (0 <? nc); cbn [fst snd]; (split; [|split; [|discriminate]]).
    + apply aim_request_dump. revert H1. apply aim_ext; reflexivity.
    + rewrite f2_request_dump. cbn [s_f2 upd_f2 upd_closed]. apply orb_false_r.
    + revert H1. apply aim_ext; reflexivity.
    + cbn [s_f2 upd_f2 upd_closed]. apply orb_false_r.
Qed.

Theorem step_ActiveInMemory : forall s o, ActiveInMemory s -> ActiveInMemory (fst (step K cfg s o)).
Proof.
  intros s o H. unfold step. destruct (needs_open o && negb (s_open s)); [exact H|].
  destruct o; try exact H.
  - apply do_write_mem, H.
  - apply do_delete_mem, H.
  - pose proof (aim_close_active s H) as H1. destruct (close_active s) as [s' e].
    cbn [fst] in *. apply aim_request_dump, H1.
  - pose proof (aim_create_active s H) as H1. destruct (create_active s) as [s' e]. exact H1.
  - pose proof (aim_restore_active s H) as H1. destruct (restore_active K s) as [s' e]. exact H1.
  - cbn [fst]. apply aim_request_dump, aim_worker; [apply aim_close_active|exact H].
  - cbn [fst]. apply aim_worker; [apply aim_create_active|exact H].
  - cbn [fst]. apply aim_worker; [apply aim_restore_active|exact H].
  - cbn [fst]. apply aim_request_dump.
    destruct (s_alive s && eval_pred pred s); [apply aim_replace_active|exact H].
  - cbn [fst]. apply aim_request_dump, H.
  - cbn [fst]. apply quiesce_ActiveInMemory, H.
  - cbn [fst]. apply aim_none. reflexivity.
  - cbn [fst]. apply aim_none. reflexivity.
  - destruct (s_open s); cbn [fst]; [exact H|apply aim_do_open].
Qed.

Lemma f2_do_open files c lazy f2 : s_f2 (do_open K files c lazy f2) = f2.
Proof.
  unfold do_open. destruct files as [|f0 fs]; [reflexivity|]. destruct lazy; [reflexivity|].
  destruct (rev (sort_by_id (map (blob_from_file K) (f0 :: fs)))); reflexivity.
Qed.

(* no operation raises the ghost flag *)
Theorem step_f2_eq : forall s o, ActiveInMemory s -> s_f2 (fst (step K cfg s o)) = s_f2 s.
Proof.
  intros s o H. unfold step. destruct (needs_open o && negb (s_open s)); [reflexivity|].
  destruct o; try reflexivity.
  - apply do_write_mem, H.
  - apply do_delete_mem, H.
  - pose proof (f2_close_active s) as H1. destruct (close_active s) as [s' e].
    cbn [fst] in *. rewrite f2_request_dump. exact H1.
  - pose proof (f2_create_active s) as H1. destruct (create_active s) as [s' e]. exact H1.
  - pose proof (f2_restore_active s) as H1. destruct (restore_active K s) as [s' e]. exact H1.
  - cbn [fst]. rewrite f2_request_dump. apply f2_worker, f2_close_active.
  - cbn [fst]. apply f2_worker, f2_create_active.
  - cbn [fst]. apply f2_worker, f2_restore_active.
  - cbn [fst]. rewrite f2_request_dump. destruct (s_alive s && eval_pred pred s); reflexivity.
  - cbn [fst]. apply f2_request_dump.
  - cbn [fst]. apply f2_quiesce.
  - destruct (s_open s); cbn [fst]; [reflexivity|apply f2_do_open].
Qed.

(* ... and no write or delete is refused with ErrorKind::Index *)
Theorem step_no_index_error : forall s o, ActiveInMemory s -> snd (step K cfg s o) <> RErr EIndex.
Proof.
  intros s o H. unfold step. destruct (needs_open o && negb (s_open s)); [discriminate|].
  destruct o; cbn [snd]; try discriminate.
  - apply do_write_mem, H.
  - apply do_delete_mem, H.
  - unfold close_active. destruct (s_active s); discriminate.
  - unfold create_active. destruct (s_active s); discriminate.
  - unfold restore_active. destruct (s_active s); [discriminate|].
    destruct (pop_last (s_closed s)) as [[b c]|]; discriminate.
  - destruct (s_open s); discriminate.
Qed.

Theorem run_ActiveInMemory : forall ops s,
  ActiveInMemory s ->
  ActiveInMemory (fst (run K cfg s ops)) /\ s_f2 (fst (run K cfg s ops)) = s_f2 s.
Proof.
  induction ops as [|o ops IH]; intros s H; cbn [run]; [split; [exact H|reflexivity]|].
  unfold step_q. pose proof (step_ActiveInMemory s o H) as H1. pose proof (step_f2_eq s o H) as F1.
  destruct (step K cfg s o) as [s' x]. cbn [fst] in H1, F1.
  destruct (IH (quiesce K s') (quiesce_ActiveInMemory s' H1)) as [H2 F2].
  destruct (run K cfg (quiesce K s') ops) as [s'' xs]. cbn [fst] in *.
  split; [exact H2|]. rewrite F2, f2_quiesce. exact F1.
Qed.

(* the invariant without the proviso on the ghost flag *)
Theorem run_Inv_mem : forall ops s,
  Inv K s -> ActiveInMemory s -> s_f2 s = false -> Inv K (fst (run K cfg s ops)).
Proof.
  intros ops s HI HA F. apply run_Inv; [exact HI|].
  rewrite (proj2 (run_ActiveInMemory ops s HA)). exact F.
Qed.

End K.

Print Assumptions init_BlobsOk.
Print Assumptions step_BlobsOk.
Print Assumptions quiesce_BlobsOk.
Print Assumptions f2_monotone_step.
Print Assumptions f2_quiesce.
Print Assumptions run_BlobsOk.
Print Assumptions init_IdsOk.
Print Assumptions step_IdsOk.
Print Assumptions quiesce_IdsOk.
Print Assumptions run_IdsOk.
Print Assumptions nondata_abs.
Print Assumptions quiesce_abs.
Print Assumptions step_q_nondata_abs.
Print Assumptions run_NoActiveWhenClosed.
Print Assumptions init_Inv.
Print Assumptions step_Inv.
Print Assumptions step_q_Inv.
Print Assumptions run_Inv.
Print Assumptions nondata_abs_needs_NoActiveWhenClosed.
Print Assumptions step_ActiveInMemory.
Print Assumptions step_f2_eq.
Print Assumptions step_no_index_error.
Print Assumptions run_ActiveInMemory.
Print Assumptions run_Inv_mem.
