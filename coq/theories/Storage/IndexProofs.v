(* Facts about the in-memory index: ordered insertion, lookup, latest = top-ranked. *)
Require Import Pearl.Base.Prelude Pearl.Storage.Model Pearl.Storage.Spec.

(* ---------- imap get / put ---------- *)
Lemma imap_get_put m k v k' : imap_get (imap_put m k v) k' = if k =? k' then Some v else imap_get m k'.
Proof.
  induction m as [|[k0 v0] m IH]; cbn [imap_put imap_get].
  - reflexivity.
  - destruct (N.eqb_spec k k0) as [->|Hne].
    + cbn [imap_get]. destruct (N.eqb_spec k0 k'); reflexivity.
    + destruct (N.ltb_spec k k0).
      * cbn [imap_get]. destruct (N.eqb_spec k k'); reflexivity.
      * cbn [imap_get]. rewrite IH. destruct (N.eqb_spec k0 k') as [->|]; [|reflexivity].
        destruct (N.eqb_spec k k'); [contradiction|reflexivity].
Qed.

Lemma imap_get_push m h k :
  imap_get (imap_push m h) k =
  if r_key h =? k then Some (match imap_get m k with Some v => vec_insert v h | None => [h] end)
  else imap_get m k.
Proof.
  unfold imap_push. destruct (imap_get m (r_key h)) as [v|] eqn:E; rewrite imap_get_put;
    destruct (N.eqb_spec (r_key h) k) as [Hk|Hk]; try reflexivity; subst k; rewrite E; reflexivity.
Qed.

(* the vector of key k in the index built from rs, as a function of the key's records *)
Definition vec_of (rs : list rec) : list rec := fold_left vec_insert rs [].

Lemma of_key_cons k h rs : of_key k (h :: rs) = if r_key h =? k then h :: of_key k rs else of_key k rs.
Proof. reflexivity. Qed.

Lemma imap_get_fold rs : forall m k,
  imap_get (fold_left imap_push rs m) k =
  match of_key k rs with
  | [] => imap_get m k
  | l => Some (fold_left vec_insert l (match imap_get m k with Some v => v | None => [] end))
  end.
Proof.
  induction rs as [|h rs IH]; intros m k; [reflexivity|].
  cbn [fold_left]. rewrite IH, of_key_cons, imap_get_push.
  destruct (N.eqb_spec (r_key h) k) as [Hk|Hk]; [|reflexivity].
  destruct (of_key k rs) as [|x l]; cbn [fold_left]; destruct (imap_get m k); reflexivity.
Qed.

Lemma imap_get_index_of rs k :
  imap_get (index_of rs) k = match of_key k rs with [] => None | l => Some (vec_of l) end.
Proof. unfold index_of. rewrite imap_get_fold. cbn [imap_get]. reflexivity. Qed.

(* ---------- ordered insertion ---------- *)
Fixpoint sorted_ts (v : list rec) : Prop :=
  match v with
  | [] => True
  | x :: r => (match r with [] => True | y :: _ => r_ts x <= r_ts y end) /\ sorted_ts r
  end.

Lemma vec_insert_sorted v h : sorted_ts v -> sorted_ts (vec_insert v h).
Proof.
  induction v as [|x r IH]; cbn [vec_insert sorted_ts]; [auto|].
  intros [Hx Hr]. destruct (N.leb_spec (r_ts x) (r_ts h)) as [Hle|Hgt].
  - cbn [sorted_ts]. split; [|apply IH; assumption].
    destruct r as [|y r']; cbn [vec_insert]; [assumption|].
    destruct (N.leb_spec (r_ts y) (r_ts h)); assumption.
  - cbn [sorted_ts]. split; [lia|]. split; assumption.
Qed.

Lemma vec_of_sorted_gen rs : forall v, sorted_ts v -> sorted_ts (fold_left vec_insert rs v).
Proof. induction rs as [|h rs IH]; intros v Hv; cbn [fold_left]; [assumption|]. apply IH, vec_insert_sorted, Hv. Qed.

Lemma vec_of_sorted rs : sorted_ts (vec_of rs).
Proof. apply vec_of_sorted_gen. exact I. Qed.

Definition last_opt (v : list rec) : option rec := match rev v with h :: _ => Some h | [] => None end.

Lemma last_opt_cons x r : last_opt (x :: r) = match last_opt r with Some y => Some y | None => Some x end.
Proof.
  unfold last_opt. cbn [rev]. destruct (rev r) as [|y t] eqn:E; reflexivity.
Qed.

Lemma sorted_last_ge x r y : sorted_ts (x :: r) -> last_opt (x :: r) = Some y -> r_ts x <= r_ts y.
Proof.
  revert x. induction r as [|z r IH]; intros x [Hx Hr] E.
  - unfold last_opt in E; cbn in E. injection E as <-. lia.
  - rewrite last_opt_cons in E. destruct (last_opt (z :: r)) as [w|] eqn:E2.
    + injection E as <-. specialize (IH z Hr E2). lia.
    + rewrite last_opt_cons in E2. destruct (last_opt r); discriminate.
Qed.

(* on a sorted vector the new header becomes the last element iff the current last is not newer *)
Lemma last_vec_insert v h : sorted_ts v -> last_opt (vec_insert v h) = pick (last_opt v) h.
Proof.
  induction v as [|x r IH]; [reflexivity|]. intros [Hx Hr]. cbn [vec_insert].
  destruct (N.leb_spec (r_ts x) (r_ts h)) as [Hle|Hgt].
  - rewrite !last_opt_cons, IH by assumption.
    destruct (last_opt r) as [y|] eqn:E; cbn [pick].
    + destruct (r_ts y <=? r_ts h); reflexivity.
    + destruct (N.leb_spec (r_ts x) (r_ts h)); [reflexivity|lia].
  - (* h is placed before x: the last element is unchanged and is >= x > h *)
    rewrite (last_opt_cons h (x :: r)).
    destruct (last_opt (x :: r)) as [y|] eqn:E.
    + cbn [pick]. assert (Hy : r_ts x <= r_ts y) by (apply (sorted_last_ge x r y); [split; assumption|assumption]).
      destruct (N.leb_spec (r_ts y) (r_ts h)); [lia|reflexivity].
    + rewrite last_opt_cons in E. destruct (last_opt r); discriminate.
Qed.

Lemma last_vec_fold rs : forall v, sorted_ts v ->
  last_opt (fold_left vec_insert rs v) = fold_left pick rs (last_opt v).
Proof.
  induction rs as [|h rs IH]; intros v Hv; cbn [fold_left]; [reflexivity|].
  rewrite IH by (apply vec_insert_sorted; assumption). rewrite last_vec_insert by assumption. reflexivity.
Qed.

Lemma last_vec_of rs : last_opt (vec_of rs) = top_ranked rs.
Proof. unfold vec_of, top_ranked. rewrite last_vec_fold by exact I. reflexivity. Qed.

(* the index built from a blob's records answers get_latest with the top-ranked record of the key *)
Lemma idx_get_latest_index_of rs k : idx_get_latest (index_of rs) k = to_rr (top_ranked (of_key k rs)).
Proof.
  unfold idx_get_latest. rewrite imap_get_index_of.
  destruct (of_key k rs) as [|x l] eqn:E; [reflexivity|].
  rewrite <- last_vec_of. unfold last_opt, to_rr. destruct (rev (vec_of (x :: l))); reflexivity.
Qed.

(* ---------- top_ranked over concatenated logs ---------- *)
Definition combine (x y : option rec) : option rec :=
  match y with
  | None => x
  | Some yb => match x with Some xa => if r_ts xa <=? r_ts yb then y else x | None => y end
  end.

Lemma pick_combine acc x : pick acc x = combine acc (Some x).
Proof. destruct acc; reflexivity. Qed.

Lemma combine_pick acc x Y : combine (pick acc x) Y = combine acc (combine (Some x) Y).
Proof.
  destruct Y as [y|]; [|cbn [combine]; apply pick_combine].
  destruct acc as [a|]; cbn [pick combine]; [|destruct (r_ts x <=? r_ts y); reflexivity].
  destruct (N.leb_spec (r_ts a) (r_ts x)); destruct (N.leb_spec (r_ts x) (r_ts y)); cbn [combine];
    destruct (N.leb_spec (r_ts a) (r_ts y)); destruct (N.leb_spec (r_ts a) (r_ts x)); try reflexivity; try lia.
Qed.

Lemma fold_pick_combine b : forall acc, fold_left pick b acc = combine acc (fold_left pick b None).
Proof.
  induction b as [|x b IH]; intros acc; cbn [fold_left]; [destruct acc; reflexivity|].
  rewrite IH. cbn [pick]. rewrite (IH (Some x)). apply combine_pick.
Qed.

Lemma top_ranked_app a b : top_ranked (a ++ b) = combine (top_ranked a) (top_ranked b).
Proof. unfold top_ranked. rewrite fold_left_app. apply fold_pick_combine. Qed.

Lemma of_key_app k a b : of_key k (a ++ b) = of_key k a ++ of_key k b.
Proof. apply filter_app. Qed.

(* ---------- rank characterisation of top_ranked ---------- *)
(* the result is a record of the list with maximal timestamp, and among those the last one *)
Lemma top_ranked_spec l :
  match top_ranked l with
  | None => l = []
  | Some r => exists l1 l2, l = l1 ++ r :: l2 /\
              (forall x, In x l1 -> r_ts x <= r_ts r) /\ (forall x, In x l2 -> r_ts x < r_ts r)
  end.
Proof.
  induction l as [|h l IH] using rev_ind; [reflexivity|].
  rewrite top_ranked_app. change (top_ranked [h]) with (Some h). cbn [combine].
  destruct (top_ranked l) as [r|].
  - destruct IH as (l1 & l2 & -> & H1 & H2). destruct (N.leb_spec (r_ts r) (r_ts h)) as [Hle|Hgt].
    + exists (l1 ++ r :: l2), []. split; [reflexivity|]. split; [|intros x []].
      intros x Hx. apply in_app_or in Hx. destruct Hx as [Hx|[<-|Hx]]; [specialize (H1 x Hx); lia|lia|specialize (H2 x Hx); lia].
    + exists l1, (l2 ++ [h]). split; [rewrite <- app_assoc; reflexivity|]. split; [assumption|].
      intros x Hx. apply in_app_or in Hx. destruct Hx as [Hx|[<-|[]]]; [apply H2, Hx|lia].
  - subst l. exists [], []. split; [reflexivity|]. split; intros x [].
Qed.
