(* Invariants of the L3 storage model (definitions only; proofs in InvProofs.v). *)
Require Import Pearl.Base.Prelude Pearl.Storage.Model Pearl.Storage.Spec.

Section K.
Variable K : N.

Definition size_of (rs : list rec) : N := fold_left (fun a r => a + rec_size K r) rs BLOB_HEADER_SIZE.

(* the in-memory (or dumped) index is exactly the index of the blob's records *)
Definition idx_ok (b : blob) : Prop := b_idx b = index_of (b_recs b).

(* an index file describes a prefix of the blob: the records that existed when it was dumped *)
Definition idxfile_ok (b : blob) : Prop :=
  match b_idxfile b with
  | Some (sz, m) => exists n, (n <= length (b_recs b))%nat /\
                              sz = size_of (firstn n (b_recs b)) /\ m = index_of (firstn n (b_recs b))
  | None => True
  end.

Definition blob_ok (b : blob) : Prop := idx_ok b /\ idxfile_ok b.

Definition BlobsOk (s : storage) : Prop :=
  (forall b, In (Some b) (s_closed s) -> blob_ok b) /\ (forall b, s_active s = Some b -> blob_ok b).

(* ids: strictly increasing along closed slots, the active blob above all, next id above everything *)
Fixpoint increasing (l : list N) : Prop :=
  match l with
  | [] => True
  | x :: r => (match r with [] => True | y :: _ => x < y end) /\ increasing r
  end.

(* quarantine: the id of a file of the corrupted directory is below the next id of a running storage and is not the id
   of any blob (it is never handed out again); a running storage has no unreadable file in its work directory (open moved
   them all); the counter of corrupted blobs is the number of files in the corrupted directory *)
Definition QuarOk (s : storage) : Prop :=
  (s_open s = true -> forall q, In q (s_quar s) -> q < s_next s) /\
  (forall b, In b (blobs_in_order s) -> ~ In (b_id b) (s_quar s)) /\
  (s_open s = true -> s_bad s = []) /\
  s_corrupted s = N.of_nat (length (s_quar s)).

Definition IdsOk (s : storage) : Prop :=
  increasing (map b_id (blobs_in_order s)) /\
  (s_open s = true -> forall b, In b (blobs_in_order s) -> b_id b < s_next s) /\
  QuarOk s.

(* a closed storage is just files: no active blob object *)
Definition NoActiveWhenClosed (s : storage) : Prop := s_open s = false -> s_active s = None.

Definition Inv (s : storage) : Prop := BlobsOk s /\ IdsOk s /\ NoActiveWhenClosed s.

End K.
