(* The abstract specification of the storage: a log of records, grouped by blob in creation order.
   Meant to be read in five minutes; C01/C02/C03/C04/C15 are stated against it. *)
Require Import Pearl.Base.Prelude Pearl.Storage.Model.

(* the log: records of every existing blob, oldest blob first, each blob in append order *)
Definition log := list rec.

Definition of_key (k : N) (l : log) : list rec := filter (fun r => r_key r =? k) l.

(* "ranked first": greatest timestamp; among equal timestamps the one latest in log order, i.e. in
   the most recently created blob, and within a blob the most recently appended *)
Definition pick (acc : option rec) (r : rec) : option rec :=
  match acc with
  | Some a => if r_ts a <=? r_ts r then Some r else acc
  | None => Some r
  end.
Definition top_ranked (l : list rec) : option rec := fold_left pick l None.

Definition to_rr (o : option rec) : rr rec :=
  match o with
  | Some r => if r_del r then Deleted (r_ts r) else Found r
  | None => NotFound
  end.

(* C01: read / contains *)
Definition spec_read (l : log) (k : N) : rr rec := to_rr (top_ranked (of_key k l)).

(* C02: all versions in rank order (timestamp descending, then log order descending), cut after the
   first deletion marker. `sort_desc` is the stable insertion sort of the model. *)
Definition spec_all_dm (l : log) (k : N) : list rec := cut_after_del (sort_desc (rev (of_key k l))).
Definition spec_all (l : log) (k : N) : list rec := strip_last_del (spec_all_dm l k).
Definition spec_read_with (l : log) (k meta : N) : rr rec :=
  let hs := spec_all_dm l k in
  match find (fun h => r_meta h =? meta) (strip_last_del hs) with
  | Some h => Found h
  | None => match last_del_ts hs with Some t => Deleted t | None => NotFound end
  end.

(* abstraction function: what the storage holds, as a log *)
Definition blobs_in_order (s : storage) : list blob :=
  closed_blobs s ++ match s_active s with Some b => [b] | None => [] end.
Definition abs (s : storage) : log := flat_map b_recs (blobs_in_order s).

(* accounting (C15): what the counters must say, as a function of the blobs that exist *)
Definition spec_counts (s : storage) : out :=
  let closed := closed_blobs s in
  let det := map (fun b => (b_id b, N.of_nat (length (b_recs b)))) closed
             ++ match s_active s with Some b => [(b_id b, N.of_nat (length (b_recs b)))] | None => [] end in
  RCounts (N.of_nat (length (abs s))) det
          (match s_active s with Some b => Some (N.of_nat (length (b_recs b))) | None => None end)
          (N.of_nat (length (blobs_in_order s))) (s_next s) (s_corrupted s)
          (match s_active s with Some _ => true | None => false end).

(* the answer the specification gives to a query in state s (None: not a query) *)
Definition spec_answer (s : storage) (o : op) : option out :=
  match o with
  | ORead k | OContains k => Some (RRead (spec_read (abs s) k))
  | OReadWith k m => Some (RRead (spec_read_with (abs s) k m))
  | OReadAll k => Some (RList (spec_all (abs s) k))
  | OReadAllDm k => Some (RList (spec_all_dm (abs s) k))
  | OCounts => Some (spec_counts s)
  | _ => None
  end.
