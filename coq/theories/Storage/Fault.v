(* L4 faults: what the code does when one file operation fails (read off the Rust, see DESIGN.md C11).
   - a failed record append: Blob::write returns before index.push; nothing changes at this layer;
   - a failed index dump: IndexStruct::dump_in_memory takes the headers out of the map while the file is written
     and puts them back when FileIndex::from_records fails: the blob is as before, its index still in memory
     (before commit e3d3ed5 of the code they were dropped: F9);
   - a failed fsync in close_active_blob: the blob is synced while it still is the active one, the error leaves
     the storage as it was (before commit 20e4a83 of the code the blob had already been taken out and was dropped: F15);
   - a failed blob creation while the worker rotates: the error is logged, one blob id is used up, the worker
     carries on (before commit 62103db it panicked: F1). *)
Require Import Pearl.Base.Prelude Pearl.Storage.Model Pearl.Storage.Spec.

Definition append_fails (s : storage) : storage := s.

Definition dump_fails (b : blob) : blob := b.

Definition dump_fails_on (s : storage) (id : N) : storage :=
  upd_closed s (map (fun o => match o with
                              | Some b => Some (if b_id b =? id then dump_fails b else b)
                              | None => None end) (s_closed s)).

Definition close_active_fsync_fails (s : storage) : storage := s.

Definition rotation_create_fails (s : storage) : storage :=
  {| s_active := s_active s; s_closed := s_closed s; s_next := s_next s + 1; s_corrupted := s_corrupted s; s_alive := s_alive s;
     s_dump_req := s_dump_req s; s_aged := s_aged s; s_open := s_open s; s_f2 := s_f2 s |}.
