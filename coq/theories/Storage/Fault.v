(* L4 faults: what the code does when one file operation fails (read off the Rust, see DESIGN.md C11).
   - a failed record append: Blob::write returns before index.push; nothing changes at this layer;
   - a failed index dump: IndexStruct::dump_in_memory has already taken the headers out of the map
     (std::mem::take) when FileIndex::from_records fails: the blob keeps an EMPTY in-memory index (F9);
   - a failed fsync in close_active_blob: the active blob was already taken out of `safe` and is dropped
     with the error (F15);
   - a failed blob creation while the worker rotates: process_msg returns Err, the worker panics (F1). *)
Require Import Pearl.Base.Prelude Pearl.Storage.Model Pearl.Storage.Spec.

Definition append_fails (s : storage) : storage := s.

Definition dump_fails (b : blob) : blob :=
  if b_ondisk b then b else
  {| b_id := b_id b; b_recs := b_recs b; b_idx := []; b_ondisk := false; b_idxfile := b_idxfile b |}.

Definition dump_fails_on (s : storage) (id : N) : storage :=
  upd_closed s (map (fun o => match o with
                              | Some b => Some (if b_id b =? id then dump_fails b else b)
                              | None => None end) (s_closed s)).

Definition close_active_fsync_fails (s : storage) : storage := upd_active s None.

Definition rotation_create_fails (s : storage) : storage := upd_alive s false.
