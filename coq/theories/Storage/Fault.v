(* L4 faults: what the code does when one file operation fails (read off the Rust, see DESIGN.md C11).
   - a failed record append: Blob::write returns before index.push; nothing changes at this layer;
   - a failed index dump: IndexStruct::dump_in_memory takes the headers out of the map while the file is written
     and puts them back when FileIndex::from_records fails: the blob is as before, its index still in memory
     (before commit e3d3ed5 of the code they were dropped: F9);
   - a failed fsync in close_active_blob: the blob is synced while it still is the active one, the error leaves
     the storage as it was (before commit 20e4a83 of the code the blob had already been taken out and was dropped: F15);
   - a failed blob creation while the worker rotates: the error is logged, one blob id is used up, the worker
     carries on (before commit 62103db it panicked: F1). *)
Require Import Pearl.Base.Prelude Pearl.Storage.Model Pearl.Storage.Spec.

Definition append_fails (s : storage) : storage := s.

Definition dump_fails (b : blob) : blob := b.

Definition dump_fails_on (s : storage) (id : N) : storage :=
  upd_closed s (map (fun o => match o with
                              | Some b => Some (if b_id b =? id then dump_fails b else b)
                              | None => None end) (s_closed s)).

Definition close_active_fsync_fails (s : storage) : storage := s.

Definition rotation_create_fails (s : storage) : storage :=
  {| s_active := s_active s; s_closed := s_closed s; s_next := s_next s + 1; s_corrupted := s_corrupted s; s_alive := s_alive s;
     s_dump_req := s_dump_req s; s_aged := s_aged s; s_open := s_open s; s_f2 := s_f2 s;
     s_bad := s_bad s; s_quar := s_quar s |}.

(* ================= one failed file operation inside a CLIENT call (C11, second part) =================

   Read off the repaired Rust (src/storage/core.rs, src/blob/core.rs, src/blob/file.rs); the states are named
   with the vocabulary of Cancel.v, because a failed file operation makes the call stop (or skip one blob) at one
   of the places where a dropped future stops.

   write    the creation of the missing active blob fails (file create / header append / sync): one blob id is
            used up, no blob is installed, Err                                            `burn_id s`
            the record append fails: the size counter of the file falls back, Blob::write returns before
            index.push, Err                                                               `ensure_active s`
            (a SHORT write leaves torn bytes behind the last record; the L3 model has whole records only and
             cannot express them: this is finding F21, the bytes are overwritten by the next append or rejected
             by the record validation of the next start, see C05/C12)
            the background sync fails: logged, nothing changes                            completed
   delete   the active blob is treated like a write of the marker: Err, `burn_id s` or `delete_start s oip`;
            then ALL closed blobs holding the key are processed and the per-blob results collected: a failure in
            one blob is LOGGED and counted as 0, the others are processed normally. Loading the index of a blob
            cannot fail at this level (on any error the index is regenerated from the blob: `blob_load_index`
            is that already), so the failure is the append of the marker: the blob stays with its index loaded
            and no marker (`ds_loaded`); a blob is never left with marker bytes that are not indexed
            (`ds_bytes`). The call returns Ok(number of blobs marked); the deferred index dump is requested
            iff that number is positive.
   close_active     the sync (done while the blob still is the active one) fails: Err, state unchanged
   restore_active   loading the index fails: it is regenerated (`blob_load_index`), not a failure here; if the
                    regeneration fails: Err, the state unchanged, or the last closed blob in place with the
                    index loaded (both allowed)
   create_active    Err, `burn_id s`
   reads, counts    Err (or the blob is skipped and the failure logged): no effect on the state
   background       failed index dump (`dump_fails_on` = identity), failed blob creation during rotation
                    (`rotation_create_fails`), failed background sync (identity).                              *)
Require Import Pearl.Storage.Cancel.

Section FaultOutcomes.
Variable K : N.
Variable cfg : config.

(* the loop over the closed blobs of a delete; `fails` says, slot by slot, where the marker append fails.
   Result: the slots and the number of blobs marked *)
Fixpoint delete_in_closed_faulty (l : list (option blob)) (mk : rec) (fails : list bool) : list (option blob) * N :=
  match l with
  | [] => ([], 0)
  | None :: r => let '(r', n) := delete_in_closed_faulty r mk (tl fails) in (None :: r', n)
  | Some b :: r =>
    let '(r', n) := delete_in_closed_faulty r mk (tl fails) in
    if delete_applies b mk true then
      if hd false fails
      then (Some (blob_load_index K b) :: r', n)                           (* logged, counted as 0 *)
      else (Some (fst (blob_append (blob_load_index K b) mk)) :: r', n + 1)
    else (Some b :: r', n)                                                 (* the blob does not hold the key *)
  end.

(* the blobs after the delete (the active blob has been processed completely, or the call had returned Err) *)
Definition delete_faulty_blobs (s : storage) (mk : rec) (oip : bool) (fails : list bool) : storage :=
  upd_closed (delete_active_done K (delete_start s oip) mk oip)
             (fst (delete_in_closed_faulty (s_closed (delete_start s oip)) mk fails)).

Definition delete_faulty_marked (s : storage) (mk : rec) (oip : bool) (fails : list bool) : N :=
  snd (delete_in_closed_faulty (s_closed (delete_start s oip)) mk fails).

(* the state the call leaves: the dump of the indexes is requested iff some closed blob was marked *)
Definition delete_faulty (s : storage) (mk : rec) (oip : bool) (fails : list bool) : storage :=
  if 0 <? delete_faulty_marked s mk oip fails
  then request_dump (delete_faulty_blobs s mk oip fails)
  else delete_faulty_blobs s mk oip fails.

(* the number the call returns *)
Definition delete_faulty_answer (s : storage) (mk : rec) (oip : bool) (fails : list bool) : out :=
  RNum ((match s_active (delete_start s oip) with
         | Some b => if delete_applies b mk oip then 1 else 0
         | None => 0 end) + delete_faulty_marked s mk oip fails).

Definition read_op (o : op) : bool :=
  match o with ORead _ | OReadWith _ _ | OContains _ | OReadAll _ | OReadAllDm _ | OCounts => true | _ => false end.

(* the failed file operation makes the CALL return an error *)
Inductive fault_error (s : storage) : op -> storage -> Prop :=
| fe_write_create k ts meta msize dlen dseed :
    s_open s = true -> s_active s = None -> fault_error s (OWrite k ts meta msize dlen dseed) (burn_id s)
| fe_write_append k ts meta msize dlen dseed :
    s_open s = true -> fault_error s (OWrite k ts meta msize dlen dseed) (append_fails (ensure_active s))
| fe_delete_create k ts meta msize oip :
    s_open s = true -> oip = false -> s_active s = None -> fault_error s (ODelete k ts meta msize oip) (burn_id s)
| fe_delete_active k ts meta msize oip :
    s_open s = true -> fault_error s (ODelete k ts meta msize oip) (append_fails (delete_start s oip))
| fe_close_sync : fault_error s OCloseActive (close_active_fsync_fails s)
| fe_restore_unchanged : fault_error s ORestoreActive s
| fe_restore_loaded :
    s_open s = true -> s_active s = None ->
    fault_error s ORestoreActive (upd_closed s (map_last_occupied (blob_load_index K) (s_closed s)))
| fe_create : s_open s = true -> s_active s = None -> fault_error s OCreateActive (burn_id s)
| fe_read o : read_op o = true -> fault_error s o s.

(* the failure is logged, the call returns Ok *)
Inductive fault_logged (s : storage) : op -> storage -> Prop :=
| fl_inessential o :           (* e.g. the background sync, or an index file that is unreadable and regenerated *)
    public_op o = true -> fault_logged s o (fst (step K cfg s o))
| fl_delete_closed k ts meta msize oip fails :
    s_open s = true ->
    fault_logged s (ODelete k ts meta msize oip) (delete_faulty s (mk_rec k ts true meta msize 0 0) oip fails).

(* every state one failed file operation inside the public operation `o` started in `s` may leave *)
Definition fault_outcomes (s : storage) (o : op) (s' : storage) : Prop := fault_error s o s' \/ fault_logged s o s'.

End FaultOutcomes.

(* the background faults *)
Inductive bg_fault_outcomes (s : storage) : storage -> Prop :=
| bf_dump id : bg_fault_outcomes s (dump_fails_on s id)
| bf_rotation : bg_fault_outcomes s (rotation_create_fails s)
| bf_sync : bg_fault_outcomes s s.
