(* C15 (accounting): the counters reported by the model are those of the specification.

   Main results (closed under the global context, see the Print Assumptions at the end):
     imap_count_index_of : the number of headers in the index built from a blob's records is the
                           number of records;
     counts_spec         : `counts s = spec_counts s` in every state whose indexes describe their
                           blobs (BlobsOk; only its idx_ok half is used).  No other proviso: since
                           the repair of the counters (blobs_count = occupied slots, the active
                           entry carries the blob's own id) vacated slots are not counted;
     reach_counts        : hence after EVERY history;
     blobs_count_after_restore : the history that refuted the equality before the repair
                           (open; write; close_active; restore_active) now satisfies it.

   `counts`, `spec_counts`, `index_of`, `idx_ok` take neither K nor cfg; `BlobsOk` and `run` do. *)
Require Import Pearl.Base.Prelude Pearl.Storage.Model Pearl.Storage.Spec Pearl.Storage.Inv
               Pearl.Storage.IndexProofs Pearl.Storage.InvProofs Pearl.Storage.Theorems.

(* ---------- imap_count as a sum ---------- *)
Lemma fold_count_acc (m : imap) : forall a,
  fold_left (fun a kv => a + N.of_nat (length (snd kv))) m a =
  a + fold_left (fun a kv => a + N.of_nat (length (snd kv))) m 0.
Proof.
  induction m as [|kv m IH]; intros a; cbn [fold_left]; [lia|].
  rewrite IH, (IH (0 + _)). lia.
Qed.

Lemma imap_count_nil : imap_count [] = 0.
Proof. reflexivity. Qed.

Lemma imap_count_cons k v m : imap_count ((k, v) :: m) = N.of_nat (length v) + imap_count m.
Proof.
  unfold imap_count. cbn [fold_left snd]. rewrite fold_count_acc. lia.
Qed.

(* ---------- keys of an imap stay strictly increasing ---------- *)
Fixpoint keys_sorted (m : imap) : Prop :=
  match m with
  | [] => True
  | (k, _) :: r => (forall k', In k' (map fst r) -> k < k') /\ keys_sorted r
  end.

Lemma imap_get_notin m k : ~ In k (map fst m) -> imap_get m k = None.
Proof.
  induction m as [|[k0 v0] m IH]; intros H; cbn [imap_get]; [reflexivity|].
  cbn [map fst In] in H. destruct (N.eqb_spec k0 k) as [->|Hne].
  - exfalso. apply H. left. reflexivity.
  - apply IH. intros Hin. apply H. right. exact Hin.
Qed.

Lemma imap_put_keys m k v k' : In k' (map fst (imap_put m k v)) -> k' = k \/ In k' (map fst m).
Proof.
  induction m as [|[k0 v0] m IH]; cbn [imap_put].
  - cbn [map fst In]. intros [H|[]]. left. congruence.
  - destruct (N.eqb_spec k k0) as [->|Hne].
    + cbn [map fst In]. intros [H|H]; [left; congruence|right; right; exact H].
    + destruct (N.ltb_spec k k0) as [Hlt0|Hge0].
      * cbn [map fst In]. intros [H|H]; [left; congruence|right; exact H].
      * cbn [map fst In]. intros [H|H]; [right; left; exact H|].
        destruct (IH H) as [Hk|Hk]; [left; exact Hk|right; right; exact Hk].
Qed.

Lemma imap_put_sorted m k v : keys_sorted m -> keys_sorted (imap_put m k v).
Proof.
  induction m as [|[k0 v0] m IH]; cbn [imap_put keys_sorted].
  - intros _. split; [intros k' []|exact I].
  - intros [Hlt Hs]. destruct (N.eqb_spec k k0) as [->|Hne].
    + cbn [keys_sorted]. split; assumption.
    + destruct (N.ltb_spec k k0) as [Hk|Hk].
      * cbn [keys_sorted]. split; [|split; assumption].
        cbn [map fst In]. intros k' [<-|Hin]; [assumption|]. specialize (Hlt _ Hin). lia.
      * cbn [keys_sorted]. split; [|apply IH; assumption].
        intros k' Hin. apply imap_put_keys in Hin. destruct Hin as [->|Hin]; [lia|apply Hlt, Hin].
Qed.

Lemma imap_push_sorted m h : keys_sorted m -> keys_sorted (imap_push m h).
Proof.
  intros H. unfold imap_push. destruct (imap_get m (r_key h)); apply imap_put_sorted; exact H.
Qed.

Lemma fold_push_sorted rs : forall m, keys_sorted m -> keys_sorted (fold_left imap_push rs m).
Proof.
  induction rs as [|h rs IH]; intros m Hm; cbn [fold_left]; [exact Hm|].
  apply IH, imap_push_sorted, Hm.
Qed.

Lemma index_of_sorted rs : keys_sorted (index_of rs).
Proof. apply fold_push_sorted. exact I. Qed.

(* ---------- counting through put / push ---------- *)
Definition old_len (m : imap) (k : N) : N :=
  match imap_get m k with Some old => N.of_nat (length old) | None => 0 end.

Lemma imap_count_put m k v : keys_sorted m ->
  imap_count (imap_put m k v) + old_len m k = imap_count m + N.of_nat (length v).
Proof.
  unfold old_len. induction m as [|[k0 v0] m IH]; cbn [imap_put imap_get keys_sorted].
  - intros _. rewrite imap_count_cons, imap_count_nil. lia.
  - intros [Hlt Hs]. destruct (N.eqb_spec k k0) as [->|Hne].
    + rewrite N.eqb_refl, !imap_count_cons. lia.
    + destruct (N.eqb_spec k0 k) as [E|_]; [congruence|].
      destruct (N.ltb_spec k k0) as [Hk|Hk].
      * rewrite imap_get_notin.
        -- rewrite !imap_count_cons. lia.
        -- intros Hin. specialize (Hlt _ Hin). lia.
      * rewrite !imap_count_cons. specialize (IH Hs). lia.
Qed.

Lemma vec_insert_length v h : length (vec_insert v h) = S (length v).
Proof.
  induction v as [|x r IH]; cbn [vec_insert]; [reflexivity|].
  destruct (r_ts x <=? r_ts h); cbn [length]; [rewrite IH|]; reflexivity.
Qed.

Lemma imap_count_push m h : keys_sorted m -> imap_count (imap_push m h) = imap_count m + 1.
Proof.
  intros Hs. unfold imap_push.
  destruct (imap_get m (r_key h)) as [v|] eqn:E.
  - pose proof (imap_count_put m (r_key h) (vec_insert v h) Hs) as H.
    unfold old_len in H. rewrite E, vec_insert_length in H. rewrite Nat2N.inj_succ in H. lia.
  - pose proof (imap_count_put m (r_key h) [h] Hs) as H.
    unfold old_len in H. rewrite E in H. cbn [length] in H. change (N.of_nat 1) with 1 in H. lia.
Qed.

Lemma imap_count_fold_push rs : forall m, keys_sorted m ->
  imap_count (fold_left imap_push rs m) = imap_count m + N.of_nat (length rs).
Proof.
  induction rs as [|h rs IH]; intros m Hm; cbn [fold_left length].
  - change (N.of_nat 0) with 0. lia.
  - rewrite IH by (apply imap_push_sorted; exact Hm). rewrite imap_count_push by exact Hm.
    rewrite Nat2N.inj_succ. lia.
Qed.

(* the number of headers in the index built from a blob's records is the number of records *)
Lemma imap_count_index_of : forall rs, imap_count (index_of rs) = N.of_nat (length rs).
Proof.
  intros rs. unfold index_of. rewrite imap_count_fold_push by exact I. rewrite imap_count_nil. lia.
Qed.

Lemma index_of_snoc rs r : index_of (rs ++ [r]) = imap_push (index_of rs) r.
Proof. unfold index_of. rewrite fold_left_app. reflexivity. Qed.

(* ---------- the counters ---------- *)
Lemma sum_det (l : list blob) : forall a,
  fold_left (fun a (p : N * N) => a + snd p) (map (fun b => (b_id b, N.of_nat (length (b_recs b)))) l) a =
  a + N.of_nat (length (flat_map b_recs l)).
Proof.
  induction l as [|b l IH]; intros a; cbn [map fold_left flat_map snd].
  - cbn [length]. change (N.of_nat 0) with 0. lia.
  - rewrite IH, app_length, Nat2N.inj_add. lia.
Qed.

(* counters = what the specification says, in every state whose indexes describe their blobs.
   Before the repair of the counters two more provisos were needed (no vacated slot in the closed
   list; id of the active blob = number of slots): the code counted the slots of
   HierarchicalFilters::children and reported that number as the id of the active blob. *)
Theorem counts_spec : forall K s, BlobsOk K s -> counts s = spec_counts s.
Proof.
  intros K s [Hc Ha].
  assert (Hdc : map (fun b => (b_id b, imap_count (b_idx b))) (closed_blobs s) =
                map (fun b => (b_id b, N.of_nat (length (b_recs b)))) (closed_blobs s)).
  { apply map_ext_in. intros b Hb. rewrite closed_blobs_cb in Hb. apply in_cb in Hb.
    destruct (Hc b Hb) as [Hi _]. unfold idx_ok in Hi. rewrite Hi, imap_count_index_of. reflexivity. }
  unfold counts, spec_counts, active_count, abs, blobs_in_order. rewrite Hdc.
  destruct (s_active s) as [b|] eqn:Ea.
  - destruct (Ha b eq_refl) as [Hi _]. unfold idx_ok in Hi.
    rewrite Hi, imap_count_index_of.
    change ([(b_id b, N.of_nat (length (b_recs b)))]) with
      (map (fun b => (b_id b, N.of_nat (length (b_recs b)))) [b]).
    rewrite <- map_app, sum_det, app_length. cbn [length].
    f_equal; lia.
  - rewrite !app_nil_r, sum_det. f_equal; lia.
Qed.

(* the same statement for the answer to OCounts *)
Corollary counts_answer : forall K cfg s,
  s_open s = true -> BlobsOk K s -> Some (snd (step K cfg s OCounts)) = spec_answer s OCounts.
Proof.
  intros K cfg s Ho Hb. unfold step. cbn [needs_open]. rewrite Ho. cbn [negb andb snd spec_answer].
  f_equal. apply (counts_spec K); assumption.
Qed.

(* after every history *)
Theorem reach_counts : forall K cfg ops, counts (reach K cfg ops) = spec_counts (reach K cfg ops).
Proof. intros K cfg ops. apply (counts_spec K). apply (reach_Inv K cfg ops). Qed.

(* Before the repair of the counters (commits b2a4900 / 7f20c40 of the code) this history REFUTED the
   equality: after open / write / close_active / restore_active the closed list is [None] and the
   restored blob 0 is active; the code reported 2 blobs and the pair (1, 1) for the active blob, the
   specification 1 blob and the pair (0, 1).  The repaired code counts occupied slots and reports
   the blob's own id, and the two agree (by computation; also an instance of reach_counts). *)
Example blobs_count_after_restore :
  let cfg := {| c_dup := true; c_maxrec := 1000; c_maxsize := 1000000 |} in
  let s := fst (run 4 cfg init_storage [OOpen false; OWrite 1 7 None 8 5 1; OCloseActive; ORestoreActive]) in
  s_closed s = [None] /\
  counts s = spec_counts s /\
  counts s = RCounts 1 [(0, 1)] (Some 1) 1 1 0 true.
Proof. vm_compute. repeat split; reflexivity. Qed.

Print Assumptions imap_count_index_of.
Print Assumptions counts_spec.
Print Assumptions counts_answer.
Print Assumptions reach_counts.
Print Assumptions blobs_count_after_restore.
