(* Run-level corollaries: what holds after EVERY history of the L3 model (no bound on its length).

   Since the repair of restore_active (the restored blob's index is loaded into memory, as do_open
   does for the last blob) the active blob never has its index on disk (InvProofs.ActiveInMemory),
   so the ghost flag s_f2 is never raised (never_f2) and no theorem below carries a proviso on it. *)
Require Import Pearl.Base.Prelude Pearl.Storage.Model Pearl.Storage.Spec Pearl.Storage.Inv
               Pearl.Storage.IndexProofs Pearl.Storage.ReadProofs Pearl.Storage.InvProofs.

Section K.
Variable K : N.
Variable cfg : config.

Definition reach (ops : list op) : storage := fst (run K cfg init_storage ops).

(* ---------- F2 is unreachable ---------- *)
Lemma reach_ActiveInMemory ops : ActiveInMemory (reach ops).
Proof. apply (run_ActiveInMemory K cfg ops init_storage), init_ActiveInMemory. Qed.

Theorem never_f2 ops : s_f2 (reach ops) = false.
Proof.
  unfold reach. rewrite (proj2 (run_ActiveInMemory K cfg ops init_storage init_ActiveInMemory)). reflexivity.
Qed.

(* no operation is ever answered with ErrorKind::Index; in particular no write and no delete *)
Theorem never_index_error ops o : snd (step K cfg (reach ops) o) <> RErr EIndex.
Proof. apply step_no_index_error, reach_ActiveInMemory. Qed.

Theorem write_never_index_error ops k ts meta msize dlen dseed :
  snd (step K cfg (reach ops) (OWrite k ts meta msize dlen dseed)) <> RErr EIndex.
Proof. apply never_index_error. Qed.

Theorem delete_never_index_error ops k ts meta msize oip :
  snd (step K cfg (reach ops) (ODelete k ts meta msize oip)) <> RErr EIndex.
Proof. apply never_index_error. Qed.

Theorem data_op_never_index_error ops k ts meta msize dlen dseed oip :
  snd (step K cfg (reach ops) (OWrite k ts meta msize dlen dseed)) <> RErr EIndex /\
  snd (step K cfg (reach ops) (ODelete k ts meta msize oip)) <> RErr EIndex.
Proof. split; apply never_index_error. Qed.

(* on an open storage every write is acknowledged *)
Theorem write_acknowledged ops k ts meta msize dlen dseed :
  s_open (reach ops) = true ->
  snd (step K cfg (reach ops) (OWrite k ts meta msize dlen dseed)) = RUnit.
Proof.
  intros Ho. unfold step. rewrite Ho. cbn [needs_open negb andb].
  apply do_write_ack, reach_ActiveInMemory.
Qed.

(* ---------- the invariants ---------- *)
Lemma reach_Inv ops : Inv K (reach ops).
Proof. apply run_Inv; [apply init_Inv|apply never_f2]. Qed.

Lemma reach_IdxInv ops : IdxInv (reach ops).
Proof. apply (BlobsOk_IdxInv K). apply reach_Inv. Qed.

Lemma reach_IdsOk ops : IdsOk (reach ops).
Proof. apply (run_IdsOk K cfg ops init_storage), init_IdsOk. Qed.

(* C01 *)
Lemma reach_read_latest ops k :
  get_latest_entry (reach ops) k None = spec_read (abs (reach ops)) k.
Proof. apply read_latest, reach_IdxInv. Qed.

(* the log is ordered by blob id: "most recently created blob" = later in the log *)
Lemma reach_ids_increasing ops : increasing (map b_id (blobs_in_order (reach ops))).
Proof. apply reach_IdsOk. Qed.

(* C04 / C03: anything that is not a write or a delete leaves the log untouched *)
Lemma reach_nondata_abs ops o :
  is_data_op o = false -> abs (fst (step_q K cfg (reach ops) o)) = abs (reach ops).
Proof.
  intros Ho. apply step_q_nondata_abs; [exact Ho| |].
  - apply reach_IdsOk.
  - apply (run_NoActiveWhenClosed K cfg ops init_storage), init_NoActiveWhenClosed.
Qed.

Lemma run_app ops1 : forall ops2 s,
  fst (run K cfg s (ops1 ++ ops2)) = fst (run K cfg (fst (run K cfg s ops1)) ops2).
Proof.
  induction ops1 as [|o r IH]; intros ops2 s; [reflexivity|].
  cbn [app run]. destruct (step_q K cfg s o) as [s' x] eqn:E.
  specialize (IH ops2 s'). destruct (run K cfg s' (r ++ ops2)) as [s2 xs2] eqn:E2.
  destruct (run K cfg s' r) as [s1 xs1] eqn:E1. cbn [fst] in *. exact IH.
Qed.

Lemma reach_snoc ops o : reach (ops ++ [o]) = fst (step_q K cfg (reach ops) o).
Proof.
  unfold reach. rewrite run_app. cbn [run]. destruct (step_q K cfg (fst (run K cfg init_storage ops)) o); reflexivity.
Qed.

(* C04: after a maintenance / lifecycle operation every read answers as before *)
Lemma reach_maint_read ops o k :
  is_data_op o = false ->
  get_latest_entry (reach (ops ++ [o])) k None = get_latest_entry (reach ops) k None.
Proof.
  intros Ho. rewrite !reach_read_latest. rewrite reach_snoc, reach_nondata_abs by exact Ho. reflexivity.
Qed.

(* C03: close + reopen (eager or lazy), with or without removing index files in between *)
Lemma reach_restart_abs ops lazy :
  abs (reach (ops ++ [OClose; OOpen lazy])) = abs (reach ops).
Proof.
  replace (ops ++ [OClose; OOpen lazy]) with ((ops ++ [OClose]) ++ [OOpen lazy]) by (rewrite <- app_assoc; reflexivity).
  rewrite (reach_snoc (ops ++ [OClose])), reach_nondata_abs by reflexivity.
  rewrite reach_snoc, reach_nondata_abs by reflexivity. reflexivity.
Qed.

Lemma reach_restart_rmindex_abs ops ids lazy :
  abs (reach (ops ++ [OClose] ++ map ORmIndex ids ++ [OOpen lazy])) = abs (reach ops).
Proof.
  rewrite !app_assoc. rewrite reach_snoc, reach_nondata_abs by reflexivity.
  induction ids as [|i ids IH] using rev_ind.
  - cbn [map]. rewrite app_nil_r, reach_snoc, reach_nondata_abs by reflexivity. reflexivity.
  - rewrite map_app. cbn [map]. rewrite app_assoc, reach_snoc, reach_nondata_abs by reflexivity. exact IH.
Qed.

(* a session that ends without close *)
Lemma reach_drop_reopen_abs ops lazy :
  abs (reach ((ops ++ [ODrop]) ++ [OOpen lazy])) = abs (reach ops).
Proof.
  rewrite (reach_snoc (ops ++ [ODrop])), reach_nondata_abs by reflexivity.
  rewrite reach_snoc, reach_nondata_abs by reflexivity. reflexivity.
Qed.

Lemma reach_restart_read ops lazy k :
  get_latest_entry (reach (ops ++ [OClose; OOpen lazy])) k None = get_latest_entry (reach ops) k None.
Proof. rewrite !reach_read_latest. rewrite reach_restart_abs. reflexivity. Qed.

End K.

Print Assumptions never_f2.
Print Assumptions never_index_error.
Print Assumptions write_acknowledged.
Print Assumptions reach_Inv.
Print Assumptions reach_read_latest.
Print Assumptions reach_maint_read.
Print Assumptions reach_restart_read.
