(* Run-level corollaries: what holds after EVERY history of the L3 model (no bound on its length).

   Since the repair of restore_active (the restored blob's index is loaded into memory, as do_open
   does for the last blob) the active blob never has its index on disk (InvProofs.ActiveInMemory),
   so the ghost flag s_f2 is never raised (never_f2) and no theorem below carries a proviso on it. *)
Require Import Pearl.Base.Prelude Pearl.Storage.Model Pearl.Storage.Spec Pearl.Storage.Inv
               Pearl.Storage.IndexProofs Pearl.Storage.ReadProofs Pearl.Storage.InvProofs.

Section K.
Variable K : N.
Variable cfg : config.

Definition reach (ops : list op) : storage := fst (run K cfg init_storage ops).

(* ---------- F2 is unreachable ---------- *)
Lemma reach_ActiveInMemory ops : ActiveInMemory (reach ops).
Proof. apply (run_ActiveInMemory K cfg ops init_storage), init_ActiveInMemory. Qed.

Theorem never_f2 ops : s_f2 (reach ops) = false.
Proof.
  unfold reach. rewrite (proj2 (run_ActiveInMemory K cfg ops init_storage init_ActiveInMemory)). reflexivity.
Qed.

(* no operation is ever answered with ErrorKind::Index; in particular no write and no delete *)
Theorem never_index_error ops o : snd (step K cfg (reach ops) o) <> RErr EIndex.
Proof. apply step_no_index_error, reach_ActiveInMemory. Qed.

Theorem write_never_index_error ops k ts meta msize dlen dseed :
  snd (step K cfg (reach ops) (OWrite k ts meta msize dlen dseed)) <> RErr EIndex.
Proof. apply never_index_error. Qed.

Theorem delete_never_index_error ops k ts meta msize oip :
  snd (step K cfg (reach ops) (ODelete k ts meta msize oip)) <> RErr EIndex.
Proof. apply never_index_error. Qed.

Theorem data_op_never_index_error ops k ts meta msize dlen dseed oip :
  snd (step K cfg (reach ops) (OWrite k ts meta msize dlen dseed)) <> RErr EIndex /\
  snd (step K cfg (reach ops) (ODelete k ts meta msize oip)) <> RErr EIndex.
Proof. split; apply never_index_error. Qed.

(* on an open storage every write is acknowledged *)
Theorem write_acknowledged ops k ts meta msize dlen dseed :
  s_open (reach ops) = true ->
  snd (step K cfg (reach ops) (OWrite k ts meta msize dlen dseed)) = RUnit.
Proof.
  intros Ho. unfold step. rewrite Ho. cbn [needs_open negb andb].
  apply do_write_ack, reach_ActiveInMemory.
Qed.

(* ---------- the invariants ---------- *)
Lemma reach_Inv ops : Inv K (reach ops).
Proof. apply run_Inv; [apply init_Inv|apply never_f2]. Qed.

Lemma reach_IdxInv ops : IdxInv (reach ops).
Proof. apply (BlobsOk_IdxInv K). apply reach_Inv. Qed.

Lemma reach_IdsOk ops : IdsOk (reach ops).
Proof. apply (run_IdsOk K cfg ops init_storage), init_IdsOk. Qed.

(* C01 *)
Lemma reach_read_latest ops k :
  get_latest_entry (reach ops) k None = spec_read (abs (reach ops)) k.
Proof. apply read_latest, reach_IdxInv. Qed.

(* the log is ordered by blob id: "most recently created blob" = later in the log *)
Lemma reach_ids_increasing ops : increasing (map b_id (blobs_in_order (reach ops))).
Proof. apply reach_IdsOk. Qed.

(* C04 / C03: anything that is not a write or a delete -- nor damage done to a blob file by a crash -- leaves the log
   untouched. `s_bad (reach ops) = []`: no blob file was made unreadable by a crash since the last start (always so
   while the storage is open: reach_open_no_bad); otherwise the next `open` moves the unreadable files to the corrupted
   directory and their records leave the log (CrashProofs.cut_inside_quarantines). *)
Lemma reach_open_no_bad ops : s_open (reach ops) = true -> s_bad (reach ops) = [].
Proof. apply reach_IdsOk. Qed.

Lemma reach_nondata_abs ops o :
  is_data_op o = false -> s_bad (reach ops) = [] -> abs (fst (step_q K cfg (reach ops) o)) = abs (reach ops).
Proof.
  intros Ho HB. apply step_q_nondata_abs; [exact Ho| | |exact HB].
  - apply reach_IdsOk.
  - apply (run_NoActiveWhenClosed K cfg ops init_storage), init_NoActiveWhenClosed.
Qed.

(* the same for EVERY history, crash damage included: the log is as before, except that `open` drops the records of
   the blob files a crash made unreadable *)
Lemma reach_nondata_abs_gen ops o :
  is_data_op o = false ->
  abs (fst (step_q K cfg (reach ops) o)) = match o with OOpen _ => readable_log (reach ops) | _ => abs (reach ops) end.
Proof.
  intros Ho. apply step_q_nondata_abs_gen; [exact Ho|apply reach_IdsOk|].
  apply (run_NoActiveWhenClosed K cfg ops init_storage), init_NoActiveWhenClosed.
Qed.

Lemma run_app ops1 : forall ops2 s,
  fst (run K cfg s (ops1 ++ ops2)) = fst (run K cfg (fst (run K cfg s ops1)) ops2).
Proof.
  induction ops1 as [|o r IH]; intros ops2 s; [reflexivity|].
  cbn [app run]. destruct (step_q K cfg s o) as [s' x] eqn:E.
  specialize (IH ops2 s'). destruct (run K cfg s' (r ++ ops2)) as [s2 xs2] eqn:E2.
  destruct (run K cfg s' r) as [s1 xs1] eqn:E1. cbn [fst] in *. exact IH.
Qed.

Lemma reach_snoc ops o : reach (ops ++ [o]) = fst (step_q K cfg (reach ops) o).
Proof.
  unfold reach. rewrite run_app. cbn [run]. destruct (step_q K cfg (fst (run K cfg init_storage ops)) o); reflexivity.
Qed.

Lemma nondata_not_cut o : is_data_op o = false -> forall id, o <> OCut id None.
Proof. intros H id ->. discriminate H. Qed.

Lemma reach_nondata_bad ops o :
  is_data_op o = false -> s_bad (reach ops) = [] -> s_bad (reach (ops ++ [o])) = [].
Proof.
  intros Ho HB. rewrite reach_snoc. apply bad_nil_step_q; [apply reach_IdsOk|apply nondata_not_cut, Ho|exact HB].
Qed.

(* C04: after a maintenance / lifecycle operation every read answers as before *)
Lemma reach_maint_read ops o k :
  is_data_op o = false -> s_bad (reach ops) = [] ->
  get_latest_entry (reach (ops ++ [o])) k None = get_latest_entry (reach ops) k None.
Proof.
  intros Ho HB. rewrite !reach_read_latest. rewrite reach_snoc, reach_nondata_abs by assumption. reflexivity.
Qed.

(* C03: close + reopen (eager or lazy), with or without removing index files in between *)
Lemma reach_restart_abs ops lazy :
  s_bad (reach ops) = [] -> abs (reach (ops ++ [OClose; OOpen lazy])) = abs (reach ops).
Proof.
  intros HB.
  replace (ops ++ [OClose; OOpen lazy]) with ((ops ++ [OClose]) ++ [OOpen lazy]) by (rewrite <- app_assoc; reflexivity).
  rewrite (reach_snoc (ops ++ [OClose])), reach_nondata_abs; [|reflexivity|apply reach_nondata_bad; [reflexivity|exact HB]].
  rewrite reach_snoc, reach_nondata_abs by (reflexivity || exact HB). reflexivity.
Qed.

Lemma reach_rmindex_bad ops ids :
  s_bad (reach ops) = [] -> s_bad (reach (ops ++ map ORmIndex ids)) = [].
Proof.
  intros HB. induction ids as [|i ids IH] using rev_ind.
  - cbn [map]. rewrite app_nil_r. exact HB.
  - rewrite map_app. cbn [map]. rewrite app_assoc. apply reach_nondata_bad; [reflexivity|exact IH].
Qed.

Lemma reach_restart_rmindex_abs ops ids lazy :
  s_bad (reach ops) = [] ->
  abs (reach (ops ++ [OClose] ++ map ORmIndex ids ++ [OOpen lazy])) = abs (reach ops).
Proof.
  intros HB. pose proof (reach_nondata_bad ops OClose eq_refl HB) as HB1.
  replace (ops ++ [OClose] ++ map ORmIndex ids ++ [OOpen lazy])
    with (((ops ++ [OClose]) ++ map ORmIndex ids) ++ [OOpen lazy]) by (rewrite <- !app_assoc; reflexivity).
  rewrite reach_snoc, reach_nondata_abs; [|reflexivity|apply reach_rmindex_bad, HB1].
  induction ids as [|i ids IH] using rev_ind.
  - cbn [map]. rewrite app_nil_r, reach_snoc, reach_nondata_abs by (reflexivity || exact HB). reflexivity.
  - rewrite map_app. cbn [map]. rewrite app_assoc, reach_snoc, reach_nondata_abs;
      [exact IH|reflexivity|apply reach_rmindex_bad, HB1].
Qed.

(* a session that ends without close *)
Lemma reach_drop_reopen_abs ops lazy :
  s_bad (reach ops) = [] -> abs (reach ((ops ++ [ODrop]) ++ [OOpen lazy])) = abs (reach ops).
Proof.
  intros HB.
  rewrite (reach_snoc (ops ++ [ODrop])), reach_nondata_abs; [|reflexivity|apply reach_nondata_bad; [reflexivity|exact HB]].
  rewrite reach_snoc, reach_nondata_abs by (reflexivity || exact HB). reflexivity.
Qed.

(* the positive forms, for EVERY history (crash damage included): *)
(* whatever happened before, `open` makes the log the records of the blob files that can be read back *)
Lemma reach_open_abs ops lazy : abs (reach (ops ++ [OOpen lazy])) = readable_log (reach ops).
Proof. rewrite reach_snoc. apply (reach_nondata_abs_gen ops (OOpen lazy)). reflexivity. Qed.

(* a running storage can be closed (or dropped) and started again without any change of the log *)
Lemma reach_restart_open_abs ops lazy :
  s_open (reach ops) = true -> abs (reach (ops ++ [OClose; OOpen lazy])) = abs (reach ops).
Proof. intros Ho. apply reach_restart_abs, reach_open_no_bad, Ho. Qed.

Lemma reach_drop_reopen_open_abs ops lazy :
  s_open (reach ops) = true -> abs (reach ((ops ++ [ODrop]) ++ [OOpen lazy])) = abs (reach ops).
Proof. intros Ho. apply reach_drop_reopen_abs, reach_open_no_bad, Ho. Qed.

Lemma reach_restart_read ops lazy k :
  s_bad (reach ops) = [] ->
  get_latest_entry (reach (ops ++ [OClose; OOpen lazy])) k None = get_latest_entry (reach ops) k None.
Proof. intros HB. rewrite !reach_read_latest. rewrite reach_restart_abs by exact HB. reflexivity. Qed.

End K.

Print Assumptions never_f2.
Print Assumptions never_index_error.
Print Assumptions write_acknowledged.
Print Assumptions reach_Inv.
Print Assumptions reach_read_latest.
Print Assumptions reach_maint_read.
Print Assumptions reach_restart_read.
Print Assumptions reach_nondata_abs_gen.
Print Assumptions reach_open_abs.
Print Assumptions reach_restart_open_abs.
