(* Run-level corollaries: what holds after EVERY history of the L3 model (no bound on its length). *)
Require Import Pearl.Base.Prelude Pearl.Storage.Model Pearl.Storage.Spec Pearl.Storage.Inv
               Pearl.Storage.IndexProofs Pearl.Storage.ReadProofs Pearl.Storage.InvProofs.

Section K.
Variable K : N.
Variable cfg : config.

Definition reach (ops : list op) : storage := fst (run K cfg init_storage ops).

Lemma reach_Inv ops : s_f2 (reach ops) = false -> Inv K (reach ops).
Proof. intros H. apply run_Inv; [apply init_Inv|exact H]. Qed.

(* C01 *)
Lemma reach_read_latest ops k :
  s_f2 (reach ops) = false -> get_latest_entry (reach ops) k None = spec_read (abs (reach ops)) k.
Proof. intros H. apply read_latest. apply (BlobsOk_IdxInv K). apply reach_Inv, H. Qed.

(* the log is ordered by blob id: "most recently created blob" = later in the log *)
Lemma reach_ids_increasing ops : increasing (map b_id (blobs_in_order (reach ops))).
Proof. apply (run_IdsOk K cfg ops init_storage), init_IdsOk. Qed.

(* C04 / C03: anything that is not a write or a delete leaves the log untouched *)
Lemma reach_nondata_abs ops o :
  is_data_op o = false -> abs (fst (step_q K cfg (reach ops) o)) = abs (reach ops).
Proof.
  intros Ho. apply step_q_nondata_abs; [exact Ho| |].
  - apply (run_IdsOk K cfg ops init_storage), init_IdsOk.
  - apply (run_NoActiveWhenClosed K cfg ops init_storage), init_NoActiveWhenClosed.
Qed.

Lemma run_app ops1 : forall ops2 s,
  fst (run K cfg s (ops1 ++ ops2)) = fst (run K cfg (fst (run K cfg s ops1)) ops2).
Proof.
  induction ops1 as [|o r IH]; intros ops2 s; [reflexivity|].
  cbn [app run]. destruct (step_q K cfg s o) as [s' x] eqn:E.
  specialize (IH ops2 s'). destruct (run K cfg s' (r ++ ops2)) as [s2 xs2] eqn:E2.
  destruct (run K cfg s' r) as [s1 xs1] eqn:E1. cbn [fst] in *. exact IH.
Qed.

Lemma reach_snoc ops o : reach (ops ++ [o]) = fst (step_q K cfg (reach ops) o).
Proof.
  unfold reach. rewrite run_app. cbn [run]. destruct (step_q K cfg (fst (run K cfg init_storage ops)) o); reflexivity.
Qed.

(* C04: after a maintenance / lifecycle operation every read answers as before *)
Lemma reach_maint_read ops o k :
  is_data_op o = false -> s_f2 (reach (ops ++ [o])) = false ->
  get_latest_entry (reach (ops ++ [o])) k None = get_latest_entry (reach ops) k None.
Proof.
  intros Ho Hf. rewrite reach_read_latest by exact Hf.
  assert (Hf0 : s_f2 (reach ops) = false).
  { destruct (s_f2 (reach ops)) eqn:E; [|reflexivity]. rewrite reach_snoc in Hf.
    unfold step_q in Hf. destruct (step K cfg (reach ops) o) as [s' x] eqn:E2. cbn [fst] in Hf.
    rewrite f2_quiesce in Hf. pose proof (f2_monotone_step K cfg (reach ops) o E) as Hm. rewrite E2 in Hm. cbn [fst] in Hm. congruence. }
  rewrite (reach_read_latest ops k Hf0). rewrite reach_snoc, reach_nondata_abs by exact Ho. reflexivity.
Qed.

(* C03: close + reopen (eager or lazy), with or without removing index files in between *)
Lemma reach_restart_abs ops lazy :
  abs (reach (ops ++ [OClose; OOpen lazy])) = abs (reach ops).
Proof.
  replace (ops ++ [OClose; OOpen lazy]) with ((ops ++ [OClose]) ++ [OOpen lazy]) by (rewrite <- app_assoc; reflexivity).
  rewrite (reach_snoc (ops ++ [OClose])), reach_nondata_abs by reflexivity.
  rewrite reach_snoc, reach_nondata_abs by reflexivity. reflexivity.
Qed.

Lemma reach_restart_rmindex_abs ops ids lazy :
  abs (reach (ops ++ [OClose] ++ map ORmIndex ids ++ [OOpen lazy])) = abs (reach ops).
Proof.
  rewrite !app_assoc. rewrite reach_snoc, reach_nondata_abs by reflexivity.
  induction ids as [|i ids IH] using rev_ind.
  - cbn [map]. rewrite app_nil_r, reach_snoc, reach_nondata_abs by reflexivity. reflexivity.
  - rewrite map_app. cbn [map]. rewrite app_assoc, reach_snoc, reach_nondata_abs by reflexivity. exact IH.
Qed.

End K.
