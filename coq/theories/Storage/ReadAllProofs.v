(* C02: Storage::read_all_with_deletion_marker / read_all / get_latest_entry with metadata agree with the
   specification (Spec.v): all records of the key in rank order (timestamp descending, then log order
   descending), cut after the first deletion marker. *)
Require Import Pearl.Base.Prelude Pearl.Storage.Model Pearl.Storage.Spec Pearl.Storage.Inv
               Pearl.Storage.IndexProofs Pearl.Storage.ReadProofs.

Ltac leb_cases :=
  repeat match goal with
         | |- context [?a <=? ?b] => destruct (N.leb_spec a b)
         end.

(* ---------- ins_desc / sort_desc: algebra (no sortedness needed) ---------- *)

(* insertions of records with different timestamps commute *)
Lemma ins_desc_comm x y l : r_ts x < r_ts y -> ins_desc x (ins_desc y l) = ins_desc y (ins_desc x l).
Proof.
  intros Hxy. induction l as [|z l IH]; repeat (cbn [ins_desc]; leb_cases); try lia; try reflexivity.
  rewrite IH. reflexivity.
Qed.

Definition ins_all (T D : list rec) : list rec := fold_right ins_desc T D.

Lemma sort_desc_app a b : sort_desc (a ++ b) = ins_all (sort_desc b) a.
Proof. unfold sort_desc, ins_all. apply fold_right_app. Qed.

Lemma ins_all_ins T x S : ins_all T (ins_desc x S) = ins_desc x (ins_all T S).
Proof.
  induction S as [|y S IH]; [reflexivity|].
  cbn [ins_desc]. destruct (N.leb_spec (r_ts y) (r_ts x)) as [Hle|Hgt]; [reflexivity|].
  unfold ins_all in *. cbn [fold_right]. rewrite IH. symmetry. apply ins_desc_comm. assumption.
Qed.

(* merging a sorted copy of `a` is the same as inserting the elements of `a` *)
Lemma ins_all_sort T a : ins_all T (sort_desc a) = ins_all T a.
Proof.
  induction a as [|x a IH]; [reflexivity|].
  change (sort_desc (x :: a)) with (ins_desc x (sort_desc a)). rewrite ins_all_ins, IH. reflexivity.
Qed.

Lemma sort_desc_idem a : sort_desc (sort_desc a) = sort_desc a.
Proof. exact (ins_all_sort [] a). Qed.

Lemma sort_concat_sorted Ls : sort_desc (concat (map sort_desc Ls)) = sort_desc (concat Ls).
Proof.
  induction Ls as [|a Ls IH]; [reflexivity|].
  cbn [map concat]. rewrite !sort_desc_app, IH. apply ins_all_sort.
Qed.

(* ---------- sortedness (descending) ---------- *)
Fixpoint sdesc (l : list rec) : Prop :=
  match l with
  | [] => True
  | x :: r => Forall (fun y => r_ts y <= r_ts x) r /\ sdesc r
  end.

Lemma ins_desc_Forall (P : rec -> Prop) x l : P x -> Forall P l -> Forall P (ins_desc x l).
Proof.
  intros Hx Hl. induction Hl as [|y l Hy Hl IH]; cbn [ins_desc]; [repeat constructor; assumption|].
  destruct (r_ts y <=? r_ts x); repeat constructor; assumption.
Qed.

Lemma ins_all_Forall (P : rec -> Prop) T D : Forall P T -> Forall P D -> Forall P (ins_all T D).
Proof.
  intros HT HD. induction HD as [|x D Hx HD IH]; [assumption|].
  unfold ins_all in *. cbn [fold_right]. apply ins_desc_Forall; assumption.
Qed.

Lemma sort_desc_Forall (P : rec -> Prop) l : Forall P l -> Forall P (sort_desc l).
Proof. intros H. apply (ins_all_Forall P [] l); [constructor|assumption]. Qed.

Lemma ins_desc_sdesc x l : sdesc l -> sdesc (ins_desc x l).
Proof.
  induction l as [|y l IH]; cbn [ins_desc sdesc]; [intros _; split; [constructor|exact I]|].
  intros [Hy Hl]. destruct (N.leb_spec (r_ts y) (r_ts x)) as [Hle|Hgt]; cbn [sdesc].
  - split; [|split; assumption]. constructor; [assumption|].
    eapply Forall_impl; [|exact Hy]. cbn beta. intros a Ha. lia.
  - split; [|apply IH; assumption]. apply ins_desc_Forall; [lia|assumption].
Qed.

Lemma ins_all_sdesc T D : sdesc T -> sdesc (ins_all T D).
Proof.
  intros HT. induction D as [|x D IH]; [assumption|].
  unfold ins_all in *. cbn [fold_right]. apply ins_desc_sdesc, IH.
Qed.

Lemma sort_desc_sdesc l : sdesc (sort_desc l).
Proof. apply (ins_all_sdesc [] l). exact I. Qed.

Lemma ins_desc_head x l : Forall (fun y => r_ts y <= r_ts x) l -> ins_desc x l = x :: l.
Proof.
  intros H. destruct H as [|y l Hy Hl]; cbn [ins_desc]; [reflexivity|].
  destruct (N.leb_spec (r_ts y) (r_ts x)); [reflexivity|lia].
Qed.

Lemma sort_desc_id l : sdesc l -> sort_desc l = l.
Proof.
  induction l as [|x l IH]; [reflexivity|]. intros [Hx Hl].
  change (sort_desc (x :: l)) with (ins_desc x (sort_desc l)). rewrite IH by assumption.
  apply ins_desc_head. assumption.
Qed.

(* ---------- cut_after_del ---------- *)
Definition nodel (r : rec) : Prop := r_del r = false.

Lemma cut_idem l : cut_after_del (cut_after_del l) = cut_after_del l.
Proof.
  induction l as [|h l IH]; [reflexivity|]. cbn [cut_after_del].
  destruct (r_del h) eqn:E; cbn [cut_after_del]; rewrite E; [reflexivity|]. rewrite IH. reflexivity.
Qed.

Lemma cut_nodel l : Forall nodel l -> cut_after_del l = l.
Proof.
  induction 1 as [|h l Hh Hl IH]; [reflexivity|]. cbn [cut_after_del]. rewrite Hh, IH. reflexivity.
Qed.

Lemma cut_Forall (P : rec -> Prop) l : Forall P l -> Forall P (cut_after_del l).
Proof.
  induction 1 as [|h l Hh Hl IH]; [constructor|]. cbn [cut_after_del].
  destruct (r_del h); repeat constructor; assumption.
Qed.

Lemma cut_sdesc l : sdesc l -> sdesc (cut_after_del l).
Proof.
  induction l as [|h l IH]; [auto|]. intros [Hh Hl]. cbn [cut_after_del].
  destruct (r_del h); cbn [sdesc]; [split; [constructor|exact I]|].
  split; [apply cut_Forall; assumption|apply IH; assumption].
Qed.

(* the cut of an insertion only depends on the cut of the list *)
Lemma cut_ins_cut x l : cut_after_del (ins_desc x l) = cut_after_del (ins_desc x (cut_after_del l)).
Proof.
  induction l as [|y l IH]; [reflexivity|].
  cbn [cut_after_del ins_desc]. destruct (N.leb_spec (r_ts y) (r_ts x)) as [Hle|Hgt].
  - destruct (r_del y) eqn:Ey; cbn [ins_desc]; destruct (N.leb_spec (r_ts y) (r_ts x)); try lia;
      cbn [cut_after_del]; rewrite Ey; [reflexivity|]. rewrite cut_idem. reflexivity.
  - destruct (r_del y) eqn:Ey; cbn [ins_desc]; destruct (N.leb_spec (r_ts y) (r_ts x)); try lia;
      cbn [cut_after_del]; rewrite Ey; [reflexivity|]. rewrite IH. reflexivity.
Qed.

Lemma cut_ins_congr x l l' :
  cut_after_del l = cut_after_del l' -> cut_after_del (ins_desc x l) = cut_after_del (ins_desc x l').
Proof. intros H. rewrite (cut_ins_cut x l), (cut_ins_cut x l'), H. reflexivity. Qed.

Lemma cut_ins_all_congr D T T' :
  cut_after_del T = cut_after_del T' -> cut_after_del (ins_all T D) = cut_after_del (ins_all T' D).
Proof.
  intros H. induction D as [|x D IH]; [assumption|].
  unfold ins_all in *. cbn [fold_right]. apply cut_ins_congr, IH.
Qed.

(* a record not newer than a marker d, inserted before d is, does not change the cut *)
Lemma cut_ins_marker d x l : r_del d = true -> r_ts x <= r_ts d ->
  cut_after_del (ins_desc d (ins_desc x l)) = cut_after_del (ins_desc d l).
Proof.
  intros Hd Hx. induction l as [|y l IH]; repeat (cbn [ins_desc]; leb_cases); try lia;
    cbn [cut_after_del]; rewrite ?Hd; try reflexivity.
  rewrite IH. reflexivity.
Qed.

Lemma cut_ins_marker_all d T P : r_del d = true -> Forall (fun x => r_ts x <= r_ts d) P ->
  cut_after_del (ins_desc d (ins_all T P)) = cut_after_del (ins_desc d T).
Proof.
  intros Hd HP. induction HP as [|x P Hx HP IH]; [reflexivity|].
  unfold ins_all in *. cbn [fold_right]. rewrite cut_ins_marker by assumption. exact IH.
Qed.

(* merging a sorted piece or its own cut gives the same result up to the first marker *)
Lemma cut_ins_all_cut T P : sdesc P ->
  cut_after_del (ins_all T (cut_after_del P)) = cut_after_del (ins_all T P).
Proof.
  induction P as [|y P IH]; [reflexivity|]. intros [Hy HP]. cbn [cut_after_del].
  destruct (r_del y) eqn:Ey; unfold ins_all in *; cbn [fold_right].
  - symmetry. apply cut_ins_marker_all; assumption.
  - apply cut_ins_congr, IH. assumption.
Qed.

Lemma cut_sort_concat_cut Ps : Forall sdesc Ps ->
  cut_after_del (sort_desc (concat (map cut_after_del Ps))) = cut_after_del (sort_desc (concat Ps)).
Proof.
  induction 1 as [|P Ps HP HPs IH]; [reflexivity|].
  cbn [map concat]. rewrite !sort_desc_app.
  rewrite (cut_ins_all_congr (cut_after_del P) _ _ IH). apply cut_ins_all_cut. assumption.
Qed.

(* ---------- the index vector, reversed, is the stable descending sort of the reversed records ---------- *)
Lemma sorted_ts_Forall x r : sorted_ts (x :: r) -> Forall (fun y => r_ts x <= r_ts y) r.
Proof.
  revert x. induction r as [|z r IH]; intros x [Hx Hr]; constructor; [assumption|].
  eapply Forall_impl; [|apply IH; exact Hr]. cbn beta. intros a Ha. lia.
Qed.

Lemma ins_desc_snoc_le h w x : r_ts x <= r_ts h -> ins_desc h (w ++ [x]) = ins_desc h w ++ [x].
Proof.
  intros Hx. induction w as [|y w IH]; cbn [app ins_desc].
  - destruct (N.leb_spec (r_ts x) (r_ts h)); [reflexivity|lia].
  - destruct (r_ts y <=? r_ts h); [reflexivity|]. rewrite IH. reflexivity.
Qed.

Lemma ins_desc_last h w : Forall (fun y => r_ts h < r_ts y) w -> ins_desc h w = w ++ [h].
Proof.
  induction 1 as [|y w Hy Hw IH]; [reflexivity|]. cbn [ins_desc app].
  destruct (N.leb_spec (r_ts y) (r_ts h)); [lia|]. rewrite IH. reflexivity.
Qed.

Lemma rev_vec_insert v h : sorted_ts v -> rev (vec_insert v h) = ins_desc h (rev v).
Proof.
  induction v as [|x r IH]; [reflexivity|]. intros Hs. cbn [vec_insert].
  destruct (N.leb_spec (r_ts x) (r_ts h)) as [Hle|Hgt].
  - cbn [rev]. rewrite IH by (apply Hs). symmetry. apply ins_desc_snoc_le. assumption.
  - change (rev (h :: x :: r)) with (rev (x :: r) ++ [h]). symmetry. apply ins_desc_last.
    cbn [rev]. apply Forall_app. split; [|repeat constructor; assumption].
    apply Forall_rev. eapply Forall_impl; [|apply sorted_ts_Forall; exact Hs]. cbn beta. intros a Ha. lia.
Qed.

Lemma rev_vec_of l : rev (vec_of l) = sort_desc (rev l).
Proof.
  induction l as [|h l IH] using rev_ind; [reflexivity|].
  unfold vec_of. rewrite fold_left_app. cbn [fold_left]. fold (vec_of l).
  rewrite rev_vec_insert by apply vec_of_sorted. rewrite rev_unit, IH. reflexivity.
Qed.

Section Key.
Variable k : N.

(* the records of the key in one blob, newest first (rank order) *)
Definition rkey (b : blob) : list rec := rev (of_key k (b_recs b)).
Definition dkey (b : blob) : list rec := sort_desc (rkey b).

Lemma idx_get_all_dm_ok b : idx_ok b -> idx_get_all_dm (b_idx b) k = cut_after_del (dkey b).
Proof.
  intros H. unfold idx_get_all_dm, dkey, rkey. rewrite H, imap_get_index_of.
  destruct (of_key k (b_recs b)) as [|x l] eqn:E; [reflexivity|]. rewrite rev_vec_of. reflexivity.
Qed.

(* blobs newest first: the order in which the storage visits them *)
Definition newest_first (s : storage) : list blob :=
  (match s_active s with Some b => [b] | None => [] end) ++ rev (closed_blobs s).

Lemma newest_first_rev s : newest_first s = rev (blobs_in_order s).
Proof.
  unfold newest_first, blobs_in_order. rewrite rev_app_distr. destruct (s_active s); reflexivity.
Qed.

Lemma rev_of_key_blobs bs :
  rev (of_key k (flat_map b_recs bs)) = concat (map rkey (rev bs)).
Proof.
  induction bs as [|b bs IH]; [reflexivity|].
  cbn [flat_map rev]. rewrite of_key_app, rev_app_distr, IH, map_app, concat_app.
  cbn [map concat]. rewrite app_nil_r. reflexivity.
Qed.

Lemma spec_all_dm_blobs s :
  spec_all_dm (abs s) k = cut_after_del (sort_desc (concat (map dkey (newest_first s)))).
Proof.
  unfold spec_all_dm, abs. rewrite rev_of_key_blobs, <- newest_first_rev.
  rewrite <- (sort_concat_sorted (map rkey (newest_first s))), map_map. reflexivity.
Qed.

(* ---------- read_all_dm ---------- *)
Definition nonempty (l : list rec) : bool := match l with [] => false | _ => true end.
Definition ends_del (l : list rec) : bool := match last_del_ts l with Some _ => true | None => false end.

Definition assemble (per_blob : list (list rec)) : list rec :=
  let affected := length (filter nonempty per_blob) in
  let marker := existsb ends_del per_blob in
  let all := concat per_blob in
  if (1 <? affected)%nat then
    let sorted := sort_desc all in
    if marker then cut_after_del sorted else sorted
  else all.

Lemma read_all_dm_assemble s :
  read_all_dm s k = assemble (map (fun b => idx_get_all_dm (b_idx b) k) (newest_first s)).
Proof. unfold read_all_dm, newest_first. destruct (s_active s); reflexivity. Qed.

Lemma last_del_ts_cons h l :
  last_del_ts (h :: l) = match l with [] => if r_del h then Some (r_ts h) else None | _ => last_del_ts l end.
Proof.
  destruct l as [|y l]; [reflexivity|]. unfold last_del_ts. cbn [rev].
  destruct (rev l ++ [y]) as [|z t] eqn:E; [destruct (rev l); discriminate|]. reflexivity.
Qed.

(* a cut list that does not end in a marker contains no marker *)
Lemma cut_no_marker l : last_del_ts (cut_after_del l) = None -> Forall nodel (cut_after_del l).
Proof.
  induction l as [|h l IH]; [constructor|]. cbn [cut_after_del].
  destruct (r_del h) eqn:Eh.
  - unfold last_del_ts. cbn [rev app]. rewrite Eh. discriminate.
  - rewrite last_del_ts_cons. intros H. constructor; [exact Eh|].
    destruct (cut_after_del l) as [|y t]; [constructor|]. apply IH, H.
Qed.

Definition piece_ok (C : list rec) : Prop := sdesc C /\ cut_after_del C = C.

Lemma concat_single Cs : (length (filter nonempty Cs) <= 1)%nat -> Forall piece_ok Cs -> piece_ok (concat Cs).
Proof.
  intros Hn H. induction H as [|C Cs HC HCs IH]; [split; [exact I|reflexivity]|].
  cbn [concat]. destruct C as [|x C]; [apply IH; exact Hn|].
  cbn [filter nonempty length] in Hn.
  assert (Hz : concat Cs = []).
  { clear - Hn. induction Cs as [|D Cs IH]; [reflexivity|]. destruct D as [|y D]; cbn [filter nonempty length concat app] in *; [|lia].
    apply IH. exact Hn. }
  rewrite Hz, app_nil_r. exact HC.
Qed.

Lemma assemble_ok Cs : Forall piece_ok Cs -> assemble Cs = cut_after_del (sort_desc (concat Cs)).
Proof.
  intros H. unfold assemble. cbv zeta.
  destruct (Nat.ltb_spec 1 (length (filter nonempty Cs))) as [Hn|Hn].
  - destruct (existsb ends_del Cs) eqn:Em; [reflexivity|]. symmetry. apply cut_nodel, sort_desc_Forall.
    apply Forall_concat. rewrite Forall_forall in *. intros C HC.
    destruct (H C HC) as [_ Hcut]. rewrite <- Hcut. apply cut_no_marker. rewrite Hcut.
    destruct (last_del_ts C) eqn:El; [|reflexivity].
    assert (Ht : existsb ends_del Cs = true) by (apply existsb_exists; exists C; split; [assumption|unfold ends_del; rewrite El; reflexivity]).
    congruence.
  - destruct (concat_single Cs) as [Hs Hc]; [lia|assumption|].
    rewrite sort_desc_id by assumption. symmetry. exact Hc.
Qed.

Theorem read_all_dm_spec_k s : IdxInv s -> read_all_dm s k = spec_all_dm (abs s) k.
Proof.
  intros H. unfold IdxInv in H. apply Forall_rev in H. rewrite <- newest_first_rev in H.
  rewrite read_all_dm_assemble, spec_all_dm_blobs.
  rewrite (map_ext_in _ (fun b => cut_after_del (dkey b))).
  2:{ intros b Hb. apply idx_get_all_dm_ok. rewrite Forall_forall in H. apply H, Hb. }
  rewrite <- (map_map dkey cut_after_del).
  rewrite assemble_ok.
  - apply cut_sort_concat_cut. apply Forall_forall. intros D HD. apply in_map_iff in HD.
    destruct HD as [b [<- _]]. apply sort_desc_sdesc.
  - apply Forall_forall. intros C HC. apply in_map_iff in HC. destruct HC as [D [<- HD]].
    apply in_map_iff in HD. destruct HD as [b [<- _]]. split; [apply cut_sdesc, sort_desc_sdesc|apply cut_idem].
Qed.

End Key.

Theorem read_all_dm_spec : forall s k, IdxInv s -> read_all_dm s k = spec_all_dm (abs s) k.
Proof. intros s k H. apply read_all_dm_spec_k, H. Qed.

Corollary read_all_spec : forall s k, IdxInv s -> read_all s k = spec_all (abs s) k.
Proof. intros s k H. unfold read_all, spec_all. rewrite read_all_dm_spec by assumption. reflexivity. Qed.

(* ---------- lookup with metadata ---------- *)

(* ReadResult::latest is "leftmost maximum": associative, NotFound neutral *)
Lemma rr_latest_NotFound_l (x : rr rec) : rr_latest r_ts NotFound x = x.
Proof. unfold rr_latest. destruct x; reflexivity. Qed.

Lemma rr_latest_NotFound_r (x : rr rec) : rr_latest r_ts x NotFound = x.
Proof. unfold rr_latest. destruct x; reflexivity. Qed.

Lemma opt_gt_false_trans a b c : opt_gt c b = false -> opt_gt b a = false -> opt_gt c a = false.
Proof.
  destruct a as [a|], b as [b|], c as [c|]; cbn [opt_gt]; try discriminate; try reflexivity.
  rewrite !N.ltb_ge. lia.
Qed.

Lemma opt_gt_true_trans a b c : opt_gt c b = true -> opt_gt b a = true -> opt_gt c a = true.
Proof.
  destruct a as [a|], b as [b|], c as [c|]; cbn [opt_gt]; try discriminate; try reflexivity.
  rewrite !N.ltb_lt. lia.
Qed.

Lemma rr_latest_assoc (a b c : rr rec) :
  rr_latest r_ts a (rr_latest r_ts b c) = rr_latest r_ts (rr_latest r_ts a b) c.
Proof.
  unfold rr_latest.
  destruct (opt_gt (rr_ts r_ts c) (rr_ts r_ts b)) eqn:Ecb;
    destruct (opt_gt (rr_ts r_ts b) (rr_ts r_ts a)) eqn:Eba; rewrite ?Ecb, ?Eba; try reflexivity.
  - rewrite (opt_gt_true_trans _ _ _ Ecb Eba). reflexivity.
  - rewrite (opt_gt_false_trans _ _ _ Ecb Eba). reflexivity.
Qed.

Lemma fold_latest_assoc rs : forall a,
  fold_left (rr_latest r_ts) rs a = rr_latest r_ts a (fold_left (rr_latest r_ts) rs (@NotFound rec)).
Proof.
  induction rs as [|x rs IH]; intros a; cbn [fold_left]; [symmetry; apply rr_latest_NotFound_r|].
  rewrite IH, (IH (rr_latest r_ts NotFound x)), rr_latest_NotFound_l. symmetry. apply rr_latest_assoc.
Qed.

Section Meta.
Variable m : N.

(* the answer, read off a rank-ordered list: the first record that is a marker or carries meta m *)
Fixpoint scan (l : list rec) : rr rec :=
  match l with
  | [] => NotFound
  | h :: r => if r_del h then Deleted (r_ts h) else if r_meta h =? m then Found h else scan r
  end.

(* Blob::get_entry_with_meta / spec_read_with, as a function of the list with deletion marker *)
Definition res (hs : list rec) : rr rec :=
  match find (fun h => r_meta h =? m) (strip_last_del hs) with
  | Some h => Found h
  | None => match last_del_ts hs with Some t => Deleted t | None => NotFound end
  end.

Lemma strip_last_del_cons h l : l <> [] -> strip_last_del (h :: l) = h :: strip_last_del l.
Proof.
  intros Hl. unfold strip_last_del. cbn [rev].
  destruct (rev l) as [|y t] eqn:E.
  - exfalso. apply Hl. rewrite <- (rev_involutive l), E. reflexivity.
  - cbn [app]. destruct (r_del y); [|reflexivity]. rewrite rev_unit. reflexivity.
Qed.

Lemma res_cons h l : r_del h = false -> res (h :: l) = if r_meta h =? m then Found h else res l.
Proof.
  intros Hh. destruct l as [|y l].
  - unfold res, strip_last_del, last_del_ts. cbn [rev app]. rewrite Hh. cbn [find].
    destruct (r_meta h =? m); reflexivity.
  - unfold res. rewrite strip_last_del_cons by discriminate. rewrite (last_del_ts_cons h (y :: l)).
    cbn [find]. destruct (r_meta h =? m); reflexivity.
Qed.

Lemma res_cut l : res (cut_after_del l) = scan l.
Proof.
  induction l as [|h l IH]; [reflexivity|]. cbn [cut_after_del scan].
  destruct (r_del h) eqn:Eh.
  - unfold res, strip_last_del, last_del_ts. cbn [rev app]. rewrite Eh. reflexivity.
  - rewrite res_cons by assumption. rewrite IH. reflexivity.
Qed.

Lemma scan_cons x l : scan (x :: l) = match scan [x] with NotFound => scan l | r => r end.
Proof. cbn [scan]. destruct (r_del x); [reflexivity|]. destruct (r_meta x =? m); reflexivity. Qed.

Lemma scan_single_ts x : rr_ts r_ts (scan [x]) = None \/ rr_ts r_ts (scan [x]) = Some (r_ts x).
Proof. cbn [scan]. destruct (r_del x); [right; reflexivity|]. destruct (r_meta x =? m); [right|left]; reflexivity. Qed.

Lemma scan_single_NotFound x : rr_ts r_ts (scan [x]) = None -> scan [x] = NotFound.
Proof. cbn [scan]. destruct (r_del x); [discriminate|]. destruct (r_meta x =? m); [discriminate|reflexivity]. Qed.

Lemma scan_ts_bound b l : Forall (fun y => r_ts y <= b) l ->
  match rr_ts r_ts (scan l) with Some t => t <= b | None => True end.
Proof.
  induction 1 as [|y l Hy Hl IH]; [exact I|]. cbn [scan].
  destruct (r_del y); [exact Hy|]. destruct (r_meta y =? m); [exact Hy|exact IH].
Qed.

(* inserting one record into a sorted list: the answer is the `latest` of the two answers *)
Lemma scan_ins x U : sdesc U -> scan (ins_desc x U) = rr_latest r_ts (scan [x]) (scan U).
Proof.
  induction U as [|y U IH]; [intros _; symmetry; apply rr_latest_NotFound_r|].
  intros [Hy HU]. cbn [ins_desc]. destruct (N.leb_spec (r_ts y) (r_ts x)) as [Hle|Hgt].
  - (* x goes in front: everything in U is <= x *)
    rewrite (scan_cons x (y :: U)).
    assert (Hb : Forall (fun z => r_ts z <= r_ts x) (y :: U)).
    { constructor; [assumption|]. eapply Forall_impl; [|exact Hy]. cbn beta. intros a Ha. lia. }
    apply scan_ts_bound in Hb. unfold rr_latest.
    destruct (scan_single_ts x) as [E|E].
    + rewrite (scan_single_NotFound x E). cbn [rr_ts]. destruct (scan (y :: U)); reflexivity.
    + rewrite E. destruct (rr_ts r_ts (scan (y :: U))) as [t|]; cbn [opt_gt].
      * destruct (N.ltb_spec (r_ts x) t); [lia|]. destruct (scan [x]); try reflexivity. discriminate.
      * destruct (scan [x]); try reflexivity. discriminate.
  - rewrite (scan_cons y (ins_desc x U)), (scan_cons y U), IH by assumption.
    destruct (scan_single_ts y) as [E|E].
    + rewrite (scan_single_NotFound y E). reflexivity.
    + assert (Hy' : scan [y] <> NotFound) by (intros C; rewrite C in E; discriminate).
      transitivity (scan [y]); [destruct (scan [y]); try reflexivity; contradiction|].
      transitivity (rr_latest r_ts (scan [x]) (scan [y])); [|destruct (scan [y]); try reflexivity; contradiction].
      unfold rr_latest. rewrite E. destruct (scan_single_ts x) as [Ex|Ex]; rewrite Ex; cbn [opt_gt]; [reflexivity|].
      destruct (N.ltb_spec (r_ts x) (r_ts y)); [reflexivity|lia].
Qed.

Lemma scan_sorted_cons x D : sdesc (x :: D) -> scan (x :: D) = rr_latest r_ts (scan [x]) (scan D).
Proof.
  intros [Hx HD]. rewrite <- (ins_desc_head x D Hx). apply scan_ins. assumption.
Qed.

(* merging a sorted piece (newer blob) into the sorted list of the older ones *)
Lemma scan_ins_all T D : sdesc T -> sdesc D -> scan (ins_all T D) = rr_latest r_ts (scan D) (scan T).
Proof.
  intros HT. induction D as [|x D IH]; [intros _; symmetry; apply rr_latest_NotFound_l|].
  intros HD. rewrite (scan_sorted_cons x D HD). destruct HD as [Hx HD].
  change (ins_all T (x :: D)) with (ins_desc x (ins_all T D)).
  rewrite scan_ins by (apply ins_all_sdesc; assumption). rewrite IH by assumption.
  apply rr_latest_assoc.
Qed.

Lemma scan_sort_concat Ds : Forall sdesc Ds ->
  fold_left (rr_latest r_ts) (map scan Ds) NotFound = scan (sort_desc (concat Ds)).
Proof.
  induction 1 as [|D Ds HD HDs IH]; [reflexivity|].
  cbn [map fold_left concat]. rewrite fold_latest_assoc, rr_latest_NotFound_l, IH, sort_desc_app.
  symmetry. apply scan_ins_all; [apply sort_desc_sdesc|assumption].
Qed.

Lemma fold_left_map_rr {A} (g : A -> rr rec) l : forall a,
  fold_left (fun acc b => rr_latest r_ts acc (g b)) l a = fold_left (rr_latest r_ts) (map g l) a.
Proof. induction l as [|x l IH]; intros a; [reflexivity|]. cbn [map fold_left]. apply IH. Qed.

Variable k : N.

Lemma blob_get_with_meta_ok b : idx_ok b -> blob_get_latest (b_idx b) k (Some m) = scan (dkey k b).
Proof.
  intros H. cbn [blob_get_latest]. unfold blob_get_with_meta. cbv zeta. fold (res (idx_get_all_dm (b_idx b) k)).
  rewrite idx_get_all_dm_ok by assumption. apply res_cut.
Qed.

Lemma get_latest_entry_newest_first s meta :
  get_latest_entry s k meta
  = fold_left (fun acc b => rr_latest r_ts acc (blob_get_latest (b_idx b) k meta)) (newest_first s) NotFound.
Proof. unfold get_latest_entry, newest_first. destruct (s_active s); reflexivity. Qed.

Lemma spec_read_with_scan s :
  spec_read_with (abs s) k m = scan (sort_desc (concat (map (dkey k) (newest_first s)))).
Proof.
  unfold spec_read_with. cbv zeta. fold (res (spec_all_dm (abs s) k)).
  rewrite spec_all_dm_blobs. apply res_cut.
Qed.

Theorem read_with_spec_km s : IdxInv s -> get_latest_entry s k (Some m) = spec_read_with (abs s) k m.
Proof.
  intros H. unfold IdxInv in H. apply Forall_rev in H. rewrite <- (newest_first_rev s) in H.
  rewrite get_latest_entry_newest_first, spec_read_with_scan, fold_left_map_rr.
  rewrite (map_ext_in _ (fun b => scan (dkey k b))).
  2:{ intros b Hb. apply blob_get_with_meta_ok. rewrite Forall_forall in H. apply H, Hb. }
  rewrite <- (map_map (dkey k) scan). apply scan_sort_concat.
  apply Forall_forall. intros D HD. apply in_map_iff in HD. destruct HD as [b [<- _]]. apply sort_desc_sdesc.
Qed.

End Meta.

Theorem read_with_spec : forall s k m, IdxInv s -> get_latest_entry s k (Some m) = spec_read_with (abs s) k m.
Proof. intros s k m H. apply read_with_spec_km, H. Qed.

Print Assumptions read_all_dm_spec.
Print Assumptions read_all_spec.
Print Assumptions read_with_spec.
