(* L0: byte-level format of blob files (src/record/record.rs, src/record/partially_serialized.rs,
   src/blob/header.rs, src/blob/entry.rs). bincode encodes u64/usize as 8 LE bytes, u32 as 4, u8 as 1,
   Vec<u8> as u64 length + bytes. The field order is the one in Generated/Consts.v (the FIELDS_ constants), pinned in
   Properties/C17.v. Metadata is an opaque byte string (a bincode-encoded map). *)
Require Import Pearl.Base.Prelude Pearl.Base.LE Pearl.Base.Crc Pearl.Generated.Consts.

Record header := mkHeader {
  h_magic : N; h_key : bytes; h_msize : N; h_dsize : N; h_flags : N; h_off : N; h_ts : N; h_dcrc : N; h_hcrc : N
}.

(* bincode::serialize(&Header) *)
Definition encode_header (h : header) : bytes :=
  le64 (h_magic h) ++ le64 (N.of_nat (length (h_key h))) ++ h_key h ++ le64 (h_msize h) ++ le64 (h_dsize h)
  ++ [h_flags h mod 256] ++ le64 (h_off h) ++ le64 (h_ts h) ++ le32 (h_dcrc h) ++ le32 (h_hcrc h).

Definition header_size (klen : N) : N := 57 + klen.

Definition with_hcrc (h : header) (c : N) : header :=
  {| h_magic := h_magic h; h_key := h_key h; h_msize := h_msize h; h_dsize := h_dsize h; h_flags := h_flags h;
     h_off := h_off h; h_ts := h_ts h; h_dcrc := h_dcrc h; h_hcrc := c |}.
Definition with_off (h : header) (o : N) : header :=
  {| h_magic := h_magic h; h_key := h_key h; h_msize := h_msize h; h_dsize := h_dsize h; h_flags := h_flags h;
     h_off := o; h_ts := h_ts h; h_dcrc := h_dcrc h; h_hcrc := h_hcrc h |}.

(* Header::crc32 with header_checksum = 0 *)
Definition header_crc (h : header) : N := crc32c (encode_header (with_hcrc h 0)).

(* Header::new + Record::create *)
Definition new_header (key : bytes) (ts : N) (meta data : bytes) : header :=
  {| h_magic := RECORD_MAGIC_BYTE; h_key := key; h_msize := N.of_nat (length meta); h_dsize := N.of_nat (length data);
     h_flags := 0; h_off := 0; h_ts := ts; h_dcrc := crc32c data; h_hcrc := 0 |}.

(* Record::deleted: flag set (header CRC recomputed; it is patched again at write time) *)
Definition deleted_header (key : bytes) (ts : N) (meta : bytes) : header :=
  let h := new_header key ts meta [] in
  let h := {| h_magic := h_magic h; h_key := h_key h; h_msize := h_msize h; h_dsize := h_dsize h;
              h_flags := N.lor (h_flags h) DELETE_FLAG; h_off := h_off h; h_ts := h_ts h; h_dcrc := h_dcrc h; h_hcrc := 0 |} in
  with_hcrc h (header_crc h).

Definition is_deleted (h : header) : bool := N.land (h_flags h) DELETE_FLAG =? DELETE_FLAG.

Fixpoint patch (buf : bytes) (pos : nat) (v : bytes) : bytes :=
  match pos, buf with
  | O, _ => v ++ skipn (length v) buf
  | S p, b :: r => b :: patch r p v
  | S _, [] => []
  end.

(* PartiallySerializedRecord::finalize_with_checksum(buf, header_len, blob_offset):
   offset at header_len-24, checksum at header_len-4 *)
Definition finalize (buf : bytes) (hlen : nat) (off : N) : bytes * N :=
  let buf := patch buf (hlen - 24) (le64 off) in
  let buf := patch buf (hlen - 4) (le32 0) in
  let c := crc32c (firstn hlen buf) in
  (patch buf (hlen - 4) (le32 c), c).

(* Record::to_partially_serialized_and_header: (head [++ data if it fits in one pass], optional second buffer) *)
Definition partially_serialize (h : header) (meta data : bytes) : bytes * nat * option bytes :=
  let head := encode_header h ++ meta in
  let hlen := length (encode_header h) in
  if (N.of_nat (length head + length data) <=? MAX_SINGLE_PASS_DATA_SIZE)
  then (head ++ data, hlen, None) else (head, hlen, Some data).

(* what write_append_writable_data puts into the file at `off`, and the header the index receives *)
Definition write_record (h : header) (meta data : bytes) (off : N) : bytes * header :=
  let '(buf, hlen, second) := partially_serialize h meta data in
  let '(buf', c) := finalize buf hlen off in
  (buf' ++ match second with Some d => d | None => [] end, with_hcrc (with_off h off) c).

(* blob header: bincode(Header { magic_byte: u64, version: u32, flags: u64 }) *)
Definition blob_header_bytes : bytes := le64 BLOB_MAGIC_BYTE ++ le32 BLOB_VERSION ++ le64 0.

(* ---------- reading ---------- *)
Inductive rerr := EBincode | EMagic | EHeaderCrc | EDataCrc | EKeySize | EBlobMagic | EBlobVersion.
Inductive res (A : Type) := ROk (a : A) | RFail (e : rerr).
Arguments ROk {A}. Arguments RFail {A}.

(* a positional read of zero bytes never fails, even beyond the end of the file *)
Definition slice (b : bytes) (off len : N) : option bytes :=
  if len =? 0 then Some [] else
  if off + len <=? N.of_nat (length b) then Some (firstn (N.to_nat len) (skipn (N.to_nat off) b)) else None.

(* Header::validate: magic, then header checksum *)
Definition validate_header (h : header) : option rerr :=
  if negb (h_magic h =? RECORD_MAGIC_BYTE) then Some EMagic
  else if negb (header_crc h =? h_hcrc h) then Some EHeaderCrc else None.

(* Entry::load: read meta+data at blob_offset + header size, validate header, audit data checksum *)
Definition entry_load (blob : bytes) (h : header) : res (bytes * bytes) :=
  match slice blob (h_off h + header_size (N.of_nat (length (h_key h)))) (h_msize h + h_dsize h) with
  | None => RFail EBincode
  | Some buf =>
    let meta := firstn (N.to_nat (h_msize h)) buf in
    let data := skipn (N.to_nat (h_msize h)) buf in
    match validate_header h with
    | Some e => RFail e
    | None => if crc32c data =? h_dcrc h then ROk (meta, data) else RFail EDataCrc
    end
  end.

(* decoding a header from `klen + 57` bytes (RecordHeader::from_raw), used by the scan *)
Definition decode_header (b : bytes) : option header :=
  let u64 o := le_val (firstn 8 (skipn o b)) in
  let u32 o := le_val (firstn 4 (skipn o b)) in
  if (length b <? 16)%nat then None else
  let klen := N.to_nat (u64 8%nat) in
  if negb (length b =? 57 + klen)%nat then None else
  Some {| h_magic := u64 0%nat; h_key := firstn klen (skipn 16 b); h_msize := u64 (16 + klen)%nat;
          h_dsize := u64 (24 + klen)%nat; h_flags := nth (32 + klen) b 0; h_off := u64 (33 + klen)%nat;
          h_ts := u64 (41 + klen)%nat; h_dcrc := u32 (49 + klen)%nat; h_hcrc := u32 (53 + klen)%nat |}.
