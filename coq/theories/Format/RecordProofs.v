(* Proofs about the byte-level record format model (Format/Record.v).

   Hypotheses added to the requested statements (everything else is as requested):

   - write_record_bytes      : none.
   - decode_encode_header    : [wf_header h], i.e. every fixed-width field fits its width:
                                 h_magic, length (h_key h), h_msize, h_dsize, h_off, h_ts < 2^64,
                                 h_flags < 256, h_dcrc, h_hcrc < 2^32.
                               (All are necessary: the encoder truncates each field to its width, so a header
                                violating any of them is not the decoding of its encoding.  The key BYTES are
                                unconstrained.)
   - entry_load_roundtrip    : none.
   - altered_data_not_served : none beyond the requested ones.
   - crc32c_detects_4_bytes  : none beyond the requested ones (p and s are arbitrary).
   - crc32c_detects_burst32  : none beyond the requested ones.
*)
Require Import Pearl.Base.Prelude Pearl.Base.LE Pearl.Base.LEProofs Pearl.Base.Crc Pearl.Base.CrcProofs
               Pearl.Generated.Consts Pearl.Format.Record.

(* ------------------------------------------------------------------------------------------------ *)
(* list helpers                                                                                     *)
(* ------------------------------------------------------------------------------------------------ *)

Lemma skipn_app_exact {A} (a l : list A) : skipn (length a) (a ++ l) = l.
Proof. induction a as [|x a IH]; cbn [length app skipn]; auto. Qed.

Lemma skipn_app_len {A} (a l : list A) (k n : nat) :
  length a = k -> skipn (k + n)%nat (a ++ l) = skipn n l.
Proof. intros <-. induction a as [|x a IH]; cbn [length app Nat.add skipn]; auto. Qed.

Lemma firstn_len {A} (a : list A) (k : nat) : length a = k -> firstn k a = a.
Proof. intros <-. induction a as [|x a IH]; cbn [length firstn]; [reflexivity | f_equal; exact IH]. Qed.

Lemma firstn_app_len {A} (a l : list A) (k : nat) : length a = k -> firstn k (a ++ l) = a.
Proof.
  intros <-. induction a as [|x a IH]; cbn [length firstn app]; [reflexivity | f_equal; exact IH].
Qed.

Lemma firstn_app_len2 {A} (a v c : list A) (k : nat) :
  (length a + length v)%nat = k -> firstn k (a ++ v ++ c) = a ++ v.
Proof. intros H. rewrite app_assoc. apply firstn_app_len. rewrite app_length. exact H. Qed.

Lemma field_at {A} (a v c : list A) (o n : nat) :
  length a = o -> length v = n -> firstn n (skipn o (a ++ v ++ c)) = v.
Proof. intros <- <-. rewrite skipn_app_exact. apply firstn_app_len. reflexivity. Qed.

Lemma nth_skipn0 {A} (l : list A) (n : nat) (d : A) : nth n l d = nth 0 (skipn n l) d.
Proof.
  revert l; induction n as [|n IH]; intros l; [reflexivity|].
  destruct l as [|x l]; [reflexivity|]. cbn [nth skipn]. apply IH.
Qed.

Lemma app_inv_len {A} (a c b d : list A) : length a = length c -> a ++ b = c ++ d -> a = c /\ b = d.
Proof.
  revert c; induction a as [|x a IH]; intros [|y c] Hl E; try discriminate.
  - split; [reflexivity | exact E].
  - cbn [app] in E. injection E as Exy E. cbn [length] in Hl.
    destruct (IH c ltac:(lia) E) as [-> ->]. subst y. split; reflexivity.
Qed.

(* ------------------------------------------------------------------------------------------------ *)
(* patch                                                                                            *)
(* ------------------------------------------------------------------------------------------------ *)

Lemma patch_0 buf v : patch buf 0 v = v ++ skipn (length v) buf.
Proof. destruct buf; reflexivity. Qed.

Lemma patch_app a v0 v c (pos : nat) :
  length a = pos -> length v0 = length v -> patch (a ++ v0 ++ c) pos v = a ++ v ++ c.
Proof.
  intros <- Hv. induction a as [|x a IH]; cbn [length app].
  - rewrite patch_0, <- Hv, skipn_app_exact. reflexivity.
  - cbn [patch]. f_equal. exact IH.
Qed.

(* ------------------------------------------------------------------------------------------------ *)
(* shape of an encoded header                                                                       *)
(* ------------------------------------------------------------------------------------------------ *)

Definition front (h : header) : bytes :=
  le64 (h_magic h) ++ le64 (N.of_nat (length (h_key h))) ++ h_key h ++ le64 (h_msize h) ++ le64 (h_dsize h)
  ++ [h_flags h mod 256].

Definition mid (h : header) : bytes := le64 (h_ts h) ++ le32 (h_dcrc h).

Lemma le64_length x : length (le64 x) = 8%nat. Proof. apply le_bytes_length. Qed.
Lemma le32_length x : length (le32 x) = 4%nat. Proof. apply le_bytes_length. Qed.

Lemma encode_header_parts h :
  encode_header h = front h ++ le64 (h_off h) ++ mid h ++ le32 (h_hcrc h).
Proof. unfold encode_header, front, mid. rewrite <- !app_assoc. reflexivity. Qed.

Lemma front_length h : length (front h) = (33 + length (h_key h))%nat.
Proof. unfold front. rewrite !app_length, !le64_length. cbn [length]. lia. Qed.

Lemma mid_length h : length (mid h) = 12%nat.
Proof. unfold mid. rewrite app_length, le64_length, le32_length. reflexivity. Qed.

Lemma encode_header_length h : length (encode_header h) = (57 + length (h_key h))%nat.
Proof.
  rewrite encode_header_parts, !app_length, front_length, mid_length, le64_length, le32_length. lia.
Qed.

Lemma front_with h off c : front (with_hcrc (with_off h off) c) = front h.
Proof. reflexivity. Qed.
Lemma mid_with h off c : mid (with_hcrc (with_off h off) c) = mid h.
Proof. reflexivity. Qed.

Lemma header_crc_with_hcrc h c : header_crc (with_hcrc h c) = header_crc h.
Proof. reflexivity. Qed.

(* ------------------------------------------------------------------------------------------------ *)
(* finalize / write_record                                                                          *)
(* ------------------------------------------------------------------------------------------------ *)

Lemma finalize_gen f o0 m c0 rest off (hlen : nat) :
  hlen = (length f + 24)%nat -> length o0 = 8%nat -> length m = 12%nat -> length c0 = 4%nat ->
  finalize (f ++ o0 ++ m ++ c0 ++ rest) hlen off =
  (f ++ le64 off ++ m ++ le32 (crc32c (f ++ le64 off ++ m ++ le32 0)) ++ rest,
   crc32c (f ++ le64 off ++ m ++ le32 0)).
Proof.
  intros -> Ho Hm Hc. unfold finalize. cbv zeta.
  replace (length f + 24 - 24)%nat with (length f) by lia.
  rewrite (patch_app f o0 (le64 off) (m ++ c0 ++ rest) (length f) eq_refl)
    by (rewrite Ho, le64_length; reflexivity).
  set (A := f ++ le64 off ++ m).
  assert (HA : length A = (length f + 24 - 4)%nat).
  { subst A. rewrite !app_length, le64_length, Hm. lia. }
  assert (E : forall x y, f ++ le64 off ++ m ++ x ++ y = A ++ x ++ y).
  { intros x y. subst A. rewrite <- !app_assoc. reflexivity. }
  assert (E' : forall x, f ++ le64 off ++ m ++ x = A ++ x).
  { intros x. subst A. rewrite <- !app_assoc. reflexivity. }
  rewrite !E, !E'.
  rewrite (patch_app A c0 (le32 0) rest _ HA) by (rewrite Hc, le32_length; reflexivity).
  rewrite (firstn_app_len2 A (le32 0) rest) by (rewrite HA, le32_length; lia).
  rewrite (patch_app A (le32 0) (le32 (crc32c (A ++ le32 0))) rest _ HA) by (rewrite !le32_length; reflexivity).
  reflexivity.
Qed.

Lemma finalize_encode h rest off :
  finalize (encode_header h ++ rest) (length (encode_header h)) off =
  (encode_header (with_hcrc (with_off h off) (header_crc (with_off h off))) ++ rest,
   header_crc (with_off h off)).
Proof.
  rewrite encode_header_length. unfold header_crc.
  set (c := crc32c (encode_header (with_hcrc (with_off h off) 0))).
  rewrite (encode_header_parts h), (encode_header_parts (with_hcrc (with_off h off) c)).
  subst c. rewrite (encode_header_parts (with_hcrc (with_off h off) 0)).
  rewrite !front_with, !mid_with.
  cbn [with_hcrc with_off h_off h_hcrc].
  rewrite <- !app_assoc.
  rewrite (finalize_gen (front h) (le64 (h_off h)) (mid h) (le32 (h_hcrc h)) rest off).
  - reflexivity.
  - rewrite front_length. lia.
  - apply le64_length.
  - apply mid_length.
  - apply le32_length.
Qed.

Lemma write_record_eq h meta data off :
  write_record h meta data off =
  (encode_header (with_hcrc (with_off h off) (header_crc (with_off h off))) ++ meta ++ data,
   with_hcrc (with_off h off) (header_crc (with_off h off))).
Proof.
  unfold write_record, partially_serialize. cbv zeta.
  destruct (N.of_nat (length (encode_header h ++ meta) + length data) <=? MAX_SINGLE_PASS_DATA_SIZE).
  - rewrite <- !app_assoc, finalize_encode, app_nil_r. reflexivity.
  - rewrite finalize_encode, <- !app_assoc. reflexivity.
Qed.

(* 1 *)
Theorem write_record_bytes : forall h meta data off,
  let h' := with_hcrc (with_off h off) (header_crc (with_off h off)) in
  write_record h meta data off = (encode_header h' ++ meta ++ data, h').
Proof. intros h meta data off h'. subst h'. apply write_record_eq. Qed.

(* ------------------------------------------------------------------------------------------------ *)
(* header codec round trip                                                                          *)
(* ------------------------------------------------------------------------------------------------ *)

Definition wf_header (h : header) : Prop :=
  h_magic h < 2^64 /\ N.of_nat (length (h_key h)) < 2^64 /\ h_msize h < 2^64 /\ h_dsize h < 2^64 /\
  h_flags h < 256 /\ h_off h < 2^64 /\ h_ts h < 2^64 /\ h_dcrc h < 2^32 /\ h_hcrc h < 2^32.

Lemma le64_val x : x < 2^64 -> le_val (le64 x) = x.
Proof. intros H. apply (le_val_bytes 8). exact H. Qed.
Lemma le32_val x : x < 2^32 -> le_val (le32 x) = x.
Proof. intros H. apply (le_val_bytes 4). exact H. Qed.

Ltac skip_fields :=
  unfold encode_header;
  rewrite !skipn_app_len by (first [apply le64_length | apply le32_length | reflexivity]);
  cbn [skipn].

(* 2 *)
Theorem decode_encode_header : forall h, wf_header h -> decode_header (encode_header h) = Some h.
Proof.
  intros h (Hm & Hk & Hms & Hds & Hf & Ho & Ht & Hdc & Hhc).
  pose proof (encode_header_length h) as HL.
  assert (F0 : firstn 8 (skipn 0 (encode_header h)) = le64 (h_magic h)).
  { cbn [skipn]. unfold encode_header. apply firstn_app_len, le64_length. }
  assert (F1 : firstn 8 (skipn 8 (encode_header h)) = le64 (N.of_nat (length (h_key h)))).
  { replace 8%nat with (8 + 0)%nat at 2 by lia. skip_fields. apply firstn_app_len, le64_length. }
  assert (F2 : firstn (length (h_key h)) (skipn 16 (encode_header h)) = h_key h).
  { replace 16%nat with (8 + (8 + 0))%nat by lia. skip_fields. apply firstn_app_len. reflexivity. }
  assert (F3 : firstn 8 (skipn (16 + length (h_key h)) (encode_header h)) = le64 (h_msize h)).
  { replace (16 + length (h_key h))%nat with (8 + (8 + (length (h_key h) + 0)))%nat by lia.
    skip_fields. apply firstn_app_len, le64_length. }
  assert (F4 : firstn 8 (skipn (24 + length (h_key h)) (encode_header h)) = le64 (h_dsize h)).
  { replace (24 + length (h_key h))%nat with (8 + (8 + (length (h_key h) + (8 + 0))))%nat by lia.
    skip_fields. apply firstn_app_len, le64_length. }
  assert (F5 : nth (32 + length (h_key h)) (encode_header h) 0 = h_flags h).
  { rewrite nth_skipn0.
    replace (32 + length (h_key h))%nat with (8 + (8 + (length (h_key h) + (8 + (8 + 0)))))%nat by lia.
    skip_fields. cbn [app nth]. apply N.mod_small. exact Hf. }
  assert (F6 : firstn 8 (skipn (33 + length (h_key h)) (encode_header h)) = le64 (h_off h)).
  { replace (33 + length (h_key h))%nat with (8 + (8 + (length (h_key h) + (8 + (8 + (1 + 0))))))%nat by lia.
    skip_fields. apply firstn_app_len, le64_length. }
  assert (F7 : firstn 8 (skipn (41 + length (h_key h)) (encode_header h)) = le64 (h_ts h)).
  { replace (41 + length (h_key h))%nat
      with (8 + (8 + (length (h_key h) + (8 + (8 + (1 + (8 + 0)))))))%nat by lia.
    skip_fields. apply firstn_app_len, le64_length. }
  assert (F8 : firstn 4 (skipn (49 + length (h_key h)) (encode_header h)) = le32 (h_dcrc h)).
  { replace (49 + length (h_key h))%nat
      with (8 + (8 + (length (h_key h) + (8 + (8 + (1 + (8 + (8 + 0))))))))%nat by lia.
    skip_fields. apply firstn_app_len, le32_length. }
  assert (F9 : firstn 4 (skipn (53 + length (h_key h)) (encode_header h)) = le32 (h_hcrc h)).
  { replace (53 + length (h_key h))%nat
      with (8 + (8 + (length (h_key h) + (8 + (8 + (1 + (8 + (8 + (4 + 0)))))))))%nat by lia.
    skip_fields. apply firstn_len, le32_length. }
  unfold decode_header. cbv beta zeta.
  rewrite F1, (le64_val _ Hk), Nat2N.id, HL.
  destruct (Nat.ltb_spec (57 + length (h_key h)) 16) as [Hlt|_]; [lia|].
  rewrite Nat.eqb_refl. cbn [negb].
  rewrite F0, F2, F3, F4, F5, F6, F7, F8, F9.
  rewrite !le64_val, !le32_val by assumption.
  destruct h; reflexivity.
Qed.

(* ------------------------------------------------------------------------------------------------ *)
(* reading a stored record                                                                          *)
(* ------------------------------------------------------------------------------------------------ *)

Lemma slice_mid (prefix enc body suffix : bytes) (off len : N) :
  off = N.of_nat (length prefix + length enc) -> len = N.of_nat (length body) ->
  slice (prefix ++ enc ++ body ++ suffix) off len = Some body.
Proof.
  intros -> ->. unfold slice.
  destruct (N.eqb_spec (N.of_nat (length body)) 0) as [Hz|Hnz].
  { destruct body; [reflexivity|cbn [length] in Hz; lia]. }
  destruct (N.leb_spec (N.of_nat (length prefix + length enc) + N.of_nat (length body))
                       (N.of_nat (length (prefix ++ enc ++ body ++ suffix)))) as [_|Hgt].
  - rewrite !Nat2N.id. f_equal.
    rewrite (app_assoc prefix enc). apply field_at; [apply app_length | reflexivity].
  - rewrite !app_length in Hgt. lia.
Qed.

Lemma entry_load_slice prefix suffix h' body :
  h_off h' = N.of_nat (length prefix) ->
  h_msize h' + h_dsize h' = N.of_nat (length body) ->
  slice (prefix ++ encode_header h' ++ body ++ suffix)
        (h_off h' + header_size (N.of_nat (length (h_key h')))) (h_msize h' + h_dsize h') = Some body.
Proof.
  intros Hoff Hsz. apply slice_mid; [|exact Hsz].
  rewrite Hoff, encode_header_length. unfold header_size. lia.
Qed.

Lemma entry_load_ok prefix suffix h' meta data :
  h_off h' = N.of_nat (length prefix) ->
  h_msize h' = N.of_nat (length meta) -> h_dsize h' = N.of_nat (length data) ->
  h_magic h' = RECORD_MAGIC_BYTE -> header_crc h' = h_hcrc h' -> h_dcrc h' = crc32c data ->
  entry_load (prefix ++ encode_header h' ++ meta ++ data ++ suffix) h' = ROk (meta, data).
Proof.
  intros Hoff Hms Hds Hmg Hhc Hdc. unfold entry_load.
  replace (prefix ++ encode_header h' ++ meta ++ data ++ suffix)
    with (prefix ++ encode_header h' ++ (meta ++ data) ++ suffix) by (rewrite <- !app_assoc; reflexivity).
  rewrite (entry_load_slice prefix suffix h' (meta ++ data) Hoff)
    by (rewrite Hms, Hds, app_length; lia).
  cbv beta iota zeta.
  unfold validate_header. rewrite Hmg, N.eqb_refl. cbn [negb].
  rewrite Hhc, N.eqb_refl. cbn [negb].
  rewrite Hms, Nat2N.id, skipn_app_exact, (firstn_app_len meta data _ eq_refl).
  rewrite Hdc, N.eqb_refl. reflexivity.
Qed.

(* 3 *)
Theorem entry_load_roundtrip : forall prefix suffix key ts meta data,
  let '(b, h') := write_record (new_header key ts meta data) meta data (N.of_nat (length prefix)) in
  entry_load (prefix ++ b ++ suffix) h' = ROk (meta, data).
Proof.
  intros prefix suffix key ts meta data. rewrite write_record_eq.
  set (h' := with_hcrc (with_off (new_header key ts meta data) (N.of_nat (length prefix)))
                       (header_crc (with_off (new_header key ts meta data) (N.of_nat (length prefix))))).
  replace ((encode_header h' ++ meta ++ data) ++ suffix)
    with (encode_header h' ++ meta ++ data ++ suffix) by (rewrite <- !app_assoc; reflexivity).
  apply entry_load_ok; reflexivity.
Qed.

(* 4 *)
Theorem altered_data_not_served : forall prefix suffix h' meta data data',
  length data' = length data -> crc32c data' <> crc32c data ->
  h_dcrc h' = crc32c data -> h_msize h' = N.of_nat (length meta) -> h_dsize h' = N.of_nat (length data) ->
  h_off h' = N.of_nat (length prefix) ->
  forall r, entry_load (prefix ++ encode_header h' ++ meta ++ data' ++ suffix) h' = r -> exists e, r = RFail e.
Proof.
  intros prefix suffix h' meta data data' Hlen Hne Hdc Hms Hds Hoff r <-. unfold entry_load.
  replace (prefix ++ encode_header h' ++ meta ++ data' ++ suffix)
    with (prefix ++ encode_header h' ++ (meta ++ data') ++ suffix) by (rewrite <- !app_assoc; reflexivity).
  rewrite (entry_load_slice prefix suffix h' (meta ++ data') Hoff)
    by (rewrite Hms, Hds, app_length; lia).
  cbv beta iota zeta.
  destruct (validate_header h') as [e|].
  - exists e. reflexivity.
  - rewrite Hms, Nat2N.id, skipn_app_exact, Hdc.
    apply N.eqb_neq in Hne. rewrite Hne. exists EDataCrc. reflexivity.
Qed.

(* ------------------------------------------------------------------------------------------------ *)
(* CRC bursts on bytes                                                                              *)
(* ------------------------------------------------------------------------------------------------ *)

Lemma byte_bits_length b : length (byte_bits b) = 8%nat.
Proof. reflexivity. Qed.

Lemma bits_of_app a b : bits_of (a ++ b) = bits_of a ++ bits_of b.
Proof. apply flat_map_app. Qed.

Lemma bits_of_cons x l : bits_of (x :: l) = byte_bits x ++ bits_of l.
Proof. reflexivity. Qed.

Lemma bits_of_length l : length (bits_of l) = (8 * length l)%nat.
Proof.
  induction l as [|x l IH]; [reflexivity|].
  rewrite bits_of_cons, app_length, byte_bits_length, IH. cbn [length]. lia.
Qed.

Lemma xorl_app a b c d : length a = length c -> xorl (a ++ b) (c ++ d) = xorl a c ++ xorl b d.
Proof.
  revert c; induction a as [|x a IH]; intros [|y c] Hl; try discriminate; [reflexivity|].
  cbn [app xorl]. f_equal. apply IH. cbn [length] in Hl. lia.
Qed.

Lemma xorl_false_r a : xorl a (repeat false (length a)) = a.
Proof.
  induction a as [|x a IH]; [reflexivity|]. cbn [length repeat xorl]. rewrite xorb_false_r, IH. reflexivity.
Qed.

Lemma xorl_cancel a b : length a = length b -> xorl a (xorl a b) = b.
Proof.
  revert b; induction a as [|x a IH]; intros [|y b] Hl; try discriminate; [reflexivity|].
  cbn [xorl]. f_equal; [destruct x, y; reflexivity | apply IH; cbn [length] in Hl; lia].
Qed.

Lemma xorl_length a b : length a = length b -> length (xorl a b) = length a.
Proof.
  revert b; induction a as [|x a IH]; intros [|y b] Hl; try discriminate; [reflexivity|].
  cbn [xorl length]. f_equal. apply IH. cbn [length] in Hl. lia.
Qed.

Lemma xorl_allfalse a b : length a = length b -> existsb (fun x => x) (xorl a b) = false -> a = b.
Proof.
  revert b; induction a as [|x a IH]; intros [|y b] Hl E; try discriminate; [reflexivity|].
  cbn [xorl existsb] in E. apply orb_false_iff in E. destruct E as [Exy E].
  f_equal; [destruct x, y; try reflexivity; discriminate | apply IH; [cbn [length] in Hl; lia | exact E]].
Qed.

Lemma byte_bits_inj x y : x < 256 -> y < 256 -> byte_bits x = byte_bits y -> x = y.
Proof.
  intros Hx Hy E. unfold byte_bits in E. cbn [seq map] in E.
  injection E as E0 E1 E2 E3 E4 E5 E6 E7.
  apply N.bits_inj. intros n.
  destruct (N.lt_ge_cases n 8) as [Hn|Hn].
  - assert (C : n = 0 \/ n = 1 \/ n = 2 \/ n = 3 \/ n = 4 \/ n = 5 \/ n = 6 \/ n = 7) by lia.
    destruct C as [->|[->|[->|[->|[->|[->|[->| ->]]]]]]];
      [exact E0|exact E1|exact E2|exact E3|exact E4|exact E5|exact E6|exact E7].
  - pose proof (proj1 (lt_pow2_testbit x 8) Hx n Hn) as Bx.
    pose proof (proj1 (lt_pow2_testbit y 8) Hy n Hn) as By.
    rewrite Bx, By. reflexivity.
Qed.

Lemma bits_of_inj w w' :
  wf_bytes w -> wf_bytes w' -> length w = length w' -> bits_of w = bits_of w' -> w = w'.
Proof.
  intros Hw; revert w'. induction Hw as [|x w Hx Hw IH]; intros [|y w'] Hw' Hl E; try discriminate; [reflexivity|].
  inversion Hw' as [|y' w'' Hy Hw'']; subst.
  rewrite !bits_of_cons in E. apply app_inv_len in E; [|reflexivity]. destruct E as [Exy E].
  f_equal; [apply byte_bits_inj; assumption | apply IH; [assumption | cbn [length] in Hl; lia | exact E]].
Qed.

(* 5 *)
Theorem crc32c_detects_4_bytes : forall p w w' s,
  wf_bytes w -> wf_bytes w' -> length w = length w' -> (length w <= 4)%nat -> w <> w' ->
  crc32c (p ++ w ++ s) <> crc32c (p ++ w' ++ s).
Proof.
  intros p w w' s Hw Hw' Hl H4 Hne.
  rewrite !crc32c_bits, !bits_of_app.
  assert (Hbl : length (bits_of w) = length (bits_of w')) by (rewrite !bits_of_length; lia).
  set (b := xorl (bits_of w) (bits_of w')).
  set (d := bits_of p ++ bits_of w ++ bits_of s).
  assert (Hd : bits_of p ++ bits_of w' ++ bits_of s =
               xorl d (repeat false (length (bits_of p)) ++ b ++ repeat false (length (bits_of s)))).
  { subst d b. rewrite xorl_app by (rewrite repeat_length; reflexivity).
    rewrite xorl_app by (rewrite xorl_length by exact Hbl; reflexivity).
    rewrite !xorl_false_r, xorl_cancel by exact Hbl. reflexivity. }
  rewrite Hd. intros Heq. symmetry in Heq. revert Heq.
  apply crc_detects_burst.
  - subst d b. rewrite !app_length, xorl_length by exact Hbl. lia.
  - subst b. rewrite xorl_length by exact Hbl. rewrite bits_of_length. lia.
  - destruct (existsb (fun x => x) b) eqn:E; [reflexivity|]. exfalso. apply Hne.
    apply bits_of_inj; try assumption. apply xorl_allfalse; assumption.
Qed.

(* 6 *)
Theorem crc32c_detects_burst32 : forall d d' i j b,
  bits_of d' = xorl (bits_of d) (repeat false i ++ b ++ repeat false j) ->
  length (bits_of d) = (i + length b + j)%nat -> (length b <= 32)%nat -> existsb (fun x => x) b = true ->
  crc32c d' <> crc32c d.
Proof.
  intros d d' i j b Hd' Hlen Hb Hex. rewrite !crc32c_bits, Hd'.
  apply crc_detects_burst; assumption.
Qed.

Print Assumptions write_record_bytes.
Print Assumptions decode_encode_header.
Print Assumptions entry_load_roundtrip.
Print Assumptions altered_data_not_served.
Print Assumptions crc32c_detects_4_bytes.
Print Assumptions crc32c_detects_burst32.
