(* The encoder of the metadata map is inverted by the decoder; what the two acceptance predicates (`meta_decodes`:
   bincode::deserialize, `meta_ok`: the offline tools) say about trailing bytes; and computed examples of damage that is
   and is not noticed (no checksum covers the metadata). *)
Require Import Pearl.Base.Prelude Pearl.Base.LE Pearl.Base.LEProofs Pearl.Format.Meta.

(* the lengths written as u64 fit a u64 (always so on a real machine; `nat` is unbounded) *)
Definition entry_fits (e : bytes * bytes) : Prop :=
  N.of_nat (length (fst e)) < 2^64 /\ N.of_nat (length (snd e)) < 2^64.

Lemma firstn_app_len {A} (l1 l2 : list A) n : length l1 = n -> firstn n (l1 ++ l2) = l1.
Proof.
  intros Hn. subst n. induction l1 as [|x r IH]; cbn [length firstn app]; [reflexivity|]. now rewrite IH.
Qed.

Lemma skipn_app_len {A} (l1 l2 : list A) n : length l1 = n -> skipn n (l1 ++ l2) = l2.
Proof.
  intros Hn. subst n. induction l1 as [|x r IH]; cbn [length skipn app]; [reflexivity|]. exact IH.
Qed.

Lemma le64_length w : length (le64 w) = 8%nat.
Proof. unfold le64. apply le_bytes_length. Qed.

Lemma take_u64_le64 w r : w < 2^64 -> take_u64 (le64 w ++ r) = Some (w, r).
Proof.
  intros Hw. unfold take_u64.
  assert (Hlen : (length (le64 w ++ r) <? 8)%nat = false).
  { apply Nat.ltb_ge. rewrite app_length, le64_length. lia. }
  rewrite Hlen.
  rewrite (firstn_app_len (le64 w) r 8 (le64_length w)).
  rewrite (skipn_app_len (le64 w) r 8 (le64_length w)).
  unfold le64. rewrite le_val_bytes; [reflexivity|].
  replace (8 * N.of_nat 8) with 64 by reflexivity. exact Hw.
Qed.

Lemma take_bytes_app k r : take_bytes (N.of_nat (length k)) (k ++ r) = Some (k, r).
Proof.
  unfold take_bytes.
  assert (Hlen : N.of_nat (length (k ++ r)) <? N.of_nat (length k) = false).
  { apply N.ltb_ge. rewrite app_length. lia. }
  rewrite Hlen. rewrite Nat2N.id.
  rewrite (firstn_app_len k r (length k) eq_refl).
  rewrite (skipn_app_len k r (length k) eq_refl).
  reflexivity.
Qed.

Lemma encode_entry_length e : (16 <= length (encode_entry e))%nat.
Proof.
  unfold encode_entry. rewrite !app_length, !le64_length. lia.
Qed.

Lemma flat_map_encode_length es : (length es <= length (flat_map encode_entry es))%nat.
Proof.
  induction es as [|e r IH]; cbn [flat_map length]; [lia|].
  rewrite app_length. pose proof (encode_entry_length e) as He. lia.
Qed.

Lemma parse_entries_encode es :
  forall fuel acc rest,
    (length es <= fuel)%nat ->
    Forall (fun e => is_utf8 (fst e) = true) es ->
    Forall entry_fits es ->
    parse_entries fuel (N.of_nat (length es)) (flat_map encode_entry es ++ rest) acc = Some (rev acc ++ es, rest).
Proof.
  induction es as [|e r IH]; intros fuel acc rest Hfuel Hutf Hfit.
  - cbn [length flat_map app]. change (N.of_nat 0) with 0.
    rewrite app_nil_r.
    destruct fuel as [|f]; cbn [parse_entries]; rewrite N.eqb_refl; reflexivity.
  - cbn [length] in Hfuel. destruct fuel as [|f]; [lia|].
    inversion Hutf as [|e0 r0 Hk Hutf']; subst e0 r0.
    inversion Hfit as [|e0 r0 Hfe Hfit']; subst e0 r0.
    destruct Hfe as [Hkl Hvl].
    destruct e as [k v]. cbn [fst snd] in Hk, Hkl, Hvl.
    cbn [parse_entries length flat_map].
    assert (Hnz : N.of_nat (S (length r)) =? 0 = false) by (apply N.eqb_neq; lia).
    rewrite Hnz.
    unfold encode_entry at 1. cbn [fst snd].
    rewrite <- !app_assoc.
    rewrite (take_u64_le64 _ _ Hkl).
    rewrite take_bytes_app.
    rewrite Hk. cbn [negb].
    rewrite (take_u64_le64 _ _ Hvl).
    rewrite take_bytes_app.
    replace (N.of_nat (S (length r)) - 1) with (N.of_nat (length r)) by lia.
    rewrite (IH f ((k, v) :: acc) rest); [|lia|exact Hutf'|exact Hfit'].
    cbn [rev]. rewrite <- app_assoc. reflexivity.
Qed.

Theorem meta_parse_encode : forall es rest,
  N.of_nat (length es) < 2^64 ->
  Forall (fun e => N.of_nat (length (fst e)) < 2^64 /\ N.of_nat (length (snd e)) < 2^64) es ->
  Forall (fun e => is_utf8 (fst e) = true) es ->
  meta_parse (encode_meta es ++ rest) = Some (es, rest).
Proof.
  intros es rest Hcount Hfit Hutf.
  unfold meta_parse, encode_meta.
  rewrite <- app_assoc.
  rewrite (take_u64_le64 _ _ Hcount).
  rewrite parse_entries_encode; [reflexivity| |exact Hutf|exact Hfit].
  rewrite !app_length. pose proof (flat_map_encode_length es) as Hl. lia.
Qed.

Corollary meta_decodes_encode : forall es,
  N.of_nat (length es) < 2^64 ->
  Forall (fun e => N.of_nat (length (fst e)) < 2^64 /\ N.of_nat (length (snd e)) < 2^64) es ->
  Forall (fun e => is_utf8 (fst e) = true) es ->
  meta_decodes (encode_meta es) = true.
Proof.
  intros es Hcount Hfit Hutf. unfold meta_decodes.
  rewrite <- (app_nil_r (encode_meta es)).
  rewrite (meta_parse_encode es [] Hcount Hfit Hutf). reflexivity.
Qed.

Corollary meta_ok_encode : forall es,
  N.of_nat (length es) < 2^64 ->
  Forall (fun e => N.of_nat (length (fst e)) < 2^64 /\ N.of_nat (length (snd e)) < 2^64) es ->
  Forall (fun e => is_utf8 (fst e) = true) es ->
  keys_distinct (map fst es) = true ->
  meta_ok (encode_meta es) = true.
Proof.
  intros es Hcount Hfit Hutf Hdist. unfold meta_ok.
  rewrite <- (app_nil_r (encode_meta es)).
  rewrite (meta_parse_encode es [] Hcount Hfit Hutf). exact Hdist.
Qed.

(* without distinct keys the tools refuse the image: `meta_ok` of an encoding is exactly `keys_distinct` *)
Corollary meta_ok_encode_iff : forall es,
  N.of_nat (length es) < 2^64 ->
  Forall (fun e => N.of_nat (length (fst e)) < 2^64 /\ N.of_nat (length (snd e)) < 2^64) es ->
  Forall (fun e => is_utf8 (fst e) = true) es ->
  meta_ok (encode_meta es) = keys_distinct (map fst es).
Proof.
  intros es Hcount Hfit Hutf. unfold meta_ok.
  rewrite <- (app_nil_r (encode_meta es)).
  rewrite (meta_parse_encode es [] Hcount Hfit Hutf). reflexivity.
Qed.

Theorem meta_ok_no_trailing : forall es x rest,
  N.of_nat (length es) < 2^64 ->
  Forall (fun e => N.of_nat (length (fst e)) < 2^64 /\ N.of_nat (length (snd e)) < 2^64) es ->
  Forall (fun e => is_utf8 (fst e) = true) es ->
  meta_ok (encode_meta es ++ x :: rest) = false.
Proof.
  intros es x rest Hcount Hfit Hutf. unfold meta_ok.
  rewrite (meta_parse_encode es (x :: rest) Hcount Hfit Hutf). reflexivity.
Qed.

Theorem meta_decodes_ignores_trailing : forall es x rest,
  N.of_nat (length es) < 2^64 ->
  Forall (fun e => N.of_nat (length (fst e)) < 2^64 /\ N.of_nat (length (snd e)) < 2^64) es ->
  Forall (fun e => is_utf8 (fst e) = true) es ->
  meta_decodes (encode_meta es ++ x :: rest) = true.
Proof.
  intros es x rest Hcount Hfit Hutf. unfold meta_decodes.
  rewrite (meta_parse_encode es (x :: rest) Hcount Hfit Hutf). reflexivity.
Qed.

(* ---- computed examples: the map {"v": "1"} ---- *)
Definition m1 : bytes := encode_meta [([118], [49])].

Example m1_bytes : m1 = [1;0;0;0;0;0;0;0; 1;0;0;0;0;0;0;0; 118; 1;0;0;0;0;0;0;0; 49].
Proof. vm_compute; reflexivity. Qed.

Example m1_ok : meta_ok m1 = true /\ length m1 = 26%nat.
Proof. vm_compute. split; reflexivity. Qed.

(* one content byte flipped (the value byte, index 25: 49 -> 113, xor 0x40): a different image of the same length, accepted *)
Example content_flip_is_accepted :
  let m1' := updN m1 25 (fun x => N.lxor x 64) in
  m1' = [1;0;0;0;0;0;0;0; 1;0;0;0;0;0;0;0; 118; 1;0;0;0;0;0;0;0; 113] /\
  m1' <> m1 /\ length m1' = length m1 /\ meta_ok m1' = true /\ meta_parse m1' = Some ([([118], [113])], []).
Proof.
  vm_compute. repeat split; try reflexivity. intros Heq. discriminate Heq.
Qed.

(* the value length prefix (index 17) set from 1 to 0: bincode decodes it (one byte left over), the tools refuse it *)
Example length_shrink_decodes_but_is_rejected :
  let m1s := updN m1 17 (fun _ => 0) in
  m1s = [1;0;0;0;0;0;0;0; 1;0;0;0;0;0;0;0; 118; 0;0;0;0;0;0;0;0; 49] /\
  meta_parse m1s = Some ([([118], [])], [49]) /\ meta_decodes m1s = true /\ meta_ok m1s = false.
Proof. vm_compute. repeat split; reflexivity. Qed.

(* the key byte 118 replaced by 246 (not the start of any UTF-8 sequence): not a String, does not decode *)
Example bad_utf8_rejected :
  let m1u := updN m1 16 (fun _ => 246) in
  m1u = [1;0;0;0;0;0;0;0; 1;0;0;0;0;0;0;0; 246; 1;0;0;0;0;0;0;0; 49] /\
  meta_decodes m1u = false /\ meta_ok m1u = false.
Proof. vm_compute. repeat split; reflexivity. Qed.

Example repeated_key_rejected :
  meta_decodes (encode_meta [([118], [49]); ([118], [50])]) = true /\
  meta_ok (encode_meta [([118], [49]); ([118], [50])]) = false.
Proof. vm_compute. split; reflexivity. Qed.


Print Assumptions meta_parse_encode.
Print Assumptions meta_decodes_encode.
Print Assumptions meta_ok_encode.
Print Assumptions meta_ok_encode_iff.
Print Assumptions meta_ok_no_trailing.
Print Assumptions meta_decodes_ignores_trailing.
Print Assumptions content_flip_is_accepted.
Print Assumptions length_shrink_decodes_but_is_rejected.
