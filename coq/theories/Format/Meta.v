(* The metadata map of a record on disk: bincode (fixed-width integers, little endian) image of
   HashMap<String, Vec<u8>> (src/record/record.rs Meta): u64 count, then per entry u64 key length, key bytes
   (a String: must be valid UTF-8), u64 value length, value bytes. The metadata is covered by no checksum.
   `meta_parse` is what bincode::deserialize does (trailing bytes are ignored); `meta_ok` is what the offline tools
   accept since the code commit "the tools reader rejects metadata that does not take exactly its bytes": the map
   decodes, takes exactly its bytes and re-serialises to the same length (no repeated key). *)
Require Import Pearl.Base.Prelude Pearl.Base.LE.

Definition take_u64 (b : bytes) : option (N * bytes) :=
  if (length b <? 8)%nat then None else Some (le_val (firstn 8 b), skipn 8 b).
Definition take_bytes (n : N) (b : bytes) : option (bytes * bytes) :=
  if N.of_nat (length b) <? n then None else Some (firstn (N.to_nat n) b, skipn (N.to_nat n) b).

(* strict UTF-8 (what String::from_utf8 accepts): no overlong forms, no surrogates, nothing above U+10FFFF *)
Definition cont (x : N) : bool := (128 <=? x) && (x <=? 191).
Fixpoint utf8_ok (fuel : nat) (b : bytes) : bool :=
  match fuel with
  | O => match b with [] => true | _ => false end
  | S f =>
    match b with
    | [] => true
    | x :: r =>
      if x <=? 127 then utf8_ok f r
      else if (194 <=? x) && (x <=? 223) then
        match r with c1 :: r' => cont c1 && utf8_ok f r' | _ => false end
      else if x =? 224 then
        match r with c1 :: c2 :: r' => (160 <=? c1) && (c1 <=? 191) && cont c2 && utf8_ok f r' | _ => false end
      else if ((225 <=? x) && (x <=? 236)) || (x =? 238) || (x =? 239) then
        match r with c1 :: c2 :: r' => cont c1 && cont c2 && utf8_ok f r' | _ => false end
      else if x =? 237 then
        match r with c1 :: c2 :: r' => (128 <=? c1) && (c1 <=? 159) && cont c2 && utf8_ok f r' | _ => false end
      else if x =? 240 then
        match r with c1 :: c2 :: c3 :: r' => (144 <=? c1) && (c1 <=? 191) && cont c2 && cont c3 && utf8_ok f r' | _ => false end
      else if (241 <=? x) && (x <=? 243) then
        match r with c1 :: c2 :: c3 :: r' => cont c1 && cont c2 && cont c3 && utf8_ok f r' | _ => false end
      else if x =? 244 then
        match r with c1 :: c2 :: c3 :: r' => (128 <=? c1) && (c1 <=? 143) && cont c2 && cont c3 && utf8_ok f r' | _ => false end
      else false
    end
  end.
Definition is_utf8 (b : bytes) : bool := utf8_ok (length b) b.

(* `count` entries from `b`; every entry takes at least 16 bytes, so the length of the input is enough fuel *)
Fixpoint parse_entries (fuel : nat) (count : N) (b : bytes) (acc : list (bytes * bytes)) : option (list (bytes * bytes) * bytes) :=
  if count =? 0 then Some (rev acc, b) else
  match fuel with
  | O => None
  | S f =>
    match take_u64 b with
    | None => None
    | Some (kl, b1) =>
      match take_bytes kl b1 with
      | None => None
      | Some (k, b2) =>
        if negb (is_utf8 k) then None else
        match take_u64 b2 with
        | None => None
        | Some (vl, b3) =>
          match take_bytes vl b3 with
          | None => None
          | Some (v, b4) => parse_entries f (count - 1) b4 ((k, v) :: acc)
          end
        end
      end
    end
  end.

Definition meta_parse (b : bytes) : option (list (bytes * bytes) * bytes) :=
  match take_u64 b with
  | None => None
  | Some (count, b1) => parse_entries (S (length b)) count b1 []
  end.

Definition bytes_eqb (a b : bytes) : bool := (length a =? length b)%nat && forallb (fun p => fst p =? snd p) (combine a b).
Fixpoint keys_distinct (ks : list bytes) : bool :=
  match ks with
  | [] => true
  | k :: r => negb (existsb (bytes_eqb k) r) && keys_distinct r
  end.

(* bincode::deserialize succeeds (what the storage's own read path and the tools before the repair asked for) *)
Definition meta_decodes (b : bytes) : bool := match meta_parse b with Some _ => true | None => false end.
(* the offline tools: decodes, nothing left over, and the decoded map serialises to the same number of bytes *)
Definition meta_ok (b : bytes) : bool :=
  match meta_parse b with
  | Some (es, []) => keys_distinct (map fst es)
  | _ => false
  end.

Definition encode_entry (e : bytes * bytes) : bytes :=
  le64 (N.of_nat (length (fst e))) ++ fst e ++ le64 (N.of_nat (length (snd e))) ++ snd e.
Definition encode_meta (es : list (bytes * bytes)) : bytes :=
  le64 (N.of_nat (length es)) ++ flat_map encode_entry es.
