(* L4 proofs: the meaning of the trace predicates of Trace.v (what an accepted trace guarantees),
   and the blob/index protocol of the model satisfies them for every number of records. *)
Require Import Pearl.Base.Prelude Pearl.Storage.Model Pearl.Storage.Spec Pearl.Io.Trace.
Require Import Pearl.Storage.Inv Pearl.Storage.InvProofs Pearl.Storage.NoHarmProofs.

(* the trace the model predicts for a whole history *)
Fixpoint run_trace (K : N) (cfg : config) (s : storage) (ops : list op) : list ev :=
  match ops with
  | [] => []
  | o :: r => let s' := fst (step_q K cfg s o) in step_evs K cfg s s' o ++ run_trace K cfg s' r
  end.

(* ---------- generic facts on judge_from / run_evs ---------- *)
Lemma run_evs_app st a b : run_evs st (a ++ b) = run_evs (run_evs st a) b.
Proof. unfold run_evs. apply fold_left_app. Qed.

Lemma run_evs_cons st e r : run_evs st (e :: r) = run_evs (apply_ev st e) r.
Proof. reflexivity. Qed.

Lemma judge_from_app p a : forall st b,
  judge_from p st (a ++ b) = judge_from p st a && judge_from p (run_evs st a) b.
Proof.
  induction a as [|e a IH]; intros st b; cbn [app judge_from]; [reflexivity|].
  rewrite IH, run_evs_cons, andb_assoc. reflexivity.
Qed.

Lemma judge_from_at p a e b st :
  judge_from p st (a ++ e :: b) = true -> p (run_evs st a) e = true.
Proof.
  rewrite judge_from_app. cbn [judge_from]. intros H.
  apply andb_true_iff in H as [_ H]. apply andb_true_iff in H as [H _]. exact H.
Qed.

(* ---------- Part A: the meaning of the predicates ---------- *)
Theorem harmless_meaning_from : forall st tr1 tr2 i off len,
  judge_from ev_harmless st (tr1 ++ EvAppend (FBlob, i) off len :: tr2) = true ->
  match fget (run_evs st tr1) (FBlob, i) with Some (sz, _) => off = sz | None => True end.
Proof.
  intros st tr1 tr2 i off len H. apply judge_from_at in H. cbn [ev_harmless] in H.
  destruct (fget (run_evs st tr1) (FBlob, i)) as [[sz sy]|]; [|exact I].
  apply N.eqb_eq; exact H.
Qed.

Theorem harmless_meaning : forall tr1 tr2 i off len,
  judge_from ev_harmless [] (tr1 ++ EvAppend (FBlob, i) off len :: tr2) = true ->
  match fget (run_evs [] tr1) (FBlob, i) with Some (sz, _) => off = sz | None => True end.
Proof. intros; eapply harmless_meaning_from; eauto. Qed.

Theorem harmless_no_positional_from : forall st tr1 tr2 i off len,
  judge_from ev_harmless st (tr1 ++ EvWriteAt (FBlob, i) off len :: tr2) = false.
Proof.
  intros st tr1 tr2 i off len.
  destruct (judge_from ev_harmless st (tr1 ++ EvWriteAt (FBlob, i) off len :: tr2)) eqn:H; [|reflexivity].
  apply judge_from_at in H. cbn in H. discriminate.
Qed.

Theorem harmless_no_positional : forall tr1 tr2 i off len,
  judge_from ev_harmless [] (tr1 ++ EvWriteAt (FBlob, i) off len :: tr2) = false.
Proof. intros; apply harmless_no_positional_from. Qed.

Theorem harmless_no_recreate_from : forall st tr1 tr2 i,
  judge_from ev_harmless st (tr1 ++ EvCreate (FBlob, i) :: tr2) = true -> fget (run_evs st tr1) (FBlob, i) = None.
Proof.
  intros st tr1 tr2 i H. apply judge_from_at in H. cbn [ev_harmless] in H.
  destruct (fget (run_evs st tr1) (FBlob, i)); [discriminate|reflexivity].
Qed.

Theorem harmless_no_recreate : forall tr1 tr2 i,
  judge_from ev_harmless [] (tr1 ++ EvCreate (FBlob, i) :: tr2) = true -> fget (run_evs [] tr1) (FBlob, i) = None.
Proof. intros; eapply harmless_no_recreate_from; eauto. Qed.

Theorem header_synced_meaning_from : forall st tr1 tr2 i off len,
  judge_from ev_header_synced st (tr1 ++ EvAppend (FBlob, i) off len :: tr2) = true -> off <> 0 ->
  match fget (run_evs st tr1) (FBlob, i) with Some (_, sy) => 20 <= sy | None => True end.
Proof.
  intros st tr1 tr2 i off len H Hoff. apply judge_from_at in H. cbn [ev_header_synced] in H.
  destruct (off =? 0) eqn:E; [apply N.eqb_eq in E; contradiction|].
  destruct (fget (run_evs st tr1) (FBlob, i)) as [[sz sy]|]; [|exact I].
  apply N.leb_le; exact H.
Qed.

Theorem header_synced_meaning : forall tr1 tr2 i off len,
  judge_from ev_header_synced [] (tr1 ++ EvAppend (FBlob, i) off len :: tr2) = true -> off <> 0 ->
  match fget (run_evs [] tr1) (FBlob, i) with Some (_, sy) => 20 <= sy | None => True end.
Proof. intros; eapply header_synced_meaning_from; eauto. Qed.

Theorem index_after_sync_meaning_from : forall st tr1 tr2 i len,
  judge_from ev_index_after_sync st (tr1 ++ EvWriteAt (FIndex, i) 0 len :: tr2) = true ->
  match fget (run_evs st tr1) (FBlob, i) with Some (sz, sy) => sz = sy | None => True end.
Proof.
  intros st tr1 tr2 i len H. apply judge_from_at in H. cbn [ev_index_after_sync] in H.
  destruct (fget (run_evs st tr1) (FBlob, i)) as [[sz sy]|]; [|exact I].
  apply N.eqb_eq; exact H.
Qed.

Theorem index_after_sync_meaning : forall tr1 tr2 i len,
  judge_from ev_index_after_sync [] (tr1 ++ EvWriteAt (FIndex, i) 0 len :: tr2) = true ->
  match fget (run_evs [] tr1) (FBlob, i) with Some (sz, sy) => sz = sy | None => True end.
Proof. intros; eapply index_after_sync_meaning_from; eauto. Qed.

(* ---------- the file-state map ---------- *)
Lemma fid_eqb_refl f : fid_eqb f f = true.
Proof. destruct f as [[|] n]; unfold fid_eqb; cbn [fst snd andb]; apply N.eqb_refl. Qed.

Lemma fid_eqb_eq f g : fid_eqb f g = true <-> f = g.
Proof.
  destruct f as [[|] n], g as [[|] m]; unfold fid_eqb; cbn [fst snd andb]; split; intros H;
    try discriminate; try (apply N.eqb_eq in H; subst; reflexivity);
    try (inversion H; subst; apply N.eqb_refl).
Qed.

Lemma fid_eqb_neq f g : fid_eqb f g = false <-> f <> g.
Proof.
  split.
  - intros H E. apply fid_eqb_eq in E. congruence.
  - intros H. destruct (fid_eqb f g) eqn:E; [apply fid_eqb_eq in E; contradiction|reflexivity].
Qed.

Lemma fid_eqb_sym f g : fid_eqb f g = fid_eqb g f.
Proof.
  destruct (fid_eqb g f) eqn:E.
  - apply fid_eqb_eq in E. subst. apply fid_eqb_refl.
  - apply fid_eqb_neq in E. apply fid_eqb_neq. congruence.
Qed.

Lemma fget_fset_same st f v : fget (fset st f v) f = Some v.
Proof.
  induction st as [|[g w] r IH]; cbn [fset fget].
  - rewrite fid_eqb_refl. reflexivity.
  - destruct (fid_eqb g f) eqn:E; cbn [fget]; rewrite E; auto.
Qed.

Lemma fget_fset_other st f g v : fid_eqb f g = false -> fget (fset st f v) g = fget st g.
Proof.
  intros H. induction st as [|[h w] r IH]; cbn [fset fget].
  - rewrite H. reflexivity.
  - destruct (fid_eqb h f) eqn:E; cbn [fget].
    + apply fid_eqb_eq in E. subst h. rewrite H. reflexivity.
    + destruct (fid_eqb h g); auto.
Qed.

Lemma fget_fset st f g v : fget (fset st f v) g = if fid_eqb f g then Some v else fget st g.
Proof.
  destruct (fid_eqb f g) eqn:E.
  - apply fid_eqb_eq in E. subst. apply fget_fset_same.
  - apply fget_fset_other; assumption.
Qed.

Lemma blob_index_neq i j : fid_eqb (FBlob, i) (FIndex, j) = false.
Proof. reflexivity. Qed.
Lemma index_blob_neq i j : fid_eqb (FIndex, i) (FBlob, j) = false.
Proof. reflexivity. Qed.

(* an event on file f leaves every other file alone *)
Definition ev_file (e : ev) : fid :=
  match e with EvCreate f | EvOpen f | EvAppend f _ _ | EvWriteAt f _ _ | EvSync f => f end.

Lemma apply_ev_other st e g : fid_eqb (ev_file e) g = false -> fget (apply_ev st e) g = fget st g.
Proof.
  intros H. destruct e as [f|f|f off len|f off len|f]; cbn [apply_ev ev_file] in *; auto.
  - apply fget_fset_other; assumption.
  - destruct (fget st f) as [[sz sy]|]; apply fget_fset_other; assumption.
  - destruct (fget st f) as [[sz sy]|]; [apply fget_fset_other; assumption|reflexivity].
Qed.

Lemma run_evs_other tr g : forall st,
  (forall e, In e tr -> fid_eqb (ev_file e) g = false) -> fget (run_evs st tr) g = fget st g.
Proof.
  induction tr as [|e r IH]; intros st H; [reflexivity|].
  rewrite run_evs_cons, IH by (intros; apply H; right; assumption).
  apply apply_ev_other, H. left; reflexivity.
Qed.

(* ---------- Part B: the protocol of one blob ---------- *)
Definition ev_all (st : fstate) (e : ev) : bool :=
  ev_harmless st e && ev_header_synced st e && ev_index_after_sync st e.

Lemma judge_from_all st tr :
  judge_from ev_all st tr =
  judge_from ev_harmless st tr && judge_from ev_header_synced st tr && judge_from ev_index_after_sync st tr.
Proof.
  revert st; induction tr as [|e r IH]; intros st; cbn [judge_from]; [reflexivity|].
  rewrite IH. unfold ev_all.
  destruct (ev_harmless st e), (ev_header_synced st e), (ev_index_after_sync st e),
    (judge_from ev_harmless (apply_ev st e) r), (judge_from ev_header_synced (apply_ev st e) r); reflexivity.
Qed.

Lemma judge_all tr : judge tr = judge_from ev_all [] tr.
Proof. unfold judge. rewrite judge_from_all. reflexivity. Qed.

Section K.
Variable K : N.

Definition recs_size (rs : list rec) : N := fold_left (fun a r => a + rec_size K r) rs 0.

Lemma fold_size_shift rs : forall a, fold_left (fun a r => a + rec_size K r) rs a = a + recs_size rs.
Proof.
  unfold recs_size. induction rs as [|r t IH]; intros a; cbn [fold_left]; [lia|].
  rewrite IH, (IH (0 + _)). lia.
Qed.

Lemma recs_size_cons r t : recs_size (r :: t) = rec_size K r + recs_size t.
Proof. unfold recs_size at 1. cbn [fold_left]. rewrite fold_size_shift. lia. Qed.

Lemma recs_size_app a b : recs_size (a ++ b) = recs_size a + recs_size b.
Proof. unfold recs_size at 1. rewrite fold_left_app, fold_size_shift. reflexivity. Qed.

Lemma blob_size_recs b : blob_size K b = 20 + recs_size (b_recs b).
Proof. unfold blob_size, BLOB_HEADER_SIZE. apply fold_size_shift. Qed.

Lemma appends_from_file id rs : forall off e, In e (appends_from K id off rs) -> ev_file e = (FBlob, id).
Proof.
  induction rs as [|r t IH]; intros off e H; cbn [appends_from] in H; [contradiction|].
  destruct H as [<-|H]; [reflexivity|eauto].
Qed.

(* the invariant along the appends: offsets follow the file size, the synced length is untouched *)
Lemma appends_from_inv id rs : forall st sz sy,
  fget st (FBlob, id) = Some (sz, sy) -> 20 <= sy ->
  judge_from ev_all st (appends_from K id sz rs) = true /\
  fget (run_evs st (appends_from K id sz rs)) (FBlob, id) = Some (sz + recs_size rs, sy).
Proof.
  induction rs as [|r t IH]; intros st sz sy Hg Hsy; cbn [appends_from judge_from].
  - split; [reflexivity|]. unfold recs_size; cbn [fold_left run_evs]. rewrite N.add_0_r. exact Hg.
  - rewrite run_evs_cons, recs_size_cons.
    assert (Hst : fget (apply_ev st (EvAppend (FBlob, id) sz (rec_size K r))) (FBlob, id)
                  = Some (sz + rec_size K r, sy)).
    { cbn [apply_ev]. rewrite Hg, fget_fset_same. f_equal. f_equal. lia. }
    destruct (IH _ _ _ Hst Hsy) as [HJ HF]. rewrite HJ, HF. split.
    + unfold ev_all. cbn [ev_harmless ev_header_synced ev_index_after_sync]. rewrite Hg, N.eqb_refl.
      destruct (sz =? 0); cbn [andb]; [reflexivity|]. rewrite !andb_true_r. apply N.leb_le; exact Hsy.
    + f_equal. f_equal. lia.
Qed.

Lemma open_new_inv id st : fget st (FBlob, id) = None ->
  judge_from ev_all st (open_new_evs id) = true /\
  fget (run_evs st (open_new_evs id)) (FBlob, id) = Some (20, 20).
Proof.
  intros Hg. unfold open_new_evs. cbn [judge_from run_evs fold_left].
  unfold ev_all. cbn [ev_harmless ev_header_synced ev_index_after_sync apply_ev].
  rewrite Hg. cbn [andb]. do 4 (rewrite ?fget_fset_same; cbn [andb]).
  change (0 + 20) with 20. change (N.max 0 20) with 20. change (0 =? 0) with true. cbn [andb].
  rewrite ?fget_fset_same. split; reflexivity.
Qed.

Lemma dump_inv id st sz sy : fget st (FBlob, id) = Some (sz, sy) ->
  judge_from ev_all st (dump_evs id) = true /\
  fget (run_evs st (dump_evs id)) (FBlob, id) = Some (sz, sz).
Proof.
  intros Hg. unfold dump_evs.
  set (st1 := apply_ev st (EvSync (FBlob, id))).
  assert (H1 : fget st1 (FBlob, id) = Some (sz, sz)).
  { unfold st1. cbn [apply_ev]. rewrite Hg. apply fget_fset_same. }
  set (tl := [EvCreate (FIndex, id); EvAppend (FIndex, id) 0 0; EvWriteAt (FIndex, id) 0 83; EvSync (FIndex, id)]).
  assert (Hoth : forall st' pre, fget st' (FBlob, id) = Some (sz, sz) ->
             (forall e, In e pre -> In e tl) -> fget (run_evs st' pre) (FBlob, id) = Some (sz, sz)).
  { intros st' pre H' Hin. rewrite run_evs_other; [exact H'|]. intros e He. apply Hin in He.
    unfold tl in He. cbn [In] in He. destruct He as [<-|[<-|[<-|[<-|[]]]]]; reflexivity. }
  split.
  - cbn [judge_from]. fold st1. unfold tl. cbn [judge_from].
    set (st2 := apply_ev st1 (EvCreate (FIndex, id))).
    set (st3 := apply_ev st2 (EvAppend (FIndex, id) 0 0)).
    assert (H3 : fget st3 (FBlob, id) = Some (sz, sz)).
    { apply (Hoth st1 [EvCreate (FIndex, id); EvAppend (FIndex, id) 0 0] H1). unfold tl. cbn [In]. tauto. }
    clearbody st3 st2. clear Hoth H1. clearbody st1.
    unfold ev_all. cbn [ev_harmless ev_header_synced ev_index_after_sync andb].
    rewrite H3, N.eqb_refl. reflexivity.
  - rewrite run_evs_cons. fold st1. apply Hoth; auto.
Qed.

Lemma protocol_inv id rs st : fget st (FBlob, id) = None ->
  judge_from ev_all st (open_new_evs id ++ appends_from K id 20 rs ++ dump_evs id) = true /\
  fget (run_evs st (open_new_evs id ++ appends_from K id 20 rs ++ dump_evs id)) (FBlob, id)
  = Some (20 + recs_size rs, 20 + recs_size rs).
Proof.
  intros Hg. destruct (open_new_inv id st Hg) as [J1 F1].
  destruct (appends_from_inv id rs _ 20 20 F1 ltac:(lia)) as [J2 F2].
  destruct (dump_inv id _ _ _ F2) as [J3 F3].
  rewrite !judge_from_app, !run_evs_app, J1, J2, J3, F3. split; reflexivity.
Qed.

Theorem protocol_accepted : forall id rs,
  judge (open_new_evs id ++ appends_from K id 20 rs ++ dump_evs id) = true.
Proof. intros id rs. rewrite judge_all. apply protocol_inv. reflexivity. Qed.

Theorem protocol_clean : forall id rs,
  dirty_of (open_new_evs id ++ appends_from K id 20 rs ++ dump_evs id) (FBlob, id) = 0.
Proof.
  intros id rs. unfold dirty_of.
  destruct (protocol_inv id rs [] eq_refl) as [_ ->]. lia.
Qed.

(* ================= Part C: every history of the storage model produces an accepted trace ================= *)

(* ---------- small list facts ---------- *)
Lemma increasing_lt l : forall x, increasing (x :: l) -> forall y, In y l -> x < y.
Proof.
  induction l as [|y0 r IH]; intros x H y Hy; [destruct Hy|].
  destruct H as [H1 H2]. destruct Hy as [<-|Hy]; [exact H1|].
  specialize (IH y0 H2 y Hy). lia.
Qed.

Lemma increasing_NoDup l : increasing l -> NoDup l.
Proof.
  induction l as [|x r IH]; intros H; constructor.
  - intros Hin. pose proof (increasing_lt r x H x Hin). lia.
  - apply IH. apply (increasing_tail x r H).
Qed.

Lemma IdsOk_NoDup s : IdsOk s -> NoDup (map b_id (blobs_in_order s)).
Proof. intros [H _]. apply increasing_NoDup, H. Qed.

Lemma nodup_id_inj l a b : NoDup (map b_id l) -> In a l -> In b l -> b_id a = b_id b -> a = b.
Proof.
  induction l as [|x r IH]; intros ND Ha Hb E; [destruct Ha|].
  cbn [map] in ND. inversion ND as [|? ? Hnin ND']; subst.
  destruct Ha as [<-|Ha], Hb as [<-|Hb]; auto.
  - exfalso. apply Hnin. rewrite E. apply in_map, Hb.
  - exfalso. apply Hnin. rewrite <- E. apply in_map, Ha.
Qed.

Lemma find_blob_some l id b : find_blob l id = Some b -> In b l /\ b_id b = id.
Proof.
  induction l as [|x r IH]; cbn [find_blob]; [discriminate|].
  destruct (b_id x =? id) eqn:E.
  - intros H. injection H as <-. apply N.eqb_eq in E. split; [left; reflexivity|exact E].
  - intros H. destruct (IH H). split; [right; assumption|assumption].
Qed.

Lemma find_blob_none l id : find_blob l id = None -> forall b, In b l -> b_id b <> id.
Proof.
  induction l as [|x r IH]; cbn [find_blob]; intros H b Hb; [destruct Hb|].
  destruct (b_id x =? id) eqn:E; [discriminate|].
  destruct Hb as [<-|Hb]; [apply N.eqb_neq, E|apply IH; assumption].
Qed.

(* ---------- traces that touch the files of one blob only ---------- *)
Definition only_on (id : N) (tr : list ev) : Prop :=
  forall e, In e tr -> ev_file e = (FBlob, id) \/ ev_file e = (FIndex, id).

Lemma only_on_other id tr st id' :
  only_on id tr -> id' <> id -> fget (run_evs st tr) (FBlob, id') = fget st (FBlob, id').
Proof.
  intros H Hne. apply run_evs_other. intros e He. destruct (H e He) as [-> | ->]; [|reflexivity].
  apply fid_eqb_neq. congruence.
Qed.

Lemma only_on_nil id : only_on id [].
Proof. intros e []. Qed.

Lemma only_on_app id a b : only_on id a -> only_on id b -> only_on id (a ++ b).
Proof. intros Ha Hb e He. apply in_app_or in He. destruct He; auto. Qed.

Lemma only_on_open_new id : only_on id (open_new_evs id).
Proof. intros e He. cbn in He. destruct He as [<-|[<-|[<-|[]]]]; auto. Qed.

Lemma only_on_dump id : only_on id (dump_evs id).
Proof. intros e He. cbn in He. destruct He as [<-|[<-|[<-|[<-|[<-|[]]]]]]; auto. Qed.

Lemma only_on_appends id off rs : only_on id (appends_from K id off rs).
Proof. intros e He. left. apply (appends_from_file id rs off e He). Qed.

Lemma only_on_if (c : bool) id a : only_on id a -> only_on id (if c then a else []).
Proof. destruct c; auto using only_on_nil. Qed.

Lemma only_on_blob_evs l b : only_on (b_id b) (blob_evs K l b).
Proof.
  unfold blob_evs. destruct (find_blob l (b_id b)).
  - apply only_on_app; [apply only_on_appends|apply only_on_if, only_on_dump].
  - apply only_on_app; [apply only_on_open_new|]. apply only_on_app; [apply only_on_appends|apply only_on_if, only_on_dump].
Qed.

(* ---------- the relation between the blobs of the model and the files reached by the trace ---------- *)
Definition FR (l : list blob) (st : fstate) : Prop :=
  (forall b, In b l -> exists sy, fget st (FBlob, b_id b) = Some (blob_size K b, sy) /\ 20 <= sy) /\
  (forall id, (forall b, In b l -> b_id b <> id) -> fget st (FBlob, id) = None).

Lemma blob_size_ge b : 20 <= blob_size K b.
Proof. rewrite blob_size_recs. lia. Qed.

Lemma FR_sync l st id : FR l st -> FR l (apply_ev st (EvSync (FBlob, id))).
Proof.
  intros [H1 H2]. cbn [apply_ev]. destruct (fget st (FBlob, id)) as [[sz sy]|] eqn:E; [|split; assumption].
  split.
  - intros b Hb. destruct (H1 b Hb) as (sy' & Hg & Hs). rewrite fget_fset.
    destruct (fid_eqb (FBlob, id) (FBlob, b_id b)) eqn:Q.
    + apply fid_eqb_eq in Q. injection Q as ->. rewrite Hg in E. injection E as <- <-.
      exists (blob_size K b). split; [reflexivity|apply blob_size_ge].
    + exists sy'. auto.
  - intros id' Hn. rewrite fget_fset. destruct (fid_eqb (FBlob, id) (FBlob, id')) eqn:Q.
    + apply fid_eqb_eq in Q. injection Q as ->. rewrite (H2 _ Hn) in E. discriminate.
    + apply H2, Hn.
Qed.

Definition syncs (tr : list ev) : Prop := forall e, In e tr -> exists id, e = EvSync (FBlob, id).

Lemma syncs_ok tr : syncs tr -> forall l st, FR l st ->
  judge_from ev_all st tr = true /\ FR l (run_evs st tr).
Proof.
  induction tr as [|e r IH]; intros Hs l st HF; [split; [reflexivity|exact HF]|].
  destruct (Hs e (or_introl eq_refl)) as [id ->].
  cbn [judge_from]. rewrite run_evs_cons.
  destruct (IH (fun e He => Hs e (or_intror He)) l _ (FR_sync l st id HF)) as [J F].
  rewrite J. split; [reflexivity|exact F].
Qed.

Lemma syncs_nil : syncs [].
Proof. intros e []. Qed.

Lemma syncs_eds l : syncs (empty_dump_syncs l).
Proof.
  intros e He. unfold empty_dump_syncs in He. apply in_flat_map in He. destruct He as (b & _ & He).
  destruct (negb (b_ondisk b) && match b_idx b with [] => true | _ => false end); [|destruct He].
  destruct He as [<-|[]]. eauto.
Qed.

Lemma syncs_if (c : bool) a : syncs a -> syncs (if c then a else []).
Proof. destruct c; auto using syncs_nil. Qed.

Lemma syncs_one id : syncs [EvSync (FBlob, id)].
Proof. intros e [<-|[]]. eauto. Qed.

(* membership-wise: the same blobs (ids and records) *)
Definition msame (l l' : list blob) : Prop :=
  (forall b', In b' l' -> exists b, In b l /\ b_id b' = b_id b /\ b_recs b' = b_recs b) /\
  (forall b, In b l -> exists b', In b' l' /\ b_id b' = b_id b).

Lemma blob_size_recs_eq b b' : b_recs b' = b_recs b -> blob_size K b' = blob_size K b.
Proof. intros E. unfold blob_size. rewrite E. reflexivity. Qed.

Lemma FR_msame l l' st : msame l l' -> FR l st -> FR l' st.
Proof.
  intros [M1 M2] [H1 H2]. split.
  - intros b' Hb'. destruct (M1 b' Hb') as (b & Hb & Ei & Er).
    rewrite Ei, (blob_size_recs_eq b b' Er). apply H1, Hb.
  - intros id Hn. apply H2. intros b Hb E. destruct (M2 b Hb) as (b' & Hb' & Ei).
    apply (Hn b' Hb'). congruence.
Qed.

Lemma msame_map (f : blob -> blob) l t :
  (forall b, b_id (f b) = b_id b) -> (forall b, b_recs (f b) = b_recs b) -> msame (l ++ t) (map f l ++ t).
Proof.
  intros Hi Hr. split.
  - intros b' Hb'. apply in_app_or in Hb'. destruct Hb' as [Hb'|Hb'].
    + apply in_map_iff in Hb'. destruct Hb' as (b & <- & Hb). exists b. split; [apply in_or_app; auto|auto].
    + exists b'. split; [apply in_or_app; auto|auto].
  - intros b Hb. apply in_app_or in Hb. destruct Hb as [Hb|Hb].
    + exists (f b). split; [apply in_or_app; left; apply in_map, Hb|apply Hi].
    + exists b. split; [apply in_or_app; auto|auto].
Qed.

Lemma msame_refl l : msame l l.
Proof. split; intros b Hb; exists b; auto. Qed.

Lemma msame_quiesce s : msame (blobs_in_order s) (blobs_in_order (quiesce K s)).
Proof.
  unfold quiesce. destruct (s_alive s && s_dump_req s); [|apply msame_refl].
  rewrite !bio_eq. cbn [upd_dump_req dump_all_closed upd_closed s_closed s_active].
  rewrite cb_map_opt. apply msame_map; [apply blob_dump_id|apply blob_dump_recs].
Qed.

(* ---------- a trace made of one chunk per blob ---------- *)
Lemma flat_map_chunks (f : blob -> list ev) (Pre Post : blob -> option (N * N) -> Prop) :
  forall l, NoDup (map b_id l) ->
  (forall b, In b l -> only_on (b_id b) (f b)) ->
  (forall b st, In b l -> Pre b (fget st (FBlob, b_id b)) ->
     judge_from ev_all st (f b) = true /\ Post b (fget (run_evs st (f b)) (FBlob, b_id b))) ->
  forall st, (forall b, In b l -> Pre b (fget st (FBlob, b_id b))) ->
  judge_from ev_all st (flat_map f l) = true /\
  (forall b, In b l -> Post b (fget (run_evs st (flat_map f l)) (FBlob, b_id b))) /\
  (forall id, (forall b, In b l -> b_id b <> id) ->
     fget (run_evs st (flat_map f l)) (FBlob, id) = fget st (FBlob, id)).
Proof.
  induction l as [|a r IH]; intros ND Hon Hch st Hpre.
  - cbn [flat_map judge_from]. split; [reflexivity|]. split; [intros b []|reflexivity].
  - cbn [flat_map]. rewrite judge_from_app, run_evs_app.
    cbn [map] in ND. inversion ND as [|? ? Hnin ND']; subst.
    destruct (Hch a st (or_introl eq_refl) (Hpre a (or_introl eq_refl))) as [Ja Pa].
    set (st1 := run_evs st (f a)) in *.
    assert (Hoth : forall b, In b r -> b_id b <> b_id a).
    { intros b Hb E. apply Hnin. rewrite <- E. apply in_map, Hb. }
    assert (Hpre1 : forall b, In b r -> Pre b (fget st1 (FBlob, b_id b))).
    { intros b Hb. unfold st1. rewrite (only_on_other (b_id a)).
      - apply Hpre. right; exact Hb.
      - apply Hon. left; reflexivity.
      - apply Hoth, Hb. }
    destruct (IH ND' (fun b Hb => Hon b (or_intror Hb)) (fun b st Hb => Hch b st (or_intror Hb)) st1 Hpre1)
      as (Jr & Pr & Or).
    rewrite Ja, Jr. split; [reflexivity|]. split.
    + intros b [<-|Hb].
      * rewrite Or by exact Hoth. exact Pa.
      * apply Pr, Hb.
    + intros id Hid. rewrite Or by (intros b Hb; apply Hid; right; exact Hb).
      unfold st1. apply (only_on_other (b_id a)).
      * apply Hon. left; reflexivity.
      * intros E. apply (Hid a (or_introl eq_refl)). auto.
Qed.

Definition PreB (l : list blob) (b' : blob) (v : option (N * N)) : Prop :=
  match find_blob l (b_id b') with
  | Some b => exists sy, v = Some (blob_size K b, sy) /\ 20 <= sy
  | None => v = None
  end.
Definition PostB (b' : blob) (v : option (N * N)) : Prop :=
  exists sy, v = Some (blob_size K b', sy) /\ 20 <= sy.

Lemma FR_PreB l st : FR l st -> forall b', PreB l b' (fget st (FBlob, b_id b')).
Proof.
  intros [H1 H2] b'. unfold PreB. destruct (find_blob l (b_id b')) as [b|] eqn:E.
  - apply find_blob_some in E. destruct E as [Hb <-]. apply H1, Hb.
  - apply H2. apply find_blob_none, E.
Qed.

Lemma opt_dump_inv (c : bool) id st sz sy :
  fget st (FBlob, id) = Some (sz, sy) -> 20 <= sy -> 20 <= sz ->
  judge_from ev_all st (if c then dump_evs id else []) = true /\
  exists sy', fget (run_evs st (if c then dump_evs id else [])) (FBlob, id) = Some (sz, sy') /\ 20 <= sy'.
Proof.
  intros Hg Hsy Hsz. destruct c.
  - destruct (dump_inv id st sz sy Hg) as [J F]. split; [exact J|]. exists sz. auto.
  - split; [reflexivity|]. exists sy. auto.
Qed.

(* the events of one blob between two states *)
Lemma blob_evs_chunk l b' st :
  (forall b, find_blob l (b_id b') = Some b -> prefix_of (b_recs b) (b_recs b')) ->
  PreB l b' (fget st (FBlob, b_id b')) ->
  judge_from ev_all st (blob_evs K l b') = true /\
  PostB b' (fget (run_evs st (blob_evs K l b')) (FBlob, b_id b')).
Proof.
  intros Hp Hpre. unfold PreB in Hpre. unfold blob_evs, PostB. destruct (find_blob l (b_id b')) as [b|].
  - destruct Hpre as (sy & Hg & Hsy). destruct (Hp b eq_refl) as [t Ht].
    assert (Hsk : skipn (length (b_recs b)) (b_recs b') = t).
    { rewrite Ht, skipn_app, skipn_all, Nat.sub_diag. reflexivity. }
    rewrite Hsk.
    destruct (appends_from_inv (b_id b') t st _ sy Hg Hsy) as [J1 F1].
    assert (Hsz : blob_size K b + recs_size t = blob_size K b').
    { rewrite !blob_size_recs, Ht, recs_size_app. lia. }
    rewrite Hsz in F1.
    destruct (opt_dump_inv (b_ondisk b' && (negb (b_ondisk b) || negb (idxfile_size b =? idxfile_size b')))
                (b_id b') _ _ _ F1 Hsy (blob_size_ge b')) as [J2 (sy' & F2 & H2)].
    rewrite judge_from_app, run_evs_app, J1, J2. split; [reflexivity|]. exists sy'. auto.
  - destruct (open_new_inv (b_id b') st Hpre) as [J0 F0].
    destruct (appends_from_inv (b_id b') (b_recs b') _ 20 20 F0 ltac:(lia)) as [J1 F1].
    rewrite <- blob_size_recs in F1.
    destruct (opt_dump_inv (b_ondisk b') (b_id b') _ _ _ F1 ltac:(lia) (blob_size_ge b')) as [J2 (sy' & F2 & H2)].
    rewrite !judge_from_app, !run_evs_app, J0, J1, J2. split; [reflexivity|]. exists sy'. auto.
Qed.

(* all blobs of the new state, given that the new state extends the old one *)
Lemma changes_ok l l' st :
  NoDup (map b_id l') -> lext l l' -> FR l st ->
  judge_from ev_all st (flat_map (blob_evs K l) l') = true /\
  FR l' (run_evs st (flat_map (blob_evs K l) l')).
Proof.
  intros ND' HL HF.
  destruct (flat_map_chunks (blob_evs K l) (PreB l) PostB l' ND') with (st := st) as (J & P & O).
  - intros b _. apply only_on_blob_evs.
  - intros b' st0 Hb' Hpre. apply blob_evs_chunk; [|exact Hpre].
    intros b E. apply find_blob_some in E. destruct E as [Hb Ei].
    destruct (HL b Hb) as (b'' & Hb'' & Ei' & Hpf).
    assert (b'' = b') by (apply (nodup_id_inj l'); auto; congruence). subst b''. exact Hpf.
  - intros b' _. apply FR_PreB, HF.
  - split; [exact J|]. split; [exact P|].
    intros id Hn. rewrite O by exact Hn. apply (proj2 HF).
    intros b Hb E. destruct (HL b Hb) as (b' & Hb' & Ei & _). apply (Hn b' Hb'). congruence.
Qed.

(* [sync of the closing blob]; changed blobs; syncs of the dump pass *)
Lemma pcd_ok p d l l' st :
  syncs p -> syncs d -> NoDup (map b_id l') -> lext l l' -> FR l st ->
  judge_from ev_all st (p ++ flat_map (blob_evs K l) l' ++ d) = true /\
  FR l' (run_evs st (p ++ flat_map (blob_evs K l) l' ++ d)).
Proof.
  intros Sp Sd ND HL HF.
  destruct (syncs_ok p Sp l st HF) as [J1 F1].
  destruct (changes_ok l l' _ ND HL F1) as [J2 F2].
  destruct (syncs_ok d Sd l' _ F2) as [J3 F3].
  rewrite !judge_from_app, !run_evs_app, J1, J2, J3. split; [reflexivity|exact F3].
Qed.

(* ---------- re-opening a directory ---------- *)
Definition open_chunk (l : list blob) (b : blob) : list ev :=
  match find_blob l (b_id b) with
  | Some b0 => if b_ondisk b && negb (match b_idxfile b0 with Some (sz, _) => sz =? blob_size K b0 | None => false end)
               then dump_evs (b_id b) else []
  | None => open_new_evs (b_id b)
  end.

Lemma only_on_open_chunk l b : only_on (b_id b) (open_chunk l b).
Proof.
  unfold open_chunk. destruct (find_blob l (b_id b)); [apply only_on_if, only_on_dump|apply only_on_open_new].
Qed.

Lemma open_chunk_ok l b' st :
  (forall b0, find_blob l (b_id b') = Some b0 -> b_recs b' = b_recs b0) ->
  (find_blob l (b_id b') = None -> b_recs b' = []) ->
  PreB l b' (fget st (FBlob, b_id b')) ->
  judge_from ev_all st (open_chunk l b') = true /\
  PostB b' (fget (run_evs st (open_chunk l b')) (FBlob, b_id b')).
Proof.
  intros HS HN Hpre. unfold PreB in Hpre. unfold open_chunk, PostB. destruct (find_blob l (b_id b')) as [b0|].
  - destruct Hpre as (sy & Hg & Hsy). rewrite <- (blob_size_recs_eq b0 b' (HS b0 eq_refl)) in Hg.
    destruct (opt_dump_inv (b_ondisk b' && negb (match b_idxfile b0 with Some (sz, _) => sz =? blob_size K b0 | None => false end))
                (b_id b') _ _ _ Hg Hsy (blob_size_ge b')) as [J2 (sy' & F2 & H2)].
    split; [exact J2|]. exists sy'. auto.
  - destruct (open_new_inv (b_id b') st Hpre) as [J0 F0]. split; [exact J0|]. exists 20.
    rewrite F0, blob_size_recs, (HN eq_refl). split; [reflexivity|lia].
Qed.

Lemma do_open_members files quar c lazy f2 b' :
  In b' (blobs_in_order (do_open K files [] quar c lazy f2)) ->
  (files = [] /\ b_recs b' = []) \/ (exists b, In b files /\ b_id b' = b_id b /\ b_recs b' = b_recs b).
Proof.
  destruct files as [|f0 fs] eqn:EF.
  { intros H. left. split; [reflexivity|]. cbn in H. destruct H as [<-|[]]. reflexivity. }
  rewrite <- EF. assert (Hne : files <> []) by (rewrite EF; discriminate). clear EF f0 fs.
  rewrite do_open_nonempty by exact Hne. rewrite good_files_nil. intros H. right.
  assert (HB : forall x, In x (sort_by_id (map (blob_from_file K) files)) ->
               exists b, In b files /\ b_id x = b_id b /\ b_recs x = b_recs b).
  { intros x Hx. apply in_sort_by_id, in_map_iff in Hx. destruct Hx as (b & <- & Hb).
    exists b. split; [exact Hb|]. split; [apply blob_from_file_id|apply blob_from_file_recs]. }
  assert (HBne : forall f, In f files -> In (blob_from_file K f) (sort_by_id (map (blob_from_file K) files))).
  { intros f Hf. apply in_sort_by_id, in_map, Hf. }
  set (blobs := sort_by_id (map (blob_from_file K) files)) in *. clearbody blobs. cbv zeta in H.
  destruct lazy.
  - rewrite bio_eq in H. cbn [s_closed s_active oa] in H. rewrite cb_map_some_f, app_nil_r in H.
    apply in_map_iff in H. destruct H as (x & <- & Hx). destruct (HB x Hx) as (b & Hb & Ei & Er).
    exists b. rewrite blob_dump_id, blob_dump_recs. auto.
  - destruct (rev blobs) as [|last r] eqn:R.
    + exfalso. apply (f_equal (@rev blob)) in R. rewrite rev_involutive in R. cbn [rev] in R.
      destruct files as [|f0 fs]; [contradiction|]. specialize (HBne f0 (or_introl eq_refl)). rewrite R in HBne. exact HBne.
    + apply rev_cons_inv in R. subst blobs. rewrite bio_eq in H. cbn [s_closed s_active oa] in H.
      rewrite cb_map_some_f in H. apply in_app_or in H. destruct H as [H|[<-|[]]].
      * apply in_map_iff in H. destruct H as (x & <- & Hx).
        destruct (HB x (in_or_app (rev r) [last] x (or_introl Hx))) as (b & Hb & Ei & Er).
        exists b. rewrite blob_dump_id, blob_dump_recs. auto.
      * destruct (HB last (in_or_app (rev r) [last] last (or_intror (or_introl eq_refl)))) as (b & Hb & Ei & Er).
        exists b. rewrite blob_load_index_id, blob_load_index_recs. auto.
Qed.

Lemma do_open_no_dump_req files bad quar c lazy f2 : s_dump_req (do_open K files bad quar c lazy f2) = false.
Proof.
  destruct files as [|f0 fs] eqn:EF; [reflexivity|].
  rewrite <- EF. rewrite do_open_nonempty by (rewrite EF; discriminate). cbv zeta.
  destruct lazy; [reflexivity|]. destruct (rev _); reflexivity.
Qed.

Lemma quiesce_no_req s : s_dump_req s = false -> quiesce K s = s.
Proof. intros H. unfold quiesce. rewrite H, andb_false_r. reflexivity. Qed.

Lemma reopen_ok files l' d st :
  NoDup (map b_id files) -> NoDup (map b_id l') -> lext files l' ->
  (forall b', In b' l' -> (files = [] /\ b_recs b' = []) \/
                          (exists b, In b files /\ b_id b' = b_id b /\ b_recs b' = b_recs b)) ->
  syncs d -> FR files st ->
  judge_from ev_all st (flat_map (open_chunk files) l' ++ d) = true /\
  FR l' (run_evs st (flat_map (open_chunk files) l' ++ d)).
Proof.
  intros ND ND' HL HM Sd HF.
  destruct (flat_map_chunks (open_chunk files) (PreB files) PostB l' ND') with (st := st) as (J & P & O).
  - intros b _. apply only_on_open_chunk.
  - intros b' st0 Hb' Hpre. apply open_chunk_ok; [| |exact Hpre].
    + intros b0 E. apply find_blob_some in E. destruct E as [Hb0 Ei0].
      destruct (HM b' Hb') as [[-> _]|(b & Hb & Ei & Er)]; [destruct Hb0|].
      assert (b = b0) by (apply (nodup_id_inj files); auto; congruence). subst b. exact Er.
    + intros E. destruct (HM b' Hb') as [[_ Hr]|(b & Hb & Ei & Er)]; [exact Hr|].
      exfalso. apply (find_blob_none _ _ E b Hb). auto.
  - intros b' _. apply FR_PreB, HF.
  - assert (F2 : FR l' (run_evs st (flat_map (open_chunk files) l'))).
    { split; [exact P|]. intros id Hn. rewrite O by exact Hn. apply (proj2 HF).
      intros b Hb E. destruct (HL b Hb) as (b' & Hb' & Ei & _). apply (Hn b' Hb'). congruence. }
    destruct (syncs_ok d Sd l' _ F2) as [J3 F3].
    rewrite judge_from_app, run_evs_app, J, J3. split; [reflexivity|exact F3].
Qed.

(* ---------- one step ---------- *)
Variable cfg : config.

Lemma step_q_IdsOk s o : IdsOk s -> IdsOk (fst (step_q K cfg s o)).
Proof.
  intros H. unfold step_q. pose proof (step_IdsOk K cfg s o H) as H1.
  destruct (step K cfg s o) as [s' r]. cbn [fst] in *. apply quiesce_IdsOk, H1.
Qed.

(* `is_cut o = false`, `s_bad pre = []`: the trace is what the STORAGE asks of the file system. Damage done by a crash
   (OCut) changes a file behind its back, and the file state followed here knows no truncation and no rename. *)
Lemma step_trace_ok pre o st :
  IdsOk pre -> NoActiveWhenClosed pre -> is_cut o = false -> s_bad pre = [] -> FR (blobs_in_order pre) st ->
  judge_from ev_all st (step_evs K cfg pre (fst (step_q K cfg pre o)) o) = true /\
  FR (blobs_in_order (fst (step_q K cfg pre o))) (run_evs st (step_evs K cfg pre (fst (step_q K cfg pre o)) o)).
Proof.
  intros HI HN Hcut HB HF.
  pose proof (IdsOk_NoDup _ HI) as ND.
  pose proof (IdsOk_NoDup _ (step_q_IdsOk pre o HI)) as ND'.
  pose proof (step_q_lext K cfg pre o HN Hcut HB) as HL.
  assert (Hgen : forall d, syncs d ->
     judge_from ev_all st (flat_map (blob_evs K (blobs_in_order pre)) (blobs_in_order (fst (step_q K cfg pre o))) ++ d) = true /\
     FR (blobs_in_order (fst (step_q K cfg pre o)))
        (run_evs st (flat_map (blob_evs K (blobs_in_order pre)) (blobs_in_order (fst (step_q K cfg pre o))) ++ d))).
  { intros d Sd. apply (pcd_ok [] d _ _ st syncs_nil Sd ND' HL HF). }
  destruct o; unfold step_evs, all_blobs; cbv beta iota zeta;
    try (apply Hgen; apply syncs_if, syncs_eds).
  - (* OCloseActive *)
    destruct (s_active pre) as [a|]; [|apply Hgen; apply syncs_if, syncs_eds].
    apply (pcd_ok [EvSync (FBlob, b_id a)] _ _ _ st (syncs_one _)); auto. apply syncs_if, syncs_eds.
  - (* OClose *)
    apply Hgen. destruct (s_active pre); [apply syncs_eds|apply syncs_nil].
  - (* OOpen *)
    destruct (s_open pre) eqn:EO.
    + cbn [judge_from run_evs fold_left]. split; [reflexivity|].
      refine (FR_msame _ _ st _ HF).
      unfold step_q, step. cbn [needs_open andb]. rewrite EO. cbn [fst]. apply msame_quiesce.
    + assert (EP : fst (step_q K cfg pre (OOpen lazy)) =
                   do_open K (closed_blobs pre) [] (s_quar pre) (s_corrupted pre) lazy (s_f2 pre)).
      { unfold step_q, step. cbn [needs_open andb]. rewrite EO, HB. cbn [fst].
        apply quiesce_no_req, do_open_no_dump_req. }
      rewrite EP in *.
      assert (EB : blobs_in_order pre = closed_blobs pre).
      { rewrite bio_eq, (HN EO). cbn [oa]. rewrite app_nil_r. reflexivity. }
      rewrite EB in *.
      apply (reopen_ok (closed_blobs pre) _ _ st ND ND' HL); [|apply syncs_eds|exact HF].
      intros b' Hb'. apply (do_open_members _ _ _ _ _ _ Hb').
  - (* OCut *) discriminate Hcut.
Qed.

Lemma no_cut_cons o r : no_cut (o :: r) -> is_cut o = false /\ no_cut r.
Proof. intros H. split; [apply H; left; reflexivity|intros x Hx; apply H; right; exact Hx]. Qed.

Lemma run_trace_ok ops : forall s st,
  IdsOk s -> NoActiveWhenClosed s -> no_cut ops -> s_bad s = [] -> FR (blobs_in_order s) st ->
  judge_from ev_all st (run_trace K cfg s ops) = true.
Proof.
  induction ops as [|o r IH]; intros s st HI HN Hc HB HF; [reflexivity|].
  apply no_cut_cons in Hc. destruct Hc as [Hco Hcr].
  cbn [run_trace]. cbv zeta. rewrite judge_from_app.
  destruct (step_trace_ok s o st HI HN Hco HB HF) as [J F]. rewrite J. cbn [andb].
  apply IH; [apply step_q_IdsOk, HI|apply step_q_NoActiveWhenClosed, HN|exact Hcr|apply bad_step_q; assumption|exact F].
Qed.

Lemma run_trace_FR ops : forall s st,
  IdsOk s -> NoActiveWhenClosed s -> no_cut ops -> s_bad s = [] -> FR (blobs_in_order s) st ->
  FR (blobs_in_order (fst (run K cfg s ops))) (run_evs st (run_trace K cfg s ops)).
Proof.
  induction ops as [|o r IH]; intros s st HI HN Hc HB HF; [exact HF|].
  apply no_cut_cons in Hc. destruct Hc as [Hco Hcr].
  cbn [run_trace run]. cbv zeta. rewrite run_evs_app.
  destruct (step_trace_ok s o st HI HN Hco HB HF) as [_ F].
  specialize (IH _ _ (step_q_IdsOk s o HI) (step_q_NoActiveWhenClosed K cfg s o HN) Hcr (bad_step_q K cfg s o Hco HB) F).
  destruct (step_q K cfg s o) as [s' x]. cbn [fst] in *.
  destruct (run K cfg s' r) as [s'' xs]. exact IH.
Qed.

(* the files the trace leaves behind are the blobs of the final state: every blob file has the length
   the model gives it and a synced header; there is no other blob file *)
Theorem history_files_match : forall ops b,
  no_cut ops ->
  In b (blobs_in_order (fst (run K cfg init_storage ops))) ->
  exists sy, fget (run_evs [] (run_trace K cfg init_storage ops)) (FBlob, b_id b) = Some (blob_size K b, sy) /\ 20 <= sy.
Proof.
  intros ops b Hc Hb.
  refine (proj1 (run_trace_FR ops init_storage [] init_IdsOk init_NoActiveWhenClosed Hc eq_refl _) b Hb).
  split; [intros x []|reflexivity].
Qed.

Theorem history_trace_accepted : forall ops, no_cut ops -> judge (run_trace K cfg init_storage ops) = true.
Proof.
  intros ops Hc. rewrite judge_all. apply run_trace_ok; [apply init_IdsOk|apply init_NoActiveWhenClosed|exact Hc|reflexivity|].
  split; [intros b []|reflexivity].
Qed.

(* with crash damage in the history: whatever happened before (cuts, quarantine), judged from a file state that matches
   the directory as the crash left it -- every blob file with the length the model gives it and a synced header, no other
   blob file -- the trace of every continuation without further damage is accepted, and its files match the final
   state. (A real trace is judged this way when the follower of the file state is told the new length of a cut file
   and forgets a file moved to the corrupted directory.) *)
Theorem trace_after_crash_accepted : forall ops1 ops2 st,
  let s := fst (run K cfg init_storage ops1) in
  no_cut ops2 -> s_bad s = [] -> FR (blobs_in_order s) st ->
  judge_from ev_harmless st (run_trace K cfg s ops2) && judge_from ev_header_synced st (run_trace K cfg s ops2)
    && judge_from ev_index_after_sync st (run_trace K cfg s ops2) = true /\
  FR (blobs_in_order (fst (run K cfg s ops2))) (run_evs st (run_trace K cfg s ops2)).
Proof.
  intros ops1 ops2 st s Hc HB HF.
  assert (HI : IdsOk s) by (apply run_IdsOk, init_IdsOk).
  assert (HN : NoActiveWhenClosed s) by (apply run_NoActiveWhenClosed, init_NoActiveWhenClosed).
  split; [rewrite <- judge_from_all; apply run_trace_ok; assumption|apply run_trace_FR; assumption].
Qed.

(* why `no_cut` is needed as long as the trace has no event for the damage: the append after the restart lands below
   the length followed so far *)
Example cut_trace_not_accepted :
  let cfg := {| c_dup := true; c_maxrec := 1000; c_maxsize := 1000000 |} in
  judge (run_trace 4 cfg init_storage
           [OOpen false; OWrite 1 7 None 8 5 1; OWrite 2 8 None 8 5 2; ODrop; OCut 0 (Some 1%nat); OOpen false;
            OWrite 3 9 None 8 5 3]) = false /\
  judge (run_trace 4 cfg init_storage
           [OOpen false; OWrite 1 7 None 8 5 1; OWrite 2 8 None 8 5 2; ODrop; OOpen false; OWrite 3 9 None 8 5 3]) = true.
Proof. vm_compute. split; reflexivity. Qed.

End K.

Check history_trace_accepted.
Check protocol_accepted.
Check protocol_clean.
Print Assumptions harmless_meaning.
Print Assumptions harmless_no_positional.
Print Assumptions harmless_no_recreate.
Print Assumptions header_synced_meaning.
Print Assumptions index_after_sync_meaning.
Print Assumptions protocol_accepted.
Print Assumptions protocol_clean.
Print Assumptions history_trace_accepted.
Print Assumptions history_files_match.
Print Assumptions trace_after_crash_accepted.
Print Assumptions cut_trace_not_accepted.
