(* L4: the file-operation trace of the storage (what src/io/unix/sync.rs is asked to do), its meaning
   as a file-state machine (length, synced length), the predicates of C07 / C12 over traces, and the
   trace the L3 model predicts for each step (computed from the states before and after the step). *)
Require Import Pearl.Base.Prelude Pearl.Storage.Model Pearl.Storage.Spec.

Inductive fkind := FBlob | FIndex.
Definition fid := (fkind * N)%type.
Definition fid_eqb (a b : fid) : bool :=
  (match fst a, fst b with FBlob, FBlob | FIndex, FIndex => true | _, _ => false end) && (snd a =? snd b).

Inductive ev :=
| EvCreate (f : fid)
| EvOpen (f : fid)
| EvAppend (f : fid) (off len : N)
| EvWriteAt (f : fid) (off len : N)
| EvSync (f : fid).

(* ---------- semantics: per file (length, synced length) ---------- *)
Definition fstate := list (fid * (N * N)).
Fixpoint fget (st : fstate) (f : fid) : option (N * N) :=
  match st with [] => None | (g, v) :: r => if fid_eqb g f then Some v else fget r f end.
Fixpoint fset (st : fstate) (f : fid) (v : N * N) : fstate :=
  match st with
  | [] => [(f, v)]
  | (g, w) :: r => if fid_eqb g f then (g, v) :: r else (g, w) :: fset r f v
  end.

Definition apply_ev (st : fstate) (e : ev) : fstate :=
  match e with
  | EvCreate f => fset st f (0, 0)
  | EvOpen f => st
  | EvAppend f off len => match fget st f with Some (sz, sy) => fset st f (N.max sz (off + len), sy) | None => fset st f (off + len, 0) end
  | EvWriteAt f off len => st
  | EvSync f => match fget st f with Some (sz, _) => fset st f (sz, sz) | None => st end
  end.
Definition run_evs (st : fstate) (tr : list ev) : fstate := fold_left apply_ev tr st.

(* ---------- the predicates (decidable, evaluated by the extracted checker on real traces) ---------- *)
(* C07: an append to a blob file lands exactly at its current end; nothing else writes into a blob *)
Definition ev_harmless (st : fstate) (e : ev) : bool :=
  match e with
  | EvAppend (FBlob, i) off _ => match fget st (FBlob, i) with Some (sz, _) => off =? sz | None => true end
  | EvWriteAt (FBlob, _) _ _ => false
  | EvCreate (FBlob, i) => match fget st (FBlob, i) with Some _ => false | None => true end
  | _ => true
  end.
(* C12a: no record is appended to a blob before its 20-byte header was synced *)
Definition ev_header_synced (st : fstate) (e : ev) : bool :=
  match e with
  | EvAppend (FBlob, i) off _ =>
    if off =? 0 then true else match fget st (FBlob, i) with Some (_, sy) => 20 <=? sy | None => true end
  | _ => true
  end.
(* C12b: the index header rewrite that sets `written` happens only when every byte of its blob is synced *)
Definition ev_index_after_sync (st : fstate) (e : ev) : bool :=
  match e with
  | EvWriteAt (FIndex, i) 0 _ => match fget st (FBlob, i) with Some (sz, sy) => sz =? sy | None => true end
  | _ => true
  end.

Fixpoint judge_from (p : fstate -> ev -> bool) (st : fstate) (tr : list ev) : bool :=
  match tr with [] => true | e :: r => p st e && judge_from p (apply_ev st e) r end.
Definition judge (tr : list ev) : bool :=
  judge_from ev_harmless [] tr && judge_from ev_header_synced [] tr && judge_from ev_index_after_sync [] tr.

(* unsynced bytes of a file at the end of a trace *)
Definition dirty_of (tr : list ev) (f : fid) : N :=
  match fget (run_evs [] tr) f with Some (sz, sy) => sz - sy | None => 0 end.

(* ---------- the trace the L3 model predicts for one step ---------- *)
Section K.
Variable K : N.

Definition open_new_evs (id : N) : list ev := [EvCreate (FBlob, id); EvAppend (FBlob, id) 0 20; EvSync (FBlob, id)].
(* Blob::dump: blob fsync, then the index file: create, append all, rewrite the header, fsync.
   The index length is not predicted here (0 = unknown) *)
Definition dump_evs (id : N) : list ev :=
  [EvSync (FBlob, id); EvCreate (FIndex, id); EvAppend (FIndex, id) 0 0; EvWriteAt (FIndex, id) 0 83; EvSync (FIndex, id)].

Fixpoint find_blob (l : list blob) (id : N) : option blob :=
  match l with [] => None | b :: r => if b_id b =? id then Some b else find_blob r id end.

Fixpoint appends_from (id off : N) (rs : list rec) : list ev :=
  match rs with [] => [] | r :: t => EvAppend (FBlob, id) off (rec_size K r) :: appends_from id (off + rec_size K r) t end.

Definition idxfile_size (b : blob) : N := match b_idxfile b with Some (sz, _) => sz + 1 | None => 0 end.

(* events of one blob between two states: creation, appended records, dump *)
Definition blob_evs (pre : list blob) (b' : blob) : list ev :=
  match find_blob pre (b_id b') with
  | None => open_new_evs (b_id b') ++ appends_from (b_id b') 20 (b_recs b')
            ++ (if b_ondisk b' then dump_evs (b_id b') else [])
  | Some b =>
    appends_from (b_id b') (blob_size K b) (skipn (length (b_recs b)) (b_recs b'))
    ++ (if b_ondisk b' && (negb (b_ondisk b) || negb (idxfile_size b =? idxfile_size b')) then dump_evs (b_id b') else [])
  end.

Definition all_blobs (s : storage) : list blob := blobs_in_order s.

Variable cfg : config.

(* a dump attempt on a blob whose in-memory index is EMPTY still fsyncs the blob (Blob::dump syncs first,
   then IndexStruct::dump returns Ok(0)) *)
Definition empty_dump_syncs (l : list blob) : list ev :=
  flat_map (fun b => if negb (b_ondisk b) && match b_idx b with [] => true | _ => false end then [EvSync (FBlob, b_id b)] else []) l.

(* per-file traces are compared, so the order between different blobs does not matter here *)
Definition step_evs (pre post : storage) (o : op) : list ev :=
  let created_or_changed := flat_map (blob_evs (all_blobs pre)) (all_blobs post) in
  let mid := fst (step K cfg pre o) in
  let dump_pass := if s_alive mid && s_dump_req mid then empty_dump_syncs (closed_blobs mid) else [] in
  match o with
  | OCloseActive =>
    (* fsync of the blob being closed comes first *)
    match s_active pre with Some b => EvSync (FBlob, b_id b) :: created_or_changed ++ dump_pass | None => created_or_changed ++ dump_pass end
  | OClose => created_or_changed ++ match s_active pre with Some b => empty_dump_syncs [b] | None => [] end
  | OOpen lazy => if s_open pre then [] else
                 (* every blob file is opened; regenerated indexes are dumped again (all blobs but the eager active one) *)
                 flat_map (fun b => match find_blob (all_blobs pre) (b_id b) with
                                    | Some b0 => if b_ondisk b && negb (match b_idxfile b0 with Some (sz, _) => sz =? blob_size K b0 | None => false end)
                                                 then dump_evs (b_id b) else []
                                    | None => open_new_evs (b_id b) end) (all_blobs post)
                 ++ empty_dump_syncs (closed_blobs post)
                 (* a blob file that cannot be read back is moved to the corrupted directory: a rename, no write *)
  | OCut _ _ => []   (* damage done by a crash between two sessions: not an operation of the storage *)
  | _ => created_or_changed ++ dump_pass
  end.
End K.
