(* Model of src/filter/ahash/fallback_hash.rs (aHash 0.7.4 fallback algorithm), little-endian target.
   Constants come from Generated.Consts (regenerated from the source on every run). *)
Require Import Pearl.Base.Prelude Pearl.Base.LE Pearl.Generated.Consts.

Definition M64 : N := 2^64.
Definition w64 (x : N) : N := x mod M64.
Definition rotl64 (x r : N) : N := N.lor (w64 (N.shiftl x r)) (N.shiftr x (64 - r)).

(* operations.rs folded_multiply *)
Definition folded_multiply (s by_ : N) : N :=
  let result := (s * by_) mod 2^128 in
  N.lxor (result mod M64) (N.shiftr result 64).

Record ahasher := { ah_buffer : N; ah_pad : N; ah_k0 : N; ah_k1 : N }.

Definition pi (i : nat) : N := nth i AHASH_PI 0.

(* AHasher::new_with_keys(key1, key2) for keys < 2^64 (Bloom::hashers uses i+1, i+2) *)
Definition new_with_keys (key1 key2 : N) : ahasher :=
  {| ah_buffer := N.lxor key1 (pi 0); ah_pad := pi 1; ah_k0 := N.lxor key2 (pi 2); ah_k1 := pi 3 |}.

Definition large_update (h : ahasher) (b0 b1 : N) : ahasher :=
  let combined := folded_multiply (N.lxor b0 (ah_k0 h)) (N.lxor b1 (ah_k1 h)) in
  {| ah_buffer := rotl64 (N.lxor (w64 (ah_buffer h + ah_pad h)) combined) AHASH_ROT;
     ah_pad := ah_pad h; ah_k0 := ah_k0 h; ah_k1 := ah_k1 h |}.

Definition last_n {A} (n : nat) (l : list A) : list A := skipn (length l - n) l.

(* operations.rs read_small, for len <= 8 *)
Definition read_small (d : bytes) : N * N :=
  let n := length d in
  if (2 <=? n)%nat then
    if (4 <=? n)%nat then (le_val (firstn 4 d), le_val (last_n 4 d))
    else (le_val (firstn 2 d), nth (n - 1) d 0)
  else if (0 <? n)%nat then (nth 0 d 0, nth 0 d 0) else (0, 0).

Fixpoint blocks16 (fuel : nat) (h : ahasher) (d : bytes) : ahasher :=
  match fuel with
  | O => h
  | S f =>
    if (16 <? length d)%nat then
      blocks16 f (large_update h (le_val (firstn 8 d)) (le_val (firstn 8 (skipn 8 d)))) (skipn 16 d)
    else h
  end.

(* Hasher::write *)
Definition ah_write (h : ahasher) (d : bytes) : ahasher :=
  let len := N.of_nat (length d) in
  let h := {| ah_buffer := w64 (w64 (ah_buffer h + len) * AHASH_MULTIPLE);
              ah_pad := ah_pad h; ah_k0 := ah_k0 h; ah_k1 := ah_k1 h |} in
  if (8 <? length d)%nat then
    if (16 <? length d)%nat then
      let tail := last_n 16 d in
      let h := large_update h (le_val (firstn 8 tail)) (le_val (skipn 8 tail)) in
      blocks16 (length d) h d
    else large_update h (le_val (firstn 8 d)) (le_val (last_n 8 d))
  else let '(a, b) := read_small d in large_update h a b.

(* Hasher::finish *)
Definition ah_finish (h : ahasher) : N :=
  let rot := N.land (ah_buffer h) 63 in
  rotl64 (folded_multiply (ah_buffer h) (ah_pad h)) rot.

(* the hash family used by Bloom: hasher i has keys (i + 1, i + 2) *)
Definition bloom_hash (i : N) (key : bytes) : N :=
  ah_finish (ah_write (new_with_keys (i + BLOOM_HASHER_KEY1_ADD) (i + BLOOM_HASHER_KEY2_ADD)) key).
