(* CRC-32C (Castagnoli, reflected, init/xorout 0xFFFFFFFF), bit-serial model of the checksum that the
   crate computes with crc 3.0.0's table-driven CRC_32_ISCSI (tied to it by correspondence). *)
Require Import Pearl.Base.Prelude Pearl.Base.LE.

Definition P : N := 0x82F63B78.
Definition b2n (b : bool) : N := if b then 1 else 0.
Definition Zs (s : N) : N := N.lxor (N.shiftr s 1) (if N.testbit s 0 then P else 0).
Definition feed (s : N) (b : bool) : N := Zs (N.lxor s (b2n b)).
Definition run (s : N) (bs : list bool) : N := fold_left feed bs s.


Definition crc (bs : list bool) : N := N.lxor (run 0xFFFFFFFF bs) 0xFFFFFFFF.

Fixpoint xorl (a b : list bool) : list bool :=
  match a, b with x :: a', y :: b' => xorb x y :: xorl a' b' | _, _ => [] end.

(* bytes are fed least-significant bit first *)
Definition byte_bits (b : N) : list bool := map (fun i => N.testbit b (N.of_nat i)) (seq 0 8).
Definition bits_of (bs : bytes) : list bool := flat_map byte_bits bs.
Definition crc_byte (s b : N) : N := fold_left feed (byte_bits b) s.
Definition crc32c (bs : bytes) : N := N.lxor (fold_left crc_byte bs 0xFFFFFFFF) 0xFFFFFFFF.
