(* Common imports and small list/N lemmas used across the development. *)
From Coq Require Export List Arith NArith ZArith Lia Bool.
Export ListNotations.
Global Open Scope N_scope.

Global Arguments N.add : simpl never.
Global Arguments N.sub : simpl never.
Global Arguments N.mul : simpl never.
Global Arguments N.div : simpl never.
Global Arguments N.modulo : simpl never.
Global Arguments N.eqb : simpl never.
Global Arguments N.ltb : simpl never.
Global Arguments N.leb : simpl never.
Global Arguments N.pow : simpl never.
Global Arguments N.shiftr : simpl never.
Global Arguments N.shiftl : simpl never.
Global Arguments N.testbit : simpl never.
Global Arguments N.lor : simpl never.
Global Arguments N.land : simpl never.
Global Arguments N.lxor : simpl never.

(* nth on lists indexed by N, default 0 *)
Definition nthN (l : list N) (i : N) : N := nth (N.to_nat i) l 0.

Fixpoint updN {A} (l : list A) (i : nat) (f : A -> A) : list A :=
  match l, i with
  | [], _ => []
  | x :: r, O => f x :: r
  | x :: r, S j => x :: updN r j f
  end.

Lemma updN_length {A} (l : list A) i f : length (updN l i f) = length l.
Proof. revert i; induction l as [|x r IH]; intros [|j]; cbn; auto. Qed.

Lemma nth_updN_same {A} (l : list A) i f d : (i < length l)%nat -> nth i (updN l i f) d = f (nth i l d).
Proof. revert i; induction l as [|x r IH]; intros [|j] H; cbn in *; try lia; auto. apply IH; lia. Qed.

Lemma nth_updN_other {A} (l : list A) i j f d : i <> j -> nth j (updN l i f) d = nth j l d.
Proof. revert i j; induction l as [|x r IH]; intros [|i] [|j] H; cbn; auto; try congruence. Qed.

Lemma lt_pow2_testbit s n : s < 2^n <-> (forall m, n <= m -> N.testbit s m = false).
Proof.
  split.
  - intros H m Hm. destruct (N.eq_dec s 0) as [->|Hs]; [apply N.bits_0|].
    apply N.bits_above_log2. apply N.log2_lt_pow2 in H; lia.
  - intros H. destruct (N.eq_dec s 0) as [->|Hs]. { apply N.neq_0_lt_0, N.pow_nonzero; lia. }
    apply N.log2_lt_pow2; [lia|]. destruct (N.lt_ge_cases (N.log2 s) n) as [|Hge]; [assumption|].
    specialize (H _ Hge). rewrite N.bit_log2 in H by assumption. discriminate.
Qed.
