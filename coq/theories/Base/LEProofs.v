Require Import Pearl.Base.Prelude Pearl.Base.LE.

Lemma le_bytes_length n w : length (le_bytes n w) = n.
Proof. revert w; induction n as [|n IH]; intros w; cbn [le_bytes length]; auto. Qed.

Lemma le_bytes_wf n w : wf_bytes (le_bytes n w).
Proof.
  revert w; induction n as [|n IH]; intros w; cbn [le_bytes]; constructor.
  - apply N.mod_lt; lia.
  - apply IH.
Qed.

Lemma le_val_bytes n w : w < 2^(8 * N.of_nat n) -> le_val (le_bytes n w) = w.
Proof.
  revert w; induction n as [|n IH]; intros w Hw; cbn [le_bytes le_val].
  - cbn in Hw. lia.
  - rewrite IH.
    + pose proof (N.div_mod w 256 ltac:(lia)). lia.
    + replace (8 * N.of_nat (S n)) with (8 + 8 * N.of_nat n) in Hw by lia.
      rewrite N.pow_add_r in Hw. change (2^8) with 256 in Hw.
      apply N.div_lt_upper_bound; lia.
Qed.

Lemma le_bytes_val bs : wf_bytes bs -> le_bytes (length bs) (le_val bs) = bs.
Proof.
  induction 1 as [|b r Hb Hr IH]; cbn [length le_bytes le_val]; [reflexivity|].
  replace (b + 256 * le_val r) with (b + le_val r * 256) by lia.
  f_equal.
  - rewrite N.mod_add by lia. apply N.mod_small; assumption.
  - rewrite N.div_add by lia. rewrite N.div_small by assumption.
    rewrite N.add_0_l. exact IH.
Qed.

(* bit j of byte i of the little-endian encoding is bit 8i+j of the word *)
Lemma le_bytes_testbit n w i j :
  (i < n)%nat -> j < 8 ->
  N.testbit (nth i (le_bytes n w) 0) j = N.testbit w (8 * N.of_nat i + j).
Proof.
  revert w i; induction n as [|n IH]; intros w i Hi Hj; [lia|].
  cbn [le_bytes]. destruct i as [|i]; cbn [nth].
  - change 256 with (2^8). rewrite N.mod_pow2_bits_low by lia. f_equal; lia.
  - rewrite IH by lia. change 256 with (2^8). rewrite N.div_pow2_bits. f_equal; lia.
Qed.

Lemma le_val_lt bs : wf_bytes bs -> le_val bs < 2^(8 * N.of_nat (length bs)).
Proof.
  induction 1 as [|b r Hb Hr IH]; cbn [length le_val]; [cbn; lia|].
  replace (8 * N.of_nat (S (length r))) with (8 + 8 * N.of_nat (length r)) by lia.
  rewrite N.pow_add_r. change (2^8) with 256. lia.
Qed.
