(* Little-endian fixed-width integer codecs (bincode's encoding of u8/u16/u32/u64/usize). *)
Require Import Pearl.Base.Prelude.

Definition byte := N.
Definition bytes := list N.

Fixpoint le_bytes (n : nat) (w : N) : bytes :=
  match n with O => [] | S k => (w mod 256) :: le_bytes k (w / 256) end.

Fixpoint le_val (bs : bytes) : N :=
  match bs with [] => 0 | b :: r => b + 256 * le_val r end.

Definition le64 := le_bytes 8.
Definition le32 := le_bytes 4.
Definition le16 := le_bytes 2.

Definition wf_bytes (bs : bytes) : Prop := Forall (fun b => b < 256) bs.
