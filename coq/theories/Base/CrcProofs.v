(* CRC-32C detects every error burst of at most 32 bits, for every data length and position. *)
Require Import Pearl.Base.Prelude Pearl.Base.LE Pearl.Base.Crc.

Lemma Zs_0 : Zs 0 = 0. Proof. reflexivity. Qed.

Lemma Zs_lxor a b : Zs (N.lxor a b) = N.lxor (Zs a) (Zs b).
Proof.
  unfold Zs. apply N.bits_inj. intros m.
  rewrite !N.lxor_spec, N.shiftr_lxor, !N.lxor_spec.
  destruct (N.testbit a 0), (N.testbit b 0); cbn [xorb]; rewrite ?N.bits_0;
  destruct (N.testbit (N.shiftr a 1) m), (N.testbit (N.shiftr b 1) m), (N.testbit P m); reflexivity.
Qed.

Lemma lt_pow2_testbit s n : s < 2^n <-> (forall m, n <= m -> N.testbit s m = false).
Proof.
  split.
  - intros H m Hm. destruct (N.eq_dec s 0) as [->|Hs]; [apply N.bits_0|].
    apply N.bits_above_log2. apply N.log2_lt_pow2 in H; lia.
  - intros H. destruct (N.eq_dec s 0) as [->|Hs]. { apply N.neq_0_lt_0, N.pow_nonzero; lia. }
    apply N.log2_lt_pow2; [lia|]. destruct (N.lt_ge_cases (N.log2 s) n) as [|Hge]; [assumption|].
    specialize (H _ Hge). rewrite N.bit_log2 in H by assumption. discriminate.
Qed.

Lemma P_lt : P < 2^32. Proof. reflexivity. Qed.
Lemma P_top : N.testbit P 31 = true. Proof. reflexivity. Qed.

Lemma Zs_lt s : s < 2^32 -> Zs s < 2^32.
Proof.
  intros H. apply lt_pow2_testbit. intros m Hm. unfold Zs.
  rewrite N.lxor_spec, N.shiftr_spec by lia.
  rewrite (proj1 (lt_pow2_testbit s 32) H) by lia.
  destruct (N.testbit s 0); [rewrite (proj1 (lt_pow2_testbit P 32) P_lt) by lia|rewrite N.bits_0]; reflexivity.
Qed.

Lemma Zs_zero_inv s : s < 2^32 -> Zs s = 0 -> s = 0.
Proof.
  intros H HZ. unfold Zs in HZ. destruct (N.testbit s 0) eqn:E0.
  - exfalso. apply N.lxor_eq in HZ.
    assert (Hb : N.testbit (N.shiftr s 1) 31 = true) by (rewrite HZ; apply P_top).
    rewrite N.shiftr_spec in Hb by lia. cbn in Hb.
    rewrite (proj1 (lt_pow2_testbit s 32) H) in Hb by lia. discriminate.
  - rewrite N.lxor_0_r in HZ. apply N.bits_inj. intros m. rewrite N.bits_0.
    destruct (N.eq_dec m 0) as [->|Hm]; [assumption|].
    replace m with ((m - 1) + 1) by lia. rewrite <- N.shiftr_spec by lia. rewrite HZ. apply N.bits_0.
Qed.

Fixpoint iter (n : nat) (x : N) : N := match n with O => x | S n' => Zs (iter n' x) end.

Lemma iter_lt n s : s < 2^32 -> iter n s < 2^32.
Proof. induction n; cbn; auto using Zs_lt. Qed.
Lemma iter_lxor n a b : iter n (N.lxor a b) = N.lxor (iter n a) (iter n b).
Proof. induction n; cbn; [reflexivity|]. rewrite IHn. apply Zs_lxor. Qed.
Lemma iter_0 n : iter n 0 = 0.
Proof. induction n; cbn; [reflexivity|]. rewrite IHn. reflexivity. Qed.
Lemma iter_nonzero n s : s < 2^32 -> s <> 0 -> iter n s <> 0.
Proof.
  intros H Hs. induction n; cbn; [assumption|]. intros HZ. apply IHn.
  apply Zs_zero_inv; [apply iter_lt; assumption|assumption].
Qed.

Lemma Zs_pow2 k : Zs (2^(k+1)) = 2^k.
Proof.
  unfold Zs. rewrite N.pow2_bits_eqb. replace (N.eqb (k+1) 0) with false by (symmetry; apply N.eqb_neq; lia).
  rewrite N.lxor_0_r, N.shiftr_div_pow2, N.pow_add_r. cbn. rewrite N.div_mul by lia. reflexivity.
Qed.
Lemma iter_pow2 m : iter m (2^(N.of_nat m)) = 1.
Proof.
  induction m; [reflexivity|]. cbn [iter].
  assert (E : forall j x, iter j (Zs x) = Zs (iter j x)) by (induction j; intros; cbn; [reflexivity|rewrite IHj; reflexivity]).
  rewrite <- E. replace (N.of_nat (S m)) with (N.of_nat m + 1) by lia. rewrite Zs_pow2. exact IHm.
Qed.

Fixpoint le_word (b : list bool) : N := match b with [] => 0 | x :: r => b2n x + 2 * le_word r end.
Lemma le_word_lt b : le_word b < 2^(N.of_nat (length b)).
Proof.
  induction b as [|x r IH]; cbn [le_word length]; [reflexivity|].
  replace (N.of_nat (S (length r))) with (N.of_nat (length r) + 1) by lia.
  rewrite N.pow_add_r. destruct x; cbn [b2n]; lia.
Qed.
Lemma le_word_app b c : le_word (b ++ [c]) = le_word b + b2n c * 2^(N.of_nat (length b)).
Proof.
  induction b as [|x r IH]; cbn [le_word length app]; [cbn; lia|].
  rewrite IH. replace (N.of_nat (S (length r))) with (N.of_nat (length r) + 1) by lia.
  rewrite N.pow_add_r. lia.
Qed.
Lemma le_word_nonzero b : existsb (fun x => x) b = true -> le_word b <> 0.
Proof. induction b as [|x r IH]; cbn [existsb le_word]; [discriminate|]. destruct x; cbn [b2n orb]; [lia|]. intros H. specialize (IH H). lia. Qed.

(* addition of disjoint bits = lxor *)
Lemma add_high_lxor w c m : w < 2^m -> w + b2n c * 2^m = N.lxor w (b2n c * 2^m).
Proof.
  intros H. destruct c; cbn [b2n]; [|rewrite N.mul_0_l, N.add_0_r, N.lxor_0_r; reflexivity].
  rewrite N.mul_1_l. apply N.add_nocarry_lxor. apply N.bits_inj. intros j.
  rewrite N.land_spec, N.bits_0, N.pow2_bits_eqb. destruct (N.eqb_spec m j) as [->|]; [|apply andb_false_r].
  rewrite (proj1 (lt_pow2_testbit w j) H) by lia. reflexivity.
Qed.

Lemma feed_split s c : feed s c = N.lxor (Zs s) (if c then Zs 1 else 0).
Proof. unfold feed. rewrite Zs_lxor. destruct c; reflexivity. Qed.

(* Feeding at most 32 bits into the zero register *)
Lemma run_zero_word b : (length b <= 32)%nat -> run 0 b = iter (length b) (le_word b).
Proof.
  induction b as [|c b IH] using rev_ind; intros Hl; [reflexivity|].
  rewrite app_length in *. cbn [length] in *. unfold run in *. rewrite fold_left_app. cbn [fold_left].
  rewrite IH by lia. rewrite feed_split, le_word_app.
  replace (length b + 1)%nat with (S (length b)) by lia. cbn [iter].
  rewrite add_high_lxor by apply le_word_lt. rewrite iter_lxor, Zs_lxor. f_equal.
  destruct c; cbn [b2n]; [|rewrite N.mul_0_l, iter_0; reflexivity].
  rewrite N.mul_1_l, iter_pow2. reflexivity.
Qed.

Lemma run_zero_zeros n : run 0 (repeat false n) = 0.
Proof. induction n; cbn; [reflexivity|]. exact IHn. Qed.
Lemma run_zeros_nonzero n s : s < 2^32 -> s <> 0 -> run s (repeat false n) <> 0.
Proof.
  revert s. induction n; intros s H Hs; cbn; [assumption|]. apply IHn.
  - unfold feed. cbn [b2n]. rewrite N.lxor_0_r. apply Zs_lt; assumption.
  - unfold feed. cbn [b2n]. rewrite N.lxor_0_r. intros HZ. apply Hs. apply Zs_zero_inv; assumption.
Qed.

Theorem burst_nonzero i j b :
  (length b <= 32)%nat -> existsb (fun x => x) b = true ->
  run 0 (repeat false i ++ b ++ repeat false j) <> 0.
Proof.
  intros Hl Hb. unfold run. rewrite !fold_left_app. fold (run 0 (repeat false i)). rewrite run_zero_zeros.
  fold (run 0 b). rewrite run_zero_word by assumption.
  apply run_zeros_nonzero.
  - apply iter_lt. eapply N.lt_le_trans; [apply le_word_lt|]. apply N.pow_le_mono_r; lia.
  - apply iter_nonzero.
    + eapply N.lt_le_trans; [apply le_word_lt|]. apply N.pow_le_mono_r; lia.
    + apply le_word_nonzero; assumption.
Qed.

(* Linearity of the whole run: same-length bit strings *)

Lemma run_lxor a b : length a = length b -> forall s t, run (N.lxor s t) (xorl a b) = N.lxor (run s a) (run t b).
Proof.
  revert b. induction a as [|x a IH]; intros [|y b] Hl s t; try discriminate; [reflexivity|].
  cbn [xorl run fold_left]. fold (run (feed (N.lxor s t) (xorb x y)) (xorl a b)).
  replace (feed (N.lxor s t) (xorb x y)) with (N.lxor (feed s x) (feed t y)).
  - apply IH. cbn in Hl. lia.
  - rewrite !feed_split, Zs_lxor. destruct x, y; cbn [xorb]; rewrite ?N.lxor_0_r.
    + rewrite N.lxor_assoc, <- (N.lxor_assoc (Zs 1)), (N.lxor_comm (Zs 1) (Zs t)), N.lxor_assoc, N.lxor_nilpotent, N.lxor_0_r. reflexivity.
    + rewrite !N.lxor_assoc. f_equal. apply N.lxor_comm.
    + rewrite N.lxor_assoc. reflexivity.
    + reflexivity.
Qed.


Theorem crc_detects_burst d i j b :
  length d = (i + length b + j)%nat -> (length b <= 32)%nat -> existsb (fun x => x) b = true ->
  crc (xorl d (repeat false i ++ b ++ repeat false j)) <> crc d.
Proof.
  intros Hd Hl Hb Heq. unfold crc in Heq.
  apply (f_equal (fun x => N.lxor x 0xFFFFFFFF)) in Heq. rewrite !N.lxor_assoc, !N.lxor_nilpotent, !N.lxor_0_r in Heq.
  set (e := repeat false i ++ b ++ repeat false j) in *.
  assert (Hle : length d = length e) by (subst e; rewrite !app_length, !repeat_length; lia).
  pose proof (run_lxor d e Hle 0xFFFFFFFF 0) as H. rewrite N.lxor_0_r in H. rewrite H in Heq.
  apply (burst_nonzero i j b Hl Hb). fold e.
  apply (f_equal (N.lxor (run 4294967295 d))) in Heq.
  rewrite <- N.lxor_assoc, N.lxor_nilpotent, N.lxor_0_l in Heq. exact Heq.
Qed.

Lemma crc_byte_run bs : forall s, fold_left crc_byte bs s = run s (bits_of bs).
Proof.
  induction bs as [|b bs IH]; intros s; [reflexivity|].
  cbn [fold_left bits_of flat_map]. rewrite IH. unfold run, crc_byte. rewrite fold_left_app. reflexivity.
Qed.

Lemma crc32c_bits bs : crc32c bs = crc (bits_of bs).
Proof. unfold crc32c, crc. rewrite crc_byte_run. reflexivity. Qed.
