(* Extraction of the executable model for the correspondence check.
   ExtrOcamlBasic only (bool, option, list, prod, unit -> OCaml natives); N, positive, nat, Z stay
   extracted datatypes; no Extract Constant / Extract Inductive of our own. *)
Require Import Coq.extraction.Extraction Coq.extraction.ExtrOcamlBasic.
Require Import Pearl.Base.Prelude Pearl.Base.LE Pearl.Base.AHash Pearl.Filter.Bloom Pearl.Storage.Model Pearl.Storage.Spec Pearl.Base.Crc Pearl.Format.Record Pearl.Blob.Bytes Pearl.Index.BPTree Pearl.Index.Bytes Pearl.Io.Trace Pearl.Blob.Scan Pearl.Index.Open Pearl.Filter.Hier Pearl.Filter.Combined Pearl.Storage.Filtered Pearl.Format.Meta Pearl.Filter.CombinedOpt.
Extraction Language OCaml.
Set Extraction KeepSingleton.
Extraction "model.ml"
  le_bytes le_val bloom_hash
  bv_new bv_get bv_set bv_or
  bloom_new bloom_add bloom_contains_in_memory bloom_contains_fast bloom_to_raw bloom_contains_in_file
  bloom_contains bloom_merge bloom_offload bloom_clear
  init_storage step step_q spec_answer
  crc32c encode_header write_record blob_header_bytes entry_load decode_header validate_header
  gen_data meta_bytes be_bytes blob_file_bytes blob_headers closed_blobs
  serialize file_size get_latest_file get_all_file load_file count pm_push pm_get ih_header
  index_file_bytes range_empty range_add range_contains filters_bytes index_header_bytes cut_after_del
  step_evs judge judge_from ev_harmless ev_header_synced ev_index_after_sync dirty_of
  blob_open_scan dispose tool_validate_blob tool_recover index_open
  ch_new ch_step ch_offload ch_iter ch_mem ch_check cf_new cf_add range_bytes
  track cf_answer cfs_answer consulted cut_applies
  meta_ok meta_decodes
  oh_new oh_step oh_offload oh_iter oh_mem oh_check.
