(* Opening an index file byte-wise: Index::from_file = read_index_header + read_tree_meta + read_root +
   validate (src/blob/index/bptree/core.rs). The length check against leaves_offset + count * record_header_size was added by commit cb0b7cf of the code (finding F5); there is no hash check here (F17). *)
Require Import Pearl.Base.Prelude Pearl.Base.LE Pearl.Generated.Consts Pearl.Blob.Scan Pearl.Index.Bytes.

Inductive ierr := IEof | INotWritten | IVersion | IKeySize | IBlobSize | IMagic | IPanicOrEof | ICut.

Record iheader := { ih_magic : N; ih_count : N; ih_rhs : N; ih_msz : N; ih_hashlen : N; ih_ver : N; ih_ksz : N; ih_bsize : N }.

(* bincode(IndexHeader) with a 32-byte hash: fixed 83 bytes *)
Definition decode_index_header (b : bytes) : option iheader :=
  if (length b <? 83)%nat then None else
  Some {| ih_magic := u64_at b 0; ih_count := u64_at b 8; ih_rhs := u64_at b 16; ih_msz := u64_at b 24;
          ih_hashlen := u64_at b 32; ih_ver := nth 72 b 0; ih_ksz := le_val (firstn 2 (skipn 73 b)); ih_bsize := u64_at b 75 |}.

(* Ok (leaves_offset, tree_offset) when the file is trusted *)
Definition index_open (b : bytes) (K blob_size : N) : (N * N) + ierr :=
  match decode_index_header b with
  | None => inr IEof
  | Some h =>
    let meta_off := 83 + ih_msz h in
    if N.of_nat (length b) <? meta_off + 16 then inr IEof else     (* read_tree_meta *)
    let leaves_off := u64_at b (N.to_nat meta_off) in
    let tree_off := u64_at b (N.to_nat meta_off + 8) in
    (* the leaves are the last section: the file must reach leaves_offset + records_count * record_header_size
       (check added by commit cb0b7cf of the code; before it a file cut anywhere behind the tree meta was trusted: F5) *)
    if N.of_nat (length b) <? leaves_off + ih_count h * ih_rhs h then inr ICut else
    if N.of_nat (length b) <? tree_off then inr IPanicOrEof else      (* read_root: file.size() - root_offset, checked since commit of the code "tree offset behind its end" (an unexpected-EOF error; it used to overflow) *)
    (* validate *)
    if negb (N.testbit (ih_ver h) 0) then inr INotWritten
    else if negb (N.shiftr (ih_ver h) 1 =? HEADER_VERSION) then inr IVersion
    else if negb (ih_ksz h =? K) then inr IKeySize
    else if negb (ih_bsize h =? blob_size) then inr IBlobSize
    else if negb (ih_magic h =? INDEX_HEADER_MAGIC_BYTE) then inr IMagic
    else inl (leaves_off, tree_off)
  end.
