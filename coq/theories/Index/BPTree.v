(* L1: the on-disk B+tree index (src/blob/index/bptree/serializer.rs, core.rs, node.rs).
   Structured model: a file is {tree_offset; leaves_offset; nodes at byte offsets; record headers}.
   Byte offsets are computed from the sizes exactly as the serializer does, so that "which 4 KiB block a
   lookup reads" is represented faithfully; `index_bytes` gives the byte-level file.
   Parameters: B block size (real: BLOCK_SIZE = 4096), ksz key length, rhs record header size
   (real: 57 + ksz). Small B exercises deep trees. *)
Require Import Pearl.Base.Prelude.

Section BPT.
Variable H : Type.              (* a record header *)
Variable hkey : H -> N.         (* its key, ordered as the byte string *)
Variables (B ksz rhs : N).

Definition inmem := list (N * list H).   (* BTreeMap: keys strictly increasing; vectors non-empty, ascending ts *)

(* append_headers: every key's vector in reverse order (newest first) *)
Definition flat (m : inmem) : list H := flat_map (fun kv => rev (snd kv)) m.
Definition count (m : inmem) : N := N.of_nat (length (flat m)).

(* serialize_bptree: leaf packing by remaining block space *)
Definition leaf_step (st : N * N * N * N * list (N * N)) (kv : N * list H) :=
  let '(offset, remainder, min_k, min_o, acc) := st in
  let '(k, v) := kv in
  let '(remainder, min_k, min_o, acc) :=
    if remainder <? rhs then (B, k, offset, acc ++ [(min_k, min_o)]) else (remainder, min_k, min_o, acc) in
  let delta := N.of_nat (length v) * rhs in
  (offset + delta, remainder - delta (* saturating *), min_k, min_o, acc).

Definition leaves (m : inmem) : list (N * N) :=
  match m with
  | [] => []
  | (k0, _) :: _ =>
    let '(_, _, min_k, min_o, acc) := fold_left leaf_step m (0, B, k0, 0, []) in acc ++ [(min_k, min_o)]
  end.

(* non-leaf nodes *)
Record node := { nkeys : list N; noffs : list N }.
Definition node_size (nk : N) : N := 8 + ksz * nk + 8 * (nk + 1).   (* serialized_size_with_keys *)
Definition max_amount : N := (B - 8 - 8) / (ksz + 8) + 1.            (* max_nonleaf_node_capacity *)
Definition min_amount : N := (max_amount - 1) / 2 + 1.

(* the grouping loop shared by collect_next_layer_nodes and shift_all_and_write *)
Fixpoint groups (fuel : nat) (arr : list (N * N)) : list (list (N * N)) :=
  match fuel with
  | O => [arr]
  | S f =>
    let len := N.of_nat (length arr) in
    if max_amount <? len then
      let amount := N.min max_amount (len - min_amount) in
      firstn (N.to_nat amount) arr :: groups f (skipn (N.to_nat amount) arr)
    else [arr]
  end.
Definition mk_groups arr := groups (length arr) arr.

Definition next_layer (arr : list (N * N)) : list (N * N) * N :=
  fold_left (fun '(acc, off) g => (acc ++ [(fst (hd (0, 0) g), off)], off + node_size (N.of_nat (length g) - 1)))
            (mk_groups arr) ([], 0).
Definition write_layer (arr : list (N * N)) (base : N) : list node :=
  map (fun g => {| nkeys := map fst (tl g); noffs := map (fun kv => snd kv + base) g |}) (mk_groups arr).
Definition nodes_size (ns : list node) : N :=
  fold_left (fun a n => a + node_size (N.of_nat (length (nkeys n)))) ns 0.

(* build_tree: upper layers first (recursively), then this layer shifted by what precedes it *)
Fixpoint build_tree (fuel : nat) (arr : list (N * N)) (tree_offset : N) (buf : list node) : list node :=
  match fuel with
  | O => buf
  | S f =>
    match arr with
    | [] | [_] => buf
    | _ =>
      let '(new_nodes, layer_size) := next_layer arr in
      let buf := build_tree f new_nodes tree_offset buf in
      let base := tree_offset + layer_size + nodes_size buf in
      buf ++ write_layer arr base
    end
  end.

Record file := { tree_offset : N; leaves_offset : N; nodes : list node; recs : list H; f_count : N }.

Definition serialize (hdr_end : N) (m : inmem) : file :=
  let ns := build_tree (length m) (leaves m) hdr_end [] in
  {| tree_offset := hdr_end; leaves_offset := hdr_end + nodes_size ns; nodes := ns; recs := flat m;
     f_count := count m |}.
Definition file_size (f : file) : N := leaves_offset f + N.of_nat (length (recs f)) * rhs.

(* ---------- reading ---------- *)
Fixpoint node_at_aux (ns : list node) (cur off : N) : option node :=
  match ns with
  | [] => None
  | n :: r => if cur =? off then Some n else node_at_aux r (cur + node_size (N.of_nat (length (nkeys n)))) off
  end.
(* the root is cached when the file is opened; any other node is read as a full B-byte block, which
   fails at EOF; a node is parsed from the first B bytes only *)
Definition node_at (f : file) (off : N) : option node :=
  match node_at_aux (nodes f) (tree_offset f) off with
  | Some n =>
    if (node_size (N.of_nat (length (nkeys n))) <=? B) && ((off =? tree_offset f) || (off + B <=? file_size f))
    then Some n else None
  | None => None
  end.
(* key_offset_serialized: the child at index #{keys <= k} *)
Definition child (n : node) (k : N) : N :=
  nth (length (filter (fun x => x <=? k) (nkeys n))) (noffs n) 0.
Fixpoint find_leaf (fuel : nat) (f : file) (k off : N) : option N :=
  if off <? leaves_offset f then
    match fuel with
    | O => None
    | S fu => match node_at f off with Some n => find_leaf fu f k (child n k) | None => None end
    end
  else Some off.

(* leaf buffer: the whole records inside min(file_size - leaf_off, B) bytes *)
Definition buf_recs (f : file) (leaf_off : N) : N * list H :=
  let idx0 := (leaf_off - leaves_offset f) / rhs in
  let nbytes := N.min (file_size f - leaf_off) B in
  (idx0, firstn (N.to_nat (nbytes / rhs)) (skipn (N.to_nat idx0) (recs f))).

(* read_header_buf: exact binary search on the key, returns an index in the buffer *)
Fixpoint bsearch (fuel : nat) (buf : list H) (k : N) (l r : Z) : option nat :=
  match fuel with
  | O => None
  | S fu =>
    if (r <? l)%Z then None else
      let m := ((l + r) / 2)%Z in
      match nth_error buf (Z.to_nat m) with
      | None => None
      | Some h => if k <? hkey h then bsearch fu buf k l (m - 1)%Z
                  else if hkey h <? k then bsearch fu buf k (m + 1)%Z r else Some (Z.to_nat m)
      end
  end.
(* get_leftmost: walk left while the key matches *)
Fixpoint leftmost (buf : list H) (k : N) (i : nat) : nat :=
  match i with
  | O => O
  | S j => match nth_error buf j with Some h => if hkey h =? k then leftmost buf k j else i | None => i end
  end.

Definition get_latest_file (f : file) (k : N) : option H :=
  match find_leaf (S (length (nodes f))) f k (tree_offset f) with
  | None => None
  | Some lo =>
    let '(_, buf) := buf_recs f lo in
    match bsearch (S (length buf)) buf k 0 (Z.of_nat (length buf) - 1) with
    | None => None
    | Some i => nth_error buf (leftmost buf k i)
    end
  end.

(* read_headers: go_left inside the buffer, go_right inside the buffer and on in the file (up to
   leaves_end): the contiguous run of the key starting at its leftmost record in the buffer *)
Fixpoint take_while_key (l : list H) (k : N) : list H :=
  match l with h :: r => if hkey h =? k then h :: take_while_key r k else [] | [] => [] end.
Definition get_all_file (f : file) (k : N) : option (list H) :=
  match find_leaf (S (length (nodes f))) f k (tree_offset f) with
  | None => None
  | Some lo =>
    let '(idx0, buf) := buf_recs f lo in
    match bsearch (S (length buf)) buf k 0 (Z.of_nat (length buf) - 1) with
    | None => None
    | Some i => Some (take_while_key (skipn (N.to_nat idx0 + leftmost buf k i) (firstn (N.to_nat (f_count f)) (recs f))) k)
    end
  end.

(* get_records_headers: group consecutive records by key, reverse each run *)
Fixpoint load_aux (l : list H) (cur : option (N * list H)) (acc : inmem) : inmem :=
  match l with
  | [] => match cur with Some (k, v) => acc ++ [(k, v)] | None => acc end
  | h :: r =>
    match cur with
    | Some (k, v) => if hkey h =? k then load_aux r (Some (k, h :: v)) acc
                     else load_aux r (Some (hkey h, [h])) (acc ++ [(k, v)])
    | None => load_aux r (Some (hkey h, [h])) acc
    end
  end.
Definition load_file (f : file) : inmem := load_aux (firstn (N.to_nat (f_count f)) (recs f)) None [].

(* ---------- in-memory answers ---------- *)
Fixpoint lookup (m : inmem) (k : N) : option (list H) :=
  match m with [] => None | (k', v) :: r => if k' =? k then Some v else lookup r k end.
Definition get_latest_mem (m : inmem) (k : N) : option H :=
  match lookup m k with Some v => match rev v with h :: _ => Some h | [] => None end | None => None end.
Definition get_all_mem (m : inmem) (k : N) : option (list H) :=
  match lookup m k with Some v => Some (rev v) | None => None end.

End BPT.

Arguments tree_offset {H}. Arguments leaves_offset {H}. Arguments nodes {H}. Arguments recs {H}. Arguments f_count {H}.
