(* Index files are trusted only when they belong to the blob and are complete (Index/Open.v).
   Depends on Format/RecordProofs.v for list lemmas and on Index/BPTreeProofs.v for the sizes of tree nodes. *)
Require Import Pearl.Base.Prelude Pearl.Base.LE Pearl.Base.LEProofs Pearl.Generated.Consts
               Pearl.Format.Record Pearl.Format.RecordProofs Pearl.Index.BPTree Pearl.Index.BPTreeProofs
               Pearl.Blob.Bytes Pearl.Blob.Scan Pearl.Index.Bytes Pearl.Index.Open.

(* ------------------------------------------------------------------------------------------------ *)
(* helpers                                                                                          *)
(* ------------------------------------------------------------------------------------------------ *)

Lemma le16_length x : length (le16 x) = 2%nat. Proof. apply le_bytes_length. Qed.
Lemma le16_val x : x < 2^16 -> le_val (le16 x) = x.
Proof. intros H. apply (le_val_bytes 2). exact H. Qed.

Lemma firstn_skipn_firstn' {A} (b : list A) n o k :
  (o + k <= n)%nat -> firstn k (skipn o (firstn n b)) = firstn k (skipn o b).
Proof.
  intros H. rewrite skipn_firstn_comm, firstn_firstn.
  replace (Nat.min k (n - o)) with k by lia. reflexivity.
Qed.

Lemma u64_at_firstn' b n o : (o + 8 <= n)%nat -> u64_at (firstn n b) o = u64_at b o.
Proof. intros H. unfold u64_at. rewrite firstn_skipn_firstn' by exact H. reflexivity. Qed.

Lemma u64_at_app (a : bytes) (x : N) (c : bytes) (o : nat) : length a = o -> x < 2^64 -> u64_at (a ++ le64 x ++ c) o = x.
Proof. intros Ha Hx. unfold u64_at. rewrite (field_at a (le64 x) c o 8 Ha (le64_length x)). apply le64_val, Hx. Qed.

Lemma ver_bit (w : bool) : N.testbit (HEADER_VERSION * 2 + (if w then 1 else 0)) 0 = w.
Proof. destruct w; reflexivity. Qed.
Lemma ver_shift (w : bool) : N.shiftr (HEADER_VERSION * 2 + (if w then 1 else 0)) 1 = HEADER_VERSION.
Proof. destruct w; reflexivity. Qed.

(* ------------------------------------------------------------------------------------------------ *)
(* fields of a file that starts with an index header                                                *)
(* ------------------------------------------------------------------------------------------------ *)

Section Fields.
Variables (c r ms : N) (hash : bytes) (w : bool) (k bs : N) (T : bytes).
Hypothesis Hh : length hash = 32%nat.
Let F := index_header_bytes c r ms hash w k bs ++ T.

Lemma ihb_length : length (index_header_bytes c r ms hash w k bs) = 83%nat.
Proof. unfold index_header_bytes. rewrite !app_length, !le64_length, le16_length, Hh. reflexivity. Qed.

Ltac skip_ih :=
  unfold F, index_header_bytes; rewrite <- !app_assoc;
  rewrite !skipn_app_len by (first [apply le64_length | apply le16_length | exact Hh | reflexivity]);
  cbn [skipn].

Lemma F_magic : u64_at F 0 = INDEX_HEADER_MAGIC_BYTE.
Proof.
  unfold u64_at. cbn [skipn]. unfold F, index_header_bytes. rewrite <- !app_assoc.
  rewrite firstn_app_len by apply le64_length. apply le64_val. reflexivity.
Qed.

Lemma F_count : c < 2^64 -> u64_at F 8 = c.
Proof.
  intros H. unfold u64_at. replace 8%nat with (8 + 0)%nat by reflexivity. skip_ih.
  rewrite firstn_app_len by apply le64_length. apply le64_val, H.
Qed.

Lemma F_rhs : r < 2^64 -> u64_at F 16 = r.
Proof.
  intros H. unfold u64_at. replace 16%nat with (8 + (8 + 0))%nat by reflexivity. skip_ih.
  rewrite firstn_app_len by apply le64_length. apply le64_val, H.
Qed.

Lemma F_msz : ms < 2^64 -> u64_at F 24 = ms.
Proof.
  intros H. unfold u64_at. replace 24%nat with (8 + (8 + (8 + 0)))%nat by reflexivity. skip_ih.
  rewrite firstn_app_len by apply le64_length. apply le64_val, H.
Qed.

Lemma F_ver : nth 72 F 0 = HEADER_VERSION * 2 + (if w then 1 else 0).
Proof.
  rewrite nth_skipn0. replace 72%nat with (8 + (8 + (8 + (8 + (8 + (32 + 0))))))%nat by reflexivity. skip_ih.
  reflexivity.
Qed.

Lemma F_ksz : k < 2^16 -> le_val (firstn 2 (skipn 73 F)) = k.
Proof.
  intros H. replace 73%nat with (8 + (8 + (8 + (8 + (8 + (32 + (1 + 0)))))))%nat by reflexivity. skip_ih.
  rewrite firstn_app_len by apply le16_length. apply le16_val, H.
Qed.

Lemma F_bsize : bs < 2^64 -> u64_at F 75 = bs.
Proof.
  intros H. unfold u64_at. replace 75%nat with (8 + (8 + (8 + (8 + (8 + (32 + (1 + (2 + 0))))))))%nat by reflexivity.
  skip_ih. rewrite firstn_app_len by apply le64_length. apply le64_val, H.
Qed.
End Fields.

(* ------------------------------------------------------------------------------------------------ *)
(* opening any file that starts with header ++ meta ++ TreeMeta                                     *)
(* ------------------------------------------------------------------------------------------------ *)

Definition open_result (c r : N) (written : bool) (K' bsize lo to : N) (len : nat) (K bs : N) : (N * N) + ierr :=
  if N.of_nat len <? lo + c * r then inr ICut
  else if N.of_nat len <? to then inr IPanicOrEof
  else if negb written then inr INotWritten
  else if negb (K' =? K) then inr IKeySize
  else if negb (bsize =? bs) then inr IBlobSize
  else inl (lo, to).

Lemma index_open_gen c r hash w K' bsize meta lo to rest K bs :
  length hash = 32%nat -> c < 2^64 -> r < 2^64 -> N.of_nat (length meta) < 2^64 -> K' < 2^16 -> bsize < 2^64 ->
  lo < 2^64 -> to < 2^64 ->
  index_open (index_header_bytes c r (N.of_nat (length meta)) hash w K' bsize ++ meta ++ le64 lo ++ le64 to ++ rest) K bs
  = open_result c r w K' bsize lo to (83 + length meta + 16 + length rest) K bs.
Proof.
  intros Hh Hc Hr Hm HK Hb Hlo Hto.
  set (IH := index_header_bytes c r (N.of_nat (length meta)) hash w K' bsize).
  set (T := meta ++ le64 lo ++ le64 to ++ rest).
  assert (HlI : length IH = 83%nat) by (apply ihb_length, Hh).
  assert (HlF : length (IH ++ T) = (83 + length meta + 16 + length rest)%nat).
  { subst T. rewrite !app_length, HlI, !le64_length. lia. }
  unfold index_open, decode_index_header. rewrite HlF.
  destruct (Nat.ltb_spec (83 + length meta + 16 + length rest) 83) as [C|_]; [lia|].
  cbn [ih_magic ih_count ih_rhs ih_msz ih_ver ih_ksz ih_bsize].
  subst IH. rewrite F_magic, F_count, F_rhs, F_msz, F_ver, F_ksz, F_bsize by assumption.
  set (IH := index_header_bytes c r (N.of_nat (length meta)) hash w K' bsize) in *.
  destruct (N.ltb_spec (N.of_nat (83 + length meta + 16 + length rest)) (83 + N.of_nat (length meta) + 16)) as [C|_]; [lia|].
  replace (N.to_nat (83 + N.of_nat (length meta))) with (83 + length meta)%nat by lia.
  assert (E1 : u64_at (IH ++ T) (83 + length meta) = lo).
  { subst T. rewrite (app_assoc IH meta). apply u64_at_app; [rewrite app_length, HlI; reflexivity|exact Hlo]. }
  assert (E2 : u64_at (IH ++ T) (83 + length meta + 8) = to).
  { subst T. rewrite (app_assoc IH meta), (app_assoc (IH ++ meta) (le64 lo)).
    apply u64_at_app; [rewrite !app_length, HlI, le64_length; reflexivity|exact Hto]. }
  rewrite E1, E2, ver_bit, ver_shift, !N.eqb_refl. cbn [negb]. unfold open_result. reflexivity.
Qed.

(* ------------------------------------------------------------------------------------------------ *)
(* the size of a serialized tree: every node has one offset more than keys                         *)
(* ------------------------------------------------------------------------------------------------ *)

Definition node_good (n : node) : Prop := length (noffs n) = S (length (nkeys n)).

Lemma amount_ge_1 B ksz : 1 <= max_amount B ksz /\ 1 <= min_amount B ksz <= max_amount B ksz.
Proof.
  unfold min_amount, max_amount. set (q := (B - 8 - 8) / (ksz + 8)).
  replace (q + 1 - 1) with q by lia.
  assert (Hq : q / 2 <= q) by (apply N.div_le_upper_bound; lia).
  clearbody q. revert Hq. generalize (q / 2). intros h Hq. lia.
Qed.

Lemma groups_all_nonempty B ksz : forall fuel arr, arr <> [] -> Forall (fun g => g <> []) (groups B ksz fuel arr).
Proof.
  pose proof (amount_ge_1 B ksz) as (Hmax & Hmin1 & Hmin2).
  induction fuel as [|f IH]; intros arr Hne.
  - cbn [groups]. constructor; [exact Hne|constructor].
  - rewrite groups_S. destruct (N.ltb_spec (max_amount B ksz) (N.of_nat (length arr))) as [E|E].
    + set (a := N.to_nat (N.min (max_amount B ksz) (N.of_nat (length arr) - min_amount B ksz))).
      assert (Ha : (1 <= a < length arr)%nat) by lia.
      constructor.
      * apply length_ne. rewrite firstn_length. lia.
      * apply IH. apply length_ne. rewrite skipn_length. lia.
    + constructor; [exact Hne|constructor].
Qed.

Lemma mknode_good base g : g <> [] -> node_good (mknode base g).
Proof.
  intros Hg. unfold node_good, mknode. cbn [nkeys noffs]. rewrite !map_length.
  destruct g as [|e g]; [congruence|reflexivity].
Qed.

Lemma build_tree_good B ksz : forall fuel arr to buf,
  Forall node_good buf -> Forall node_good (build_tree B ksz fuel arr to buf).
Proof.
  induction fuel as [|f IH]; intros arr to buf Hbuf; [exact Hbuf|].
  destruct arr as [|a [|b arr]]; [exact Hbuf|exact Hbuf|].
  cbn [build_tree]. destruct (next_layer B ksz (a :: b :: arr)) as [nn ls].
  apply Forall_app. split; [apply IH, Hbuf|].
  rewrite write_layer_eq. apply Forall_forall. intros n Hn.
  apply in_map_iff in Hn. destruct Hn as (g & <- & Hg). apply mknode_good.
  pose proof (groups_all_nonempty B ksz (length (a :: b :: arr)) (a :: b :: arr)) as Hall.
  rewrite Forall_forall in Hall. apply Hall; [discriminate|exact Hg].
Qed.

Lemma flat_map_const_length {A} (f : A -> bytes) (c : nat) (l : list A) :
  (forall x, length (f x) = c) -> length (flat_map f l) = (length l * c)%nat.
Proof.
  intros Hf. induction l as [|x l IHl]; cbn [flat_map length]; [reflexivity|].
  rewrite app_length, Hf, IHl. lia.
Qed.

Lemma be_bytes_length : forall n v, length (be_bytes n v) = n.
Proof.
  induction n as [|n IHn]; intros v; cbn [be_bytes]; [reflexivity|].
  rewrite app_length, IHn. cbn [length]. lia.
Qed.

Lemma node_bytes_length K n : node_good n -> N.of_nat (length (node_bytes K n)) = nsz K n.
Proof.
  intros Hg. unfold node_bytes, nsz, node_size.
  rewrite !app_length, le64_length.
  rewrite (flat_map_const_length (be_bytes (N.to_nat K)) (N.to_nat K)) by (intros x; apply be_bytes_length).
  rewrite (flat_map_const_length le64 8) by apply le64_length.
  rewrite Hg. lia.
Qed.

Lemma nodes_bytes_length K ns : Forall node_good ns -> N.of_nat (length (flat_map (node_bytes K) ns)) = nodes_size K ns.
Proof.
  induction 1 as [|n ns Hn _ IHns]; [reflexivity|].
  cbn [flat_map]. rewrite app_length, nodes_size_cons, <- IHns, <- (node_bytes_length K n Hn). lia.
Qed.

Lemma ih_header_bytes_length K h : length (encode_header (ih_header K h)) = (57 + N.to_nat K)%nat.
Proof. rewrite encode_header_length. unfold ih_header, with_hcrc. cbn [h_key]. rewrite be_bytes_length. reflexivity. Qed.

(* ------------------------------------------------------------------------------------------------ *)
(* index_file_bytes                                                                                 *)
(* ------------------------------------------------------------------------------------------------ *)

(* the serialize result used inside index_file_bytes *)
Definition idx_file (K : N) (meta : bytes) (m : inmem ih) : file ih :=
  serialize ih BLOCK_SIZE K (57 + K) (INDEX_HEADER_SIZE + N.of_nat (length meta) + 16) m.

Definition idx_tail (K : N) (meta : bytes) (m : inmem ih) : bytes :=
  flat_map (node_bytes K) (nodes (idx_file K meta m))
  ++ flat_map (fun h => encode_header (ih_header K h)) (recs (idx_file K meta m)).

Lemma index_file_bytes_eq K hash written meta m bsize :
  index_file_bytes K hash written meta m bsize =
  index_header_bytes (count ih m) (57 + K) (N.of_nat (length meta)) hash written K bsize
  ++ meta ++ le64 (leaves_offset (idx_file K meta m)) ++ le64 (tree_offset (idx_file K meta m)) ++ idx_tail K meta m.
Proof. reflexivity. Qed.

Lemma idx_tree_offset K meta m : tree_offset (idx_file K meta m) = 83 + N.of_nat (length meta) + 16.
Proof. reflexivity. Qed.

Lemma idx_offsets_le K meta m : tree_offset (idx_file K meta m) <= leaves_offset (idx_file K meta m).
Proof. unfold idx_file, serialize. cbn [tree_offset leaves_offset]. lia. Qed.

(* the leaves are the last section: a complete file has exactly leaves_offset + count * record_header_size bytes *)
Lemma idx_file_nodes_good K meta m : Forall node_good (nodes (idx_file K meta m)).
Proof. unfold idx_file, serialize. cbn [nodes]. apply build_tree_good. constructor. Qed.

Lemma idx_tail_length K meta m :
  N.of_nat (length (idx_tail K meta m))
  = leaves_offset (idx_file K meta m) - tree_offset (idx_file K meta m) + count ih m * (57 + K).
Proof.
  unfold idx_tail. rewrite app_length, Nnat.Nat2N.inj_add, (nodes_bytes_length K _ (idx_file_nodes_good K meta m)).
  rewrite (flat_map_const_length _ (57 + N.to_nat K)) by (intros x; apply ih_header_bytes_length).
  unfold idx_file, serialize, count. cbn [nodes recs leaves_offset tree_offset].
  lia.
Qed.

Theorem index_file_length : forall K hash written meta m bsize, length hash = 32%nat ->
  N.of_nat (length (index_file_bytes K hash written meta m bsize))
  = leaves_offset (idx_file K meta m) + count ih m * (57 + K).
Proof.
  intros K hash written meta m bsize Hh. rewrite index_file_bytes_eq.
  rewrite !app_length, (ihb_length _ _ _ _ _ _ _ Hh), !le64_length, !Nnat.Nat2N.inj_add, idx_tail_length.
  pose proof (idx_offsets_le K meta m) as Hle. rewrite idx_tree_offset in *. lia.
Qed.

(* side conditions: the hash has 32 bytes, the key size fits u16, the blob size and the size of the index
   file (hence also the record count, the leaves offset, the tree offset and the meta length) fit u64 *)
Definition idx_ok (K : N) (hash meta : bytes) (m : inmem ih) (bsize : N) : Prop :=
  length hash = 32%nat /\ K < 2^16 /\ bsize < 2^64 /\
  leaves_offset (idx_file K meta m) + count ih m * (57 + K) < 2^64.

Lemma idx_ok_sizes K hash meta m bsize : idx_ok K hash meta m bsize ->
  count ih m < 2^64 /\ 57 + K < 2^64 /\ N.of_nat (length meta) < 2^64 /\
  leaves_offset (idx_file K meta m) < 2^64 /\ tree_offset (idx_file K meta m) < 2^64.
Proof.
  intros (_ & HK & _ & Hl). pose proof (idx_offsets_le K meta m) as Hle.
  pose proof (idx_tree_offset K meta m) as Ht.
  assert (Hc : count ih m <= count ih m * (57 + K)) by nia.
  change (2^16) with 65536 in HK. change (2^64) with 18446744073709551616 in *. repeat split; lia.
Qed.

(* any file that starts like the produced one, in terms of its length *)
Lemma index_open_file_gen K hash written meta m bsize K0 bs rest :
  idx_ok K hash meta m bsize ->
  index_open (index_header_bytes (count ih m) (57 + K) (N.of_nat (length meta)) hash written K bsize
              ++ meta ++ le64 (leaves_offset (idx_file K meta m)) ++ le64 (tree_offset (idx_file K meta m)) ++ rest) K0 bs
  = if N.of_nat (83 + length meta + 16 + length rest) <? leaves_offset (idx_file K meta m) + count ih m * (57 + K)
    then inr ICut
    else if negb written then inr INotWritten
    else if negb (K =? K0) then inr IKeySize
    else if negb (bsize =? bs) then inr IBlobSize
    else inl (leaves_offset (idx_file K meta m), tree_offset (idx_file K meta m)).
Proof.
  intros Hok. pose proof (idx_ok_sizes _ _ _ _ _ Hok) as (Hc & Hr & Hm & Hl & Ht). destruct Hok as (Hh & HK & Hb & _).
  rewrite index_open_gen by assumption. unfold open_result.
  destruct (N.ltb_spec (N.of_nat (83 + length meta + 16 + length rest))
                       (leaves_offset (idx_file K meta m) + count ih m * (57 + K))) as [_|_]; [reflexivity|].
  destruct (N.ltb_spec (N.of_nat (83 + length meta + 16 + length rest)) (tree_offset (idx_file K meta m))) as [C|_];
    [rewrite idx_tree_offset in C; lia|reflexivity].
Qed.

(* the produced file itself *)
Lemma index_open_file K hash written meta m bsize K0 bs :
  idx_ok K hash meta m bsize ->
  index_open (index_file_bytes K hash written meta m bsize) K0 bs
  = if negb written then inr INotWritten
    else if negb (K =? K0) then inr IKeySize
    else if negb (bsize =? bs) then inr IBlobSize
    else inl (leaves_offset (idx_file K meta m), tree_offset (idx_file K meta m)).
Proof.
  intros Hok. pose proof (index_file_length K hash written meta m bsize (proj1 Hok)) as Hlen.
  rewrite index_file_bytes_eq in *. rewrite index_open_file_gen by exact Hok.
  rewrite !app_length, (ihb_length _ _ _ _ _ _ _ (proj1 Hok)), !le64_length in Hlen.
  destruct (N.ltb_spec (N.of_nat (83 + length meta + 16 + length (idx_tail K meta m)))
                       (leaves_offset (idx_file K meta m) + count ih m * (57 + K))) as [C|_]; [lia|reflexivity].
Qed.

Theorem index_open_accepts : forall K hash meta m bsize, idx_ok K hash meta m bsize ->
  index_open (index_file_bytes K hash true meta m bsize) K bsize
  = inl (leaves_offset (idx_file K meta m), tree_offset (idx_file K meta m)).
Proof.
  intros K hash meta m bsize Hok. rewrite index_open_file by exact Hok.
  rewrite !N.eqb_refl. reflexivity.
Qed.

Theorem index_open_rejects_unwritten : forall K hash meta m bsize K0 bs, idx_ok K hash meta m bsize ->
  index_open (index_file_bytes K hash false meta m bsize) K0 bs = inr INotWritten.
Proof.
  intros K hash meta m bsize K0 bs Hok. rewrite index_open_file by exact Hok. reflexivity.
Qed.

Theorem index_open_rejects_stale : forall K hash meta m bsize bsize', idx_ok K hash meta m bsize ->
  bsize' <> bsize -> index_open (index_file_bytes K hash true meta m bsize) K bsize' = inr IBlobSize.
Proof.
  intros K hash meta m bsize bsize' Hok Hne. rewrite index_open_file by exact Hok.
  rewrite N.eqb_refl. cbn [negb]. destruct (N.eqb_spec bsize bsize') as [E|_]; [congruence|reflexivity].
Qed.

Theorem index_open_rejects_other_key_size : forall K hash meta m bsize K0 bs, idx_ok K hash meta m bsize ->
  K0 <> K -> index_open (index_file_bytes K hash true meta m bsize) K0 bs = inr IKeySize.
Proof.
  intros K hash meta m bsize K0 bs Hok Hne. rewrite index_open_file by exact Hok.
  cbn [negb]. destruct (N.eqb_spec K K0) as [E|_]; [congruence|reflexivity].
Qed.

(* a file cut inside header, meta or TreeMeta is rejected (always with IEof) *)
Theorem index_open_rejects_short : forall K hash written meta m bsize K0 bs n, idx_ok K hash meta m bsize ->
  (n < 83 + length meta + 16)%nat ->
  index_open (firstn n (index_file_bytes K hash written meta m bsize)) K0 bs = inr IEof.
Proof.
  intros K hash written meta m bsize K0 bs n Hok Hn.
  pose proof (idx_ok_sizes _ _ _ _ _ Hok) as (Hc & Hr & Hm & Hl & Ht). destruct Hok as (Hh & HK & Hb & _).
  rewrite index_file_bytes_eq.
  set (T := meta ++ _).
  set (IH := index_header_bytes _ _ _ _ _ _ _).
  assert (HlF : (83 + length meta + 16 <= length (IH ++ T))%nat).
  { subst T IH. rewrite !app_length, ihb_length, !le64_length by exact Hh. lia. }
  assert (Hlb : length (firstn n (IH ++ T)) = n) by (rewrite firstn_length; lia).
  unfold index_open, decode_index_header. rewrite Hlb.
  destruct (Nat.ltb_spec n 83) as [_|H83]; [reflexivity|].
  cbn [ih_msz]. rewrite u64_at_firstn' by lia.
  subst IH. rewrite F_msz by assumption.
  destruct (N.ltb_spec (N.of_nat n) (83 + N.of_nat (length meta) + 16)) as [_|C]; [reflexivity|lia].
Qed.

(* a file cut anywhere behind the TreeMeta -- inside the tree nodes or the record headers -- is rejected by the
   length check (before commit cb0b7cf of the code every such file was trusted with the offsets of the complete
   one: finding F5) *)
Theorem index_open_rejects_cut : forall K hash written meta m bsize K0 bs n, idx_ok K hash meta m bsize ->
  (83 + length meta + 16 <= n)%nat -> (n < length (index_file_bytes K hash written meta m bsize))%nat ->
  index_open (firstn n (index_file_bytes K hash written meta m bsize)) K0 bs = inr ICut.
Proof.
  intros K hash written meta m bsize K0 bs n Hok Hn Hlt.
  pose proof (index_file_length K hash written meta m bsize (proj1 Hok)) as Hlen.
  rewrite index_file_bytes_eq in *.
  set (IH := index_header_bytes _ _ _ _ _ _ _) in *.
  set (lo := leaves_offset _) in *. set (to := tree_offset _) in *.
  assert (HlI : length IH = 83%nat) by (apply ihb_length, Hok).
  assert (E : firstn n (IH ++ meta ++ le64 lo ++ le64 to ++ idx_tail K meta m)
              = IH ++ meta ++ le64 lo ++ le64 to ++ firstn (n - (83 + length meta + 16)) (idx_tail K meta m)).
  { rewrite !(app_assoc _ _ (idx_tail K meta m)), !(app_assoc _ _ (firstn _ (idx_tail K meta m))).
    rewrite firstn_app, firstn_all2 by (rewrite !app_length, HlI, !le64_length; lia).
    rewrite !app_length, HlI, !le64_length.
    replace (83 + (length meta + (8 + 8)))%nat with (83 + length meta + 16)%nat by lia. reflexivity. }
  rewrite !app_length, HlI, !le64_length in Hlt, Hlen.
  rewrite E. subst IH lo to. rewrite index_open_file_gen by exact Hok.
  rewrite firstn_length.
  destruct (N.ltb_spec (N.of_nat (83 + length meta + 16 + Nat.min (n - (83 + length meta + 16)) (length (idx_tail K meta m))))
                       (leaves_offset (idx_file K meta m) + count ih m * (57 + K))) as [_|C]; [reflexivity|lia].
Qed.

(* EVERY proper prefix of a produced index file is rejected *)
Theorem index_open_rejects_truncated : forall K hash written meta m bsize K0 bs n, idx_ok K hash meta m bsize ->
  (n < length (index_file_bytes K hash written meta m bsize))%nat ->
  exists e, index_open (firstn n (index_file_bytes K hash written meta m bsize)) K0 bs = inr e.
Proof.
  intros K hash written meta m bsize K0 bs n Hok Hlt.
  destruct (Nat.lt_ge_cases n (83 + length meta + 16)) as [Hs|Hs].
  - exists IEof. apply index_open_rejects_short; assumption.
  - exists ICut. apply index_open_rejects_cut; assumption.
Qed.

(* concrete files for the computed examples of Properties/C03.v: three records under two keys (no tree node),
   and 200 keys (one tree node in front of the leaves) *)
Definition ex_rec (k ts : N) : ih := {| ih_key := k; ih_ts := ts; ih_del := false; ih_msize := 0; ih_dsize := 3; ih_off := 0 |}.
Definition ex_map3 : inmem ih := pm_push (pm_push (pm_push [] (ex_rec 5 1)) (ex_rec 7 2)) (ex_rec 5 3).
Fixpoint ex_many (n : nat) (m : inmem ih) : inmem ih :=
  match n with O => m | S k => ex_many k (pm_push m (ex_rec (N.of_nat n) 1)) end.
Definition ex_index3 : bytes := index_file_bytes 4 (repeat 0 32) true [1; 2; 3] ex_map3 1000.
Definition ex_index200 : bytes := index_file_bytes 4 (repeat 0 32) true [1; 2; 3] (ex_many 200 []) 1000.

Print Assumptions index_file_length.
Print Assumptions index_open_accepts.
Print Assumptions index_open_rejects_unwritten.
Print Assumptions index_open_rejects_stale.
Print Assumptions index_open_rejects_other_key_size.
Print Assumptions index_open_rejects_short.
Print Assumptions index_open_rejects_cut.
Print Assumptions index_open_rejects_truncated.
