(* Index files are trusted only when they belong to the blob -- and where that fails (Index/Open.v).
   Self-contained: depends on Format/RecordProofs.v for list lemmas only. *)
Require Import Pearl.Base.Prelude Pearl.Base.LE Pearl.Base.LEProofs Pearl.Generated.Consts
               Pearl.Format.Record Pearl.Format.RecordProofs Pearl.Index.BPTree Pearl.Blob.Scan
               Pearl.Index.Bytes Pearl.Index.Open.

(* ------------------------------------------------------------------------------------------------ *)
(* helpers                                                                                          *)
(* ------------------------------------------------------------------------------------------------ *)

Lemma le16_length x : length (le16 x) = 2%nat. Proof. apply le_bytes_length. Qed.
Lemma le16_val x : x < 2^16 -> le_val (le16 x) = x.
Proof. intros H. apply (le_val_bytes 2). exact H. Qed.

Lemma firstn_skipn_firstn' {A} (b : list A) n o k :
  (o + k <= n)%nat -> firstn k (skipn o (firstn n b)) = firstn k (skipn o b).
Proof.
  intros H. rewrite skipn_firstn_comm, firstn_firstn.
  replace (Nat.min k (n - o)) with k by lia. reflexivity.
Qed.

Lemma u64_at_firstn' b n o : (o + 8 <= n)%nat -> u64_at (firstn n b) o = u64_at b o.
Proof. intros H. unfold u64_at. rewrite firstn_skipn_firstn' by exact H. reflexivity. Qed.

Lemma u64_at_app (a : bytes) (x : N) (c : bytes) (o : nat) : length a = o -> x < 2^64 -> u64_at (a ++ le64 x ++ c) o = x.
Proof. intros Ha Hx. unfold u64_at. rewrite (field_at a (le64 x) c o 8 Ha (le64_length x)). apply le64_val, Hx. Qed.

Lemma ver_bit (w : bool) : N.testbit (HEADER_VERSION * 2 + (if w then 1 else 0)) 0 = w.
Proof. destruct w; reflexivity. Qed.
Lemma ver_shift (w : bool) : N.shiftr (HEADER_VERSION * 2 + (if w then 1 else 0)) 1 = HEADER_VERSION.
Proof. destruct w; reflexivity. Qed.

(* ------------------------------------------------------------------------------------------------ *)
(* fields of a file that starts with an index header                                                *)
(* ------------------------------------------------------------------------------------------------ *)

Section Fields.
Variables (c r ms : N) (hash : bytes) (w : bool) (k bs : N) (T : bytes).
Hypothesis Hh : length hash = 32%nat.
Let F := index_header_bytes c r ms hash w k bs ++ T.

Lemma ihb_length : length (index_header_bytes c r ms hash w k bs) = 83%nat.
Proof. unfold index_header_bytes. rewrite !app_length, !le64_length, le16_length, Hh. reflexivity. Qed.

Ltac skip_ih :=
  unfold F, index_header_bytes; rewrite <- !app_assoc;
  rewrite !skipn_app_len by (first [apply le64_length | apply le16_length | exact Hh | reflexivity]);
  cbn [skipn].

Lemma F_magic : u64_at F 0 = INDEX_HEADER_MAGIC_BYTE.
Proof.
  unfold u64_at. cbn [skipn]. unfold F, index_header_bytes. rewrite <- !app_assoc.
  rewrite firstn_app_len by apply le64_length. apply le64_val. reflexivity.
Qed.

Lemma F_msz : ms < 2^64 -> u64_at F 24 = ms.
Proof.
  intros H. unfold u64_at. replace 24%nat with (8 + (8 + (8 + 0)))%nat by reflexivity. skip_ih.
  rewrite firstn_app_len by apply le64_length. apply le64_val, H.
Qed.

Lemma F_ver : nth 72 F 0 = HEADER_VERSION * 2 + (if w then 1 else 0).
Proof.
  rewrite nth_skipn0. replace 72%nat with (8 + (8 + (8 + (8 + (8 + (32 + 0))))))%nat by reflexivity. skip_ih.
  reflexivity.
Qed.

Lemma F_ksz : k < 2^16 -> le_val (firstn 2 (skipn 73 F)) = k.
Proof.
  intros H. replace 73%nat with (8 + (8 + (8 + (8 + (8 + (32 + (1 + 0)))))))%nat by reflexivity. skip_ih.
  rewrite firstn_app_len by apply le16_length. apply le16_val, H.
Qed.

Lemma F_bsize : bs < 2^64 -> u64_at F 75 = bs.
Proof.
  intros H. unfold u64_at. replace 75%nat with (8 + (8 + (8 + (8 + (8 + (32 + (1 + (2 + 0))))))))%nat by reflexivity.
  skip_ih. rewrite firstn_app_len by apply le64_length. apply le64_val, H.
Qed.
End Fields.

(* ------------------------------------------------------------------------------------------------ *)
(* opening any file that starts with header ++ meta ++ TreeMeta                                     *)
(* ------------------------------------------------------------------------------------------------ *)

Definition open_result (written : bool) (K' bsize lo to : N) (len : nat) (K bs : N) : (N * N) + ierr :=
  if N.of_nat len <? to then inr IPanicOrEof
  else if negb written then inr INotWritten
  else if negb (K' =? K) then inr IKeySize
  else if negb (bsize =? bs) then inr IBlobSize
  else inl (lo, to).

Lemma index_open_gen c r hash w K' bsize meta lo to rest K bs :
  length hash = 32%nat -> N.of_nat (length meta) < 2^64 -> K' < 2^16 -> bsize < 2^64 -> lo < 2^64 -> to < 2^64 ->
  index_open (index_header_bytes c r (N.of_nat (length meta)) hash w K' bsize ++ meta ++ le64 lo ++ le64 to ++ rest) K bs
  = open_result w K' bsize lo to (83 + length meta + 16 + length rest) K bs.
Proof.
  intros Hh Hm HK Hb Hlo Hto.
  set (IH := index_header_bytes c r (N.of_nat (length meta)) hash w K' bsize).
  set (T := meta ++ le64 lo ++ le64 to ++ rest).
  assert (HlI : length IH = 83%nat) by (apply ihb_length, Hh).
  assert (HlF : length (IH ++ T) = (83 + length meta + 16 + length rest)%nat).
  { subst T. rewrite !app_length, HlI, !le64_length. lia. }
  unfold index_open, decode_index_header. rewrite HlF.
  destruct (Nat.ltb_spec (83 + length meta + 16 + length rest) 83) as [C|_]; [lia|].
  cbn [ih_magic ih_msz ih_ver ih_ksz ih_bsize].
  subst IH. rewrite F_magic, F_msz, F_ver, F_ksz, F_bsize by assumption.
  set (IH := index_header_bytes c r (N.of_nat (length meta)) hash w K' bsize) in *.
  destruct (N.ltb_spec (N.of_nat (83 + length meta + 16 + length rest)) (83 + N.of_nat (length meta) + 16)) as [C|_]; [lia|].
  replace (N.to_nat (83 + N.of_nat (length meta))) with (83 + length meta)%nat by lia.
  assert (E1 : u64_at (IH ++ T) (83 + length meta) = lo).
  { subst T. rewrite (app_assoc IH meta). apply u64_at_app; [rewrite app_length, HlI; reflexivity|exact Hlo]. }
  assert (E2 : u64_at (IH ++ T) (83 + length meta + 8) = to).
  { subst T. rewrite (app_assoc IH meta), (app_assoc (IH ++ meta) (le64 lo)).
    apply u64_at_app; [rewrite !app_length, HlI, le64_length; reflexivity|exact Hto]. }
  rewrite E1, E2, ver_bit, ver_shift, !N.eqb_refl. cbn [negb]. unfold open_result. reflexivity.
Qed.

(* ------------------------------------------------------------------------------------------------ *)
(* index_file_bytes                                                                                 *)
(* ------------------------------------------------------------------------------------------------ *)

(* the serialize result used inside index_file_bytes *)
Definition idx_file (K : N) (meta : bytes) (m : inmem ih) : file ih :=
  serialize ih BLOCK_SIZE K (57 + K) (INDEX_HEADER_SIZE + N.of_nat (length meta) + 16) m.

Definition idx_tail (K : N) (meta : bytes) (m : inmem ih) : bytes :=
  flat_map (node_bytes K) (nodes (idx_file K meta m))
  ++ flat_map (fun h => encode_header (ih_header K h)) (recs (idx_file K meta m)).

Lemma index_file_bytes_eq K hash written meta m bsize :
  index_file_bytes K hash written meta m bsize =
  index_header_bytes (count ih m) (57 + K) (N.of_nat (length meta)) hash written K bsize
  ++ meta ++ le64 (leaves_offset (idx_file K meta m)) ++ le64 (tree_offset (idx_file K meta m)) ++ idx_tail K meta m.
Proof. reflexivity. Qed.

Lemma idx_tree_offset K meta m : tree_offset (idx_file K meta m) = 83 + N.of_nat (length meta) + 16.
Proof. reflexivity. Qed.

Lemma idx_offsets_le K meta m : tree_offset (idx_file K meta m) <= leaves_offset (idx_file K meta m).
Proof. unfold idx_file, serialize. cbn [tree_offset leaves_offset]. lia. Qed.

(* side conditions: the hash has 32 bytes, the key size fits u16, the blob size and the leaves offset
   (hence also the tree offset and the meta length) fit u64 *)
Definition idx_ok (K : N) (hash meta : bytes) (m : inmem ih) (bsize : N) : Prop :=
  length hash = 32%nat /\ K < 2^16 /\ bsize < 2^64 /\ leaves_offset (idx_file K meta m) < 2^64.

Lemma idx_ok_sizes K hash meta m bsize : idx_ok K hash meta m bsize ->
  N.of_nat (length meta) < 2^64 /\ tree_offset (idx_file K meta m) < 2^64.
Proof.
  intros (_ & _ & _ & Hl). pose proof (idx_offsets_le K meta m) as Hle.
  pose proof (idx_tree_offset K meta m) as Ht. split; lia.
Qed.

Lemma index_open_file_gen K hash written meta m bsize K0 bs rest :
  idx_ok K hash meta m bsize ->
  index_open (index_header_bytes (count ih m) (57 + K) (N.of_nat (length meta)) hash written K bsize
              ++ meta ++ le64 (leaves_offset (idx_file K meta m)) ++ le64 (tree_offset (idx_file K meta m)) ++ rest) K0 bs
  = if negb written then inr INotWritten
    else if negb (K =? K0) then inr IKeySize
    else if negb (bsize =? bs) then inr IBlobSize
    else inl (leaves_offset (idx_file K meta m), tree_offset (idx_file K meta m)).
Proof.
  intros Hok. pose proof (idx_ok_sizes _ _ _ _ _ Hok) as (Hm & Ht). destruct Hok as (Hh & HK & Hb & Hl).
  rewrite index_open_gen by assumption. unfold open_result.
  destruct (N.ltb_spec (N.of_nat (83 + length meta + 16 + length rest)) (tree_offset (idx_file K meta m))) as [C|_];
    [rewrite idx_tree_offset in C; lia|reflexivity].
Qed.

Theorem index_open_accepts : forall K hash meta m bsize, idx_ok K hash meta m bsize ->
  index_open (index_file_bytes K hash true meta m bsize) K bsize
  = inl (leaves_offset (idx_file K meta m), tree_offset (idx_file K meta m)).
Proof.
  intros K hash meta m bsize Hok. rewrite index_file_bytes_eq, index_open_file_gen by exact Hok.
  rewrite !N.eqb_refl. reflexivity.
Qed.

Theorem index_open_rejects_unwritten : forall K hash meta m bsize K0 bs, idx_ok K hash meta m bsize ->
  index_open (index_file_bytes K hash false meta m bsize) K0 bs = inr INotWritten.
Proof.
  intros K hash meta m bsize K0 bs Hok. rewrite index_file_bytes_eq, index_open_file_gen by exact Hok. reflexivity.
Qed.

Theorem index_open_rejects_stale : forall K hash meta m bsize bsize', idx_ok K hash meta m bsize ->
  bsize' <> bsize -> index_open (index_file_bytes K hash true meta m bsize) K bsize' = inr IBlobSize.
Proof.
  intros K hash meta m bsize bsize' Hok Hne. rewrite index_file_bytes_eq, index_open_file_gen by exact Hok.
  rewrite N.eqb_refl. cbn [negb]. destruct (N.eqb_spec bsize bsize') as [E|_]; [congruence|reflexivity].
Qed.

Theorem index_open_rejects_other_key_size : forall K hash meta m bsize K0 bs, idx_ok K hash meta m bsize ->
  K0 <> K -> index_open (index_file_bytes K hash true meta m bsize) K0 bs = inr IKeySize.
Proof.
  intros K hash meta m bsize K0 bs Hok Hne. rewrite index_file_bytes_eq, index_open_file_gen by exact Hok.
  cbn [negb]. destruct (N.eqb_spec K K0) as [E|_]; [congruence|reflexivity].
Qed.

(* a file cut inside header, meta or TreeMeta is rejected (always with IEof) *)
Theorem index_open_rejects_short : forall K hash written meta m bsize K0 bs n, idx_ok K hash meta m bsize ->
  (n < 83 + length meta + 16)%nat ->
  index_open (firstn n (index_file_bytes K hash written meta m bsize)) K0 bs = inr IEof.
Proof.
  intros K hash written meta m bsize K0 bs n Hok Hn.
  pose proof (idx_ok_sizes _ _ _ _ _ Hok) as (Hm & Ht). destruct Hok as (Hh & HK & Hb & Hl).
  rewrite index_file_bytes_eq.
  set (T := meta ++ _).
  set (IH := index_header_bytes _ _ _ _ _ _ _).
  assert (HlF : (83 + length meta + 16 <= length (IH ++ T))%nat).
  { subst T IH. rewrite !app_length, ihb_length, !le64_length by exact Hh. lia. }
  assert (Hlb : length (firstn n (IH ++ T)) = n) by (rewrite firstn_length; lia).
  unfold index_open, decode_index_header. rewrite Hlb.
  destruct (Nat.ltb_spec n 83) as [_|H83]; [reflexivity|].
  cbn [ih_msz]. rewrite u64_at_firstn' by lia.
  subst IH. rewrite F_msz by assumption.
  destruct (N.ltb_spec (N.of_nat n) (83 + N.of_nat (length meta) + 16)) as [_|C]; [reflexivity|lia].
Qed.

(* REFUTATION (finding F5): any truncation at or beyond the tree offset -- i.e. a file that lost ALL its
   tree nodes and record headers, or any part of them -- is still trusted, with the same offsets *)
Theorem index_open_accepts_truncated : forall K hash meta m bsize K0 bs n, idx_ok K hash meta m bsize ->
  (83 + length meta + 16 <= n)%nat ->
  index_open (firstn n (index_file_bytes K hash true meta m bsize)) K0 bs
  = index_open (index_file_bytes K hash true meta m bsize) K0 bs.
Proof.
  intros K hash meta m bsize K0 bs n Hok Hn. rewrite index_file_bytes_eq.
  set (IH := index_header_bytes _ _ _ _ _ _ _).
  set (lo := leaves_offset _). set (to := tree_offset _).
  assert (HlI : length IH = 83%nat) by (apply ihb_length, Hok).
  assert (E : firstn n (IH ++ meta ++ le64 lo ++ le64 to ++ idx_tail K meta m)
              = IH ++ meta ++ le64 lo ++ le64 to ++ firstn (n - (83 + length meta + 16)) (idx_tail K meta m)).
  { rewrite !(app_assoc _ _ (idx_tail K meta m)), !(app_assoc _ _ (firstn _ (idx_tail K meta m))).
    rewrite firstn_app, firstn_all2 by (rewrite !app_length, HlI, !le64_length; lia).
    rewrite !app_length, HlI, !le64_length.
    replace (83 + (length meta + (8 + 8)))%nat with (83 + length meta + 16)%nat by lia. reflexivity. }
  rewrite E. subst IH lo to. rewrite !index_open_file_gen by exact Hok. reflexivity.
Qed.

Corollary index_open_trusts_headerless_file : forall K hash meta m bsize, idx_ok K hash meta m bsize ->
  index_open (firstn (83 + length meta + 16) (index_file_bytes K hash true meta m bsize)) K bsize
  = inl (leaves_offset (idx_file K meta m), tree_offset (idx_file K meta m)).
Proof.
  intros K hash meta m bsize Hok.
  rewrite index_open_accepts_truncated by (exact Hok || lia). apply index_open_accepts, Hok.
Qed.

Print Assumptions index_open_accepts.
Print Assumptions index_open_rejects_unwritten.
Print Assumptions index_open_rejects_stale.
Print Assumptions index_open_rejects_other_key_size.
Print Assumptions index_open_rejects_short.
Print Assumptions index_open_accepts_truncated.
Print Assumptions index_open_trusts_headerless_file.
