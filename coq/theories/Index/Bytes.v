(* Byte level of the index file: IndexHeader, filter section, TreeMeta, nodes, leaves
   (src/blob/index/header.rs, bptree/meta.rs, bptree/node.rs, index/core.rs serialize_filters). *)
Require Import Pearl.Base.Prelude Pearl.Base.LE Pearl.Base.Crc Pearl.Generated.Consts Pearl.Format.Record
               Pearl.Index.BPTree Pearl.Blob.Bytes.

(* headers as the index probe (hook H2) creates them: data checksum 0, header checksum recomputed *)
Record ih := { ih_key : N; ih_ts : N; ih_del : bool; ih_msize : N; ih_dsize : N; ih_off : N }.

Definition ih_header (K : N) (h : ih) : header :=
  let h0 := {| h_magic := RECORD_MAGIC_BYTE; h_key := be_bytes (N.to_nat K) (ih_key h); h_msize := ih_msize h;
               h_dsize := ih_dsize h; h_flags := if ih_del h then DELETE_FLAG else 0; h_off := ih_off h;
               h_ts := ih_ts h; h_dcrc := 0; h_hcrc := 0 |} in
  with_hcrc h0 (header_crc h0).

(* IndexStruct::push for probe headers *)
Fixpoint ih_insert (v : list ih) (h : ih) : list ih :=
  match v with [] => [h] | x :: r => if ih_ts x <=? ih_ts h then x :: ih_insert r h else h :: v end.
Fixpoint pm_get (m : inmem ih) (k : N) : option (list ih) :=
  match m with [] => None | (k', v) :: r => if k' =? k then Some v else pm_get r k end.
Fixpoint pm_put (m : inmem ih) (k : N) (v : list ih) : inmem ih :=
  match m with
  | [] => [(k, v)]
  | (k', v') :: r => if k =? k' then (k, v) :: r else if k <? k' then (k, v) :: m else (k', v') :: pm_put r k v
  end.
Definition pm_push (m : inmem ih) (h : ih) : inmem ih :=
  match pm_get m (ih_key h) with Some v => pm_put m (ih_key h) (ih_insert v h) | None => pm_put m (ih_key h) [h] end.

(* bincode(IndexHeader): magic, records_count, record_header_size, meta_size, hash (len + 32 bytes),
   version byte = HEADER_VERSION << 1 | written, key_size u16, blob_size *)
Definition index_header_bytes (count rhs msize : N) (hash : bytes) (written : bool) (ksz bsize : N) : bytes :=
  le64 INDEX_HEADER_MAGIC_BYTE ++ le64 count ++ le64 rhs ++ le64 msize ++ le64 (N.of_nat (length hash)) ++ hash
  ++ [HEADER_VERSION * 2 + (if written then 1 else 0)] ++ le16 ksz ++ le64 bsize.
Definition INDEX_HEADER_SIZE : N := 83.

Definition node_bytes (K : N) (n : node) : bytes :=
  le64 (N.of_nat (length (nkeys n))) ++ flat_map (be_bytes (N.to_nat K)) (nkeys n) ++ flat_map le64 (noffs n).

(* RangeFilterInner { min, max, initialized } and serialize_filters *)
Record range := { rg_min : N; rg_max : N; rg_init : bool }.
Definition range_empty : range := {| rg_min := 0; rg_max := 0; rg_init := false |}.
Definition range_add (r : range) (k : N) : range :=
  if negb (rg_init r) then {| rg_min := k; rg_max := k; rg_init := true |}
  else if k <? rg_min r then {| rg_min := k; rg_max := rg_max r; rg_init := true |}
  else if rg_max r <? k then {| rg_min := rg_min r; rg_max := k; rg_init := true |} else r.
Definition range_contains (r : range) (k : N) : bool := rg_init r && (rg_min r <=? k) && (k <=? rg_max r).
Definition range_bytes (K : N) (r : range) : bytes :=
  le64 K ++ be_bytes (N.to_nat K) (rg_min r) ++ le64 K ++ be_bytes (N.to_nat K) (rg_max r) ++ [if rg_init r then 1 else 0].

Definition empty_bloom_bytes : bytes := repeat 0 56.    (* Bloom::empty().to_raw() *)

Definition filters_bytes (K : N) (r : range) (bloom_raw : option bytes) : bytes :=
  let rb := range_bytes K r in
  le64 (N.of_nat (length rb)) ++ rb ++ match bloom_raw with Some b => b | None => empty_bloom_bytes end.

(* the whole file (hash field as given; `written` as given) *)
Definition index_file_bytes (K : N) (hash : bytes) (written : bool) (meta : bytes) (m : inmem ih) (bsize : N) : bytes :=
  let rhs := 57 + K in
  let hdr_end := INDEX_HEADER_SIZE + N.of_nat (length meta) + 16 in
  let f := serialize ih BLOCK_SIZE K rhs hdr_end m in
  index_header_bytes (count ih m) rhs (N.of_nat (length meta)) hash written K bsize
  ++ meta ++ le64 (leaves_offset f) ++ le64 (tree_offset f)
  ++ flat_map (node_bytes K) (nodes f)
  ++ flat_map (fun h => encode_header (ih_header K h)) (recs f).
