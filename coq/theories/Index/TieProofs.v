(* Ties between the hand-written model definitions and the functions regenerated from the Rust source
   (Generated/Pure.v). If the source changes one of these functions, these lemmas stop checking. *)
Require Import Pearl.Base.Prelude Pearl.Generated.Consts Pearl.Generated.Pure Pearl.Index.BPTree Pearl.Format.Record.
Require Import ZifyN ZifyNat.
Ltac Zify.zify_post_hook ::= Z.div_mod_to_equations.

Lemma mod64_small x : x < 2^64 -> x mod 2^64 = x.
Proof. intros H. apply N.mod_small, H. Qed.

(* serializer.rs max_nonleaf_node_capacity = the model's max_amount at the regenerated BLOCK_SIZE *)
Lemma max_amount_tie ksz : ksz < 2^32 -> max_nonleaf_node_capacity ksz = max_amount BLOCK_SIZE ksz.
Proof.
  intros Hk. unfold max_nonleaf_node_capacity, max_amount, BLOCK_SIZE. cbv zeta.
  assert (E1 : (4096 + 2^64 - 8) mod 2^64 = 4088) by (vm_compute; reflexivity).
  rewrite E1.
  assert (E2 : (4088 + 2^64 - 8) mod 2^64 = 4080) by (vm_compute; reflexivity).
  rewrite E2.
  assert (Hp : 2^32 < 2^64) by (vm_compute; reflexivity).
  rewrite (mod64_small (ksz + 8)) by lia.
  replace (4096 - 8 - 8) with 4080 by (vm_compute; reflexivity).
  apply mod64_small.
  assert (4080 / (ksz + 8) <= 4080) by (apply N.div_le_upper_bound; lia).
  assert (4081 < 2^64) by (vm_compute; reflexivity). lia.
Qed.

(* node.rs serialized_size_with_keys = the model's node_size *)
Lemma node_size_tie ksz nk : ksz < 2^32 -> nk < 2^16 -> serialized_size_with_keys ksz nk = node_size ksz nk.
Proof.
  intros Hk Hn. unfold serialized_size_with_keys, node_size. cbv zeta.
  assert (Hp32 : 2^32 * 2^16 < 2^64) by (vm_compute; reflexivity).
  assert (Hp16 : 2^16 + 1 < 2^32) by (vm_compute; reflexivity).
  assert (Hm : ksz * nk < 2^32 * 2^16) by (apply N.mul_lt_mono; assumption).
  rewrite (mod64_small (ksz * nk)) by lia.
  rewrite (mod64_small (nk + 1)) by lia.
  assert (H8 : (nk + 1) * 8 < 2^32 * 2^16).
  { assert ((nk + 1) * 8 < 2^32 * 8) by lia. assert (2^32 * 8 < 2^32 * 2^16) by (vm_compute; reflexivity). lia. }
  rewrite (mod64_small ((nk + 1) * 8)) by lia.
  assert (H3 : 2 * (2^32 * 2^16) + 8 < 2^64) by (vm_compute; reflexivity).
  rewrite (mod64_small (ksz * nk + (nk + 1) * 8)) by lia.
  rewrite mod64_small by lia. lia.
Qed.

(* record.rs blob_offset_offset / checksum_offset = the positions `finalize` patches *)
Lemma offset_positions_tie len : 24 <= len -> len < 2^64 ->
  blob_offset_offset len = len - 24 /\ checksum_offset len = len - 4.
Proof.
  intros H1 H2. unfold blob_offset_offset, checksum_offset. split.
  - replace (len + 2^64 - 24) with ((len - 24) + 1 * 2^64) by lia. rewrite N.mod_add by (vm_compute; discriminate).
    apply mod64_small. lia.
  - replace (len + 2^64 - 4) with ((len - 4) + 1 * 2^64) by lia. rewrite N.mod_add by (vm_compute; discriminate).
    apply mod64_small. lia.
Qed.

(* the single-pass threshold the byte-level model uses is the regenerated constant *)
Lemma single_pass_threshold_tie : MAX_SINGLE_PASS_DATA_SIZE = 4096 /\ BLOCK_SIZE = 4096.
Proof. split; reflexivity. Qed.
