(* Proofs about the on-disk B+tree index model (Pearl.Index.BPTree):
   serialize / load round trip, leaf-region lookups, and the tree descent. *)
Require Import Pearl.Base.Prelude Pearl.Index.BPTree.
From Coq Require Import Sorting.Sorted.

Section Proofs.
Variable H : Type.
Variable hkey : H -> N.
Variables (B ksz rhs : N).

Local Notation inmem := (BPTree.inmem H).
Local Notation flat := (BPTree.flat H).
Local Notation count := (BPTree.count H).
Local Notation serialize := (BPTree.serialize H B ksz rhs).
Local Notation load_file := (BPTree.load_file H hkey).
Local Notation load_aux := (BPTree.load_aux H hkey).
Local Notation lookup := (BPTree.lookup H).
Local Notation get_latest_mem := (BPTree.get_latest_mem H).
Local Notation get_all_mem := (BPTree.get_all_mem H).
Local Notation get_latest_file := (BPTree.get_latest_file H hkey B ksz rhs).
Local Notation get_all_file := (BPTree.get_all_file H hkey B ksz rhs).
Local Notation file_size := (BPTree.file_size H rhs).
Local Notation buf_recs := (BPTree.buf_recs H B rhs).
Local Notation bsearch := (BPTree.bsearch H hkey).
Local Notation leftmost := (BPTree.leftmost H hkey).
Local Notation take_while_key := (BPTree.take_while_key H hkey).
Local Notation find_leaf := (BPTree.find_leaf H B ksz rhs).
Local Notation node_at := (BPTree.node_at H B ksz rhs).
Local Notation node_at_aux := (BPTree.node_at_aux ksz).
Local Notation node_size := (BPTree.node_size ksz).
Local Notation nodes_size := (BPTree.nodes_size ksz).
Local Notation max_amount := (BPTree.max_amount B ksz).
Local Notation min_amount := (BPTree.min_amount B ksz).
Local Notation groups := (BPTree.groups B ksz).
Local Notation mk_groups := (BPTree.mk_groups B ksz).
Local Notation next_layer := (BPTree.next_layer B ksz).
Local Notation write_layer := (BPTree.write_layer B ksz).
Local Notation build_tree := (BPTree.build_tree B ksz).
Local Notation leaves := (BPTree.leaves H B rhs).
Local Notation leaf_step := (BPTree.leaf_step H B rhs).

(* ------------------------------------------------------------------ *)
(** * Well-formedness of the in-memory index *)

Definition wf (m : inmem) : Prop :=
  StronglySorted (fun a b => fst a < fst b) m /\
  Forall (fun kv => snd kv <> [] /\ Forall (fun h => hkey h = fst kv) (snd kv)) m.

Lemma wf_nil : wf [].
Proof. split; constructor. Qed.

Lemma wf_cons_inv k v m : wf ((k, v) :: m) ->
  v <> [] /\ Forall (fun h => hkey h = k) v /\ Forall (fun kv => k < fst kv) m /\ wf m.
Proof.
  intros [Hs Hf]. inversion Hs as [|a l Hs' Hlt]; subst. inversion Hf as [|a l [Hne Hk] Hf']; subst.
  cbn in *. repeat split; assumption.
Qed.

Lemma wf_cons k v m : v <> [] -> Forall (fun h => hkey h = k) v -> Forall (fun kv => k < fst kv) m -> wf m ->
  wf ((k, v) :: m).
Proof.
  intros Hne Hk Hlt [Hs Hf]. split; constructor; auto.
Qed.

Lemma wf_app_inv m1 m2 : wf (m1 ++ m2) -> wf m1 /\ wf m2.
Proof.
  induction m1 as [|[k v] m1 IH]; cbn; intros Hw.
  - split; [apply wf_nil | assumption].
  - apply wf_cons_inv in Hw. destruct Hw as (Hne & Hk & Hlt & Hw). apply IH in Hw. destruct Hw as [Hw1 Hw2].
    split; [|assumption]. apply wf_cons; auto. apply Forall_app in Hlt. tauto.
Qed.

(* ------------------------------------------------------------------ *)
(** * Stage 1: count, recs, load *)

Theorem count_serialize : forall hdr_end m, f_count (serialize hdr_end m) = count m.
Proof. reflexivity. Qed.

Theorem recs_serialize : forall hdr_end m, recs (serialize hdr_end m) = flat m.
Proof. reflexivity. Qed.

Lemma flat_cons k v (m : inmem) : flat ((k, v) :: m) = rev v ++ flat m.
Proof. reflexivity. Qed.

Lemma flat_app (m1 m2 : inmem) : flat (m1 ++ m2) = flat m1 ++ flat m2.
Proof. unfold BPTree.flat. apply flat_map_app. Qed.

Lemma firstn_count_flat m : firstn (N.to_nat (count m)) (flat m) = flat m.
Proof. unfold BPTree.count. rewrite Nat2N.id. apply firstn_all. Qed.

(* consuming a run of records of the current key *)
Lemma load_aux_run : forall l rest k v acc,
  Forall (fun h => hkey h = k) l ->
  load_aux (l ++ rest) (Some (k, v)) acc = load_aux rest (Some (k, rev l ++ v)) acc.
Proof.
  induction l as [|h l IH]; intros rest k v acc Hl.
  - reflexivity.
  - inversion Hl as [|a l' Hh Hl']; subst. cbn [app BPTree.load_aux].
    rewrite N.eqb_refl. rewrite IH by assumption. cbn [rev]. rewrite <- app_assoc. reflexivity.
Qed.

Lemma load_aux_flat : forall m k v acc,
  wf m -> Forall (fun kv => k < fst kv) m ->
  load_aux (flat m) (Some (k, v)) acc = acc ++ (k, v) :: m.
Proof.
  induction m as [|[k' v'] m IH]; intros k v acc Hw Hlt.
  - reflexivity.
  - apply wf_cons_inv in Hw. destruct Hw as (Hne & Hk & Hlt' & Hw).
    inversion Hlt as [|a l Hkk' Hlt'']; subst. cbn in Hkk'.
    rewrite flat_cons.
    destruct (rev v') as [|h t] eqn:Erev.
    { exfalso. apply Hne. rewrite <- (rev_involutive v'), Erev. reflexivity. }
    assert (Hkr : Forall (fun h => hkey h = k') (h :: t)).
    { rewrite <- Erev. apply Forall_rev. assumption. }
    inversion Hkr as [|a l Hh Ht]; subst.
    cbn [app BPTree.load_aux].
    assert (E : (hkey h =? k) = false) by (apply N.eqb_neq; lia). rewrite E.
    rewrite load_aux_run by assumption.
    rewrite IH by assumption.
    assert (Ev : rev t ++ [h] = v').
    { rewrite <- (rev_involutive v'), Erev. reflexivity. }
    rewrite Ev. rewrite <- app_assoc. reflexivity.
Qed.

Lemma load_aux_flat_none : forall m, wf m -> load_aux (flat m) None [] = m.
Proof.
  intros [|[k v] m] Hw.
  - reflexivity.
  - apply wf_cons_inv in Hw. destruct Hw as (Hne & Hk & Hlt & Hw).
    rewrite flat_cons.
    destruct (rev v) as [|h t] eqn:Erev.
    { exfalso. apply Hne. rewrite <- (rev_involutive v), Erev. reflexivity. }
    assert (Hkr : Forall (fun h => hkey h = k) (h :: t)).
    { rewrite <- Erev. apply Forall_rev. assumption. }
    inversion Hkr as [|a l Hh Ht]; subst.
    cbn [app BPTree.load_aux].
    rewrite load_aux_run by assumption.
    rewrite load_aux_flat by assumption.
    assert (Ev : rev t ++ [h] = v).
    { rewrite <- (rev_involutive v), Erev. reflexivity. }
    rewrite Ev. reflexivity.
Qed.

Theorem load_serialize : forall hdr_end m, wf m -> load_file (serialize hdr_end m) = m.
Proof.
  intros hdr_end m Hw. unfold BPTree.load_file.
  rewrite count_serialize, recs_serialize, firstn_count_flat. apply load_aux_flat_none. assumption.
Qed.


(* ------------------------------------------------------------------ *)
(** * Stage 2: searching inside a window of the record array *)

Lemma nth_error_skipn_ (A : Type) (s : nat) (l : list A) i :
  nth_error (skipn s l) i = nth_error l (s + i).
Proof.
  revert l; induction s as [|s IH]; intros [|x l]; cbn; auto. destruct i; reflexivity.
Qed.

Lemma nth_error_firstn_lt (A : Type) (n : nat) (l : list A) i :
  (i < n)%nat -> nth_error (firstn n l) i = nth_error l i.
Proof.
  revert l i; induction n as [|n IH]; intros l i Hi; [lia|].
  destruct l as [|x l]; [reflexivity|]. destruct i as [|i]; cbn; [reflexivity|]. apply IH; lia.
Qed.

Lemma nth_error_firstn_ge (A : Type) (n : nat) (l : list A) i :
  (n <= i)%nat -> nth_error (firstn n l) i = None.
Proof. intros Hi. apply nth_error_None. rewrite firstn_length. lia. Qed.

Lemma skipn_length_app (A : Type) (a b : list A) : skipn (length a) (a ++ b) = b.
Proof. induction a; cbn; auto. Qed.

Lemma In_firstn_ (A : Type) n (l : list A) x : In x (firstn n l) -> In x l.
Proof. intros Hin. rewrite <- (firstn_skipn n l). apply in_or_app. left. assumption. Qed.

Lemma In_skipn_ (A : Type) n (l : list A) x : In x (skipn n l) -> In x l.
Proof. intros Hin. rewrite <- (firstn_skipn n l). apply in_or_app. right. assumption. Qed.

(* sortedness by key, index form *)
Definition ksorted (l : list H) : Prop :=
  forall i j a b, (i <= j)%nat -> nth_error l i = Some a -> nth_error l j = Some b -> hkey a <= hkey b.

Lemma ksorted_window l s n : ksorted l -> ksorted (firstn n (skipn s l)).
Proof.
  intros Hs i j a b Hij Ha Hb.
  destruct (Nat.lt_ge_cases j n) as [Hj|Hj].
  - rewrite nth_error_firstn_lt, nth_error_skipn_ in Ha, Hb by lia.
    eapply Hs; [|eassumption|eassumption]. lia.
  - rewrite nth_error_firstn_ge in Hb by lia. discriminate.
Qed.

Lemma ksorted_app l1 l2 : ksorted l1 -> ksorted l2 ->
  (forall a b, In a l1 -> In b l2 -> hkey a <= hkey b) -> ksorted (l1 ++ l2).
Proof.
  intros H1 H2 H12 i j a b Hij Ha Hb.
  destruct (Nat.lt_ge_cases j (length l1)) as [Hj|Hj].
  - rewrite nth_error_app1 in Ha, Hb by lia. eapply (H1 i j); eassumption.
  - rewrite nth_error_app2 in Hb by lia.
    destruct (Nat.lt_ge_cases i (length l1)) as [Hi|Hi].
    + rewrite nth_error_app1 in Ha by lia. apply H12; eapply nth_error_In; eassumption.
    + rewrite nth_error_app2 in Ha by lia. eapply H2; [|eassumption|eassumption]. lia.
Qed.

Lemma ksorted_const l k : Forall (fun h => hkey h = k) l -> ksorted l.
Proof.
  intros Hl i j a b _ Ha Hb. rewrite Forall_forall in Hl.
  rewrite (Hl a), (Hl b) by (eapply nth_error_In; eassumption). lia.
Qed.

Lemma wf_In m k v : wf m -> In (k, v) m -> v <> [] /\ Forall (fun h => hkey h = k) v.
Proof. intros [_ Hf] Hin. rewrite Forall_forall in Hf. apply (Hf (k, v) Hin). Qed.

Lemma flat_In m h : In h (flat m) -> exists k v, In (k, v) m /\ In h v.
Proof.
  unfold BPTree.flat. rewrite in_flat_map. intros [[k v] [Hin Hh]]. cbn in Hh.
  exists k, v. split; [assumption|]. apply in_rev. assumption.
Qed.

Lemma flat_In_key m h : wf m -> In h (flat m) -> exists v, In (hkey h, v) m.
Proof.
  intros Hw Hin. apply flat_In in Hin. destruct Hin as (k & v & Hkv & Hh).
  destruct (wf_In m k v Hw Hkv) as [_ Hk]. rewrite Forall_forall in Hk. rewrite (Hk h Hh). exists v. assumption.
Qed.

Lemma ksorted_flat m : wf m -> ksorted (flat m).
Proof.
  induction m as [|[k v] m IH]; intros Hw.
  - intros i j a b _ Ha. destruct i; discriminate.
  - apply wf_cons_inv in Hw. destruct Hw as (Hne & Hk & Hlt & Hw). rewrite flat_cons.
    apply ksorted_app.
    + apply (ksorted_const _ k). apply Forall_rev. assumption.
    + apply IH. assumption.
    + intros a b Ha Hb. apply in_rev in Ha. rewrite Forall_forall in Hk. rewrite (Hk a Ha).
      destruct (flat_In_key m b Hw Hb) as [vb Hvb]. rewrite Forall_forall in Hlt.
      specialize (Hlt _ Hvb). cbn in Hlt. lia.
Qed.

(* binary search on a sorted buffer *)
Lemma bsearch_spec : forall fuel buf k l r,
  ksorted buf -> (0 <= l)%Z -> (r < Z.of_nat (length buf))%Z -> (r - l + 1 < Z.of_nat fuel)%Z ->
  match bsearch fuel buf k l r with
  | Some i => (l <= Z.of_nat i <= r)%Z /\ exists h, nth_error buf i = Some h /\ hkey h = k
  | None => forall i h, (l <= Z.of_nat i <= r)%Z -> nth_error buf i = Some h -> hkey h <> k
  end.
Proof.
  induction fuel as [|fu IH]; intros buf k l r Hs Hl Hr Hf.
  - cbn [BPTree.bsearch]. intros i h Hi. lia.
  - cbn [BPTree.bsearch]. destruct (r <? l)%Z eqn:Erl.
    { intros i h Hi. apply Z.ltb_lt in Erl. lia. }
    apply Z.ltb_ge in Erl.
    set (m := ((l + r) / 2)%Z).
    assert (Hm : (l <= m <= r)%Z).
    { subst m. split; [apply Z.div_le_lower_bound | apply Z.div_le_upper_bound]; lia. }
    destruct (nth_error buf (Z.to_nat m)) as [h|] eqn:En.
    2:{ apply nth_error_None in En. lia. }
    destruct (k <? hkey h) eqn:E1.
    + apply N.ltb_lt in E1.
      specialize (IH buf k l (m - 1)%Z Hs Hl ltac:(lia) ltac:(lia)).
      destruct (bsearch fu buf k l (m - 1)%Z) as [i|].
      * destruct IH as [Hi Hex]. split; [lia|assumption].
      * intros i h' Hi Hn. destruct (Z.le_gt_cases (Z.of_nat i) (m - 1)) as [Hle|Hgt].
        -- eapply IH; [|eassumption]. lia.
        -- assert (hkey h <= hkey h') by (eapply (Hs (Z.to_nat m) i); [lia|eassumption|eassumption]). lia.
    + apply N.ltb_ge in E1. destruct (hkey h <? k) eqn:E2.
      * apply N.ltb_lt in E2.
        specialize (IH buf k (m + 1)%Z r Hs ltac:(lia) Hr ltac:(lia)).
        destruct (bsearch fu buf k (m + 1)%Z r) as [i|].
        -- destruct IH as [Hi Hex]. split; [lia|assumption].
        -- intros i h' Hi Hn. destruct (Z.le_gt_cases (m + 1) (Z.of_nat i)) as [Hle|Hgt].
           ++ eapply IH; [|eassumption]. lia.
           ++ assert (hkey h' <= hkey h) by (eapply (Hs i (Z.to_nat m)); [lia|eassumption|eassumption]). lia.
      * apply N.ltb_ge in E2. split; [lia|]. exists h. split; [assumption|lia].
Qed.

Lemma leftmost_spec : forall buf k i, (i < length buf)%nat ->
  (leftmost buf k i <= i)%nat /\
  (forall t h, (leftmost buf k i <= t < i)%nat -> nth_error buf t = Some h -> hkey h = k) /\
  (leftmost buf k i = 0%nat \/ exists h, nth_error buf (leftmost buf k i - 1) = Some h /\ hkey h <> k).
Proof.
  intros buf k. induction i as [|i IH]; intros Hi; cbn [BPTree.leftmost].
  - split; [lia|]. split; [intros; lia| left; reflexivity].
  - destruct (nth_error buf i) as [h|] eqn:En.
    2:{ apply nth_error_None in En. lia. }
    destruct (hkey h =? k) eqn:E.
    + apply N.eqb_eq in E. specialize (IH ltac:(lia)). destruct IH as (H1 & H2 & H3).
      split; [lia|]. split; [|assumption].
      intros t h' Ht Hn. destruct (Nat.eq_dec t i) as [->|Hne].
      * congruence.
      * eapply H2; [|eassumption]. lia.
    + apply N.eqb_neq in E. split; [lia|]. split; [intros; lia|]. right. exists h.
      replace (S i - 1)%nat with i by lia. auto.
Qed.

(* p is the index of the first record with key k in l *)
Definition first_at (l : list H) (k : N) (p : nat) : Prop :=
  (exists h, nth_error l p = Some h /\ hkey h = k) /\
  (forall t h, (t < p)%nat -> nth_error l t = Some h -> hkey h <> k).

(* if the window [s, s+n) of a sorted list contains the first record of k, the binary search succeeds
   and the leftward walk stops exactly on it *)
Lemma window_search : forall l k p s n,
  ksorted l -> first_at l k p -> (s <= p < s + n)%nat ->
  exists i,
    bsearch (S (length (firstn n (skipn s l)))) (firstn n (skipn s l)) k 0
            (Z.of_nat (length (firstn n (skipn s l))) - 1) = Some i /\
    leftmost (firstn n (skipn s l)) k i = (p - s)%nat /\
    nth_error (firstn n (skipn s l)) (p - s) = nth_error l p.
Proof.
  intros l k p s n Hs [[h0 [Hp Hk0]] Hbefore] Hsp.
  assert (Hwin : forall t, (t < n)%nat -> nth_error (firstn n (skipn s l)) t = nth_error l (s + t)).
  { intros t Ht. rewrite nth_error_firstn_lt, nth_error_skipn_ by lia. reflexivity. }
  set (buf := firstn n (skipn s l)) in *.
  assert (Hsb : ksorted buf) by (apply ksorted_window; assumption).
  assert (Hbp : nth_error buf (p - s) = Some h0).
  { rewrite Hwin by lia. replace (s + (p - s))%nat with p by lia. assumption. }
  assert (Hlen : (p - s < length buf)%nat). { apply nth_error_Some. congruence. }
  assert (Hlenn : (length buf <= n)%nat). { unfold buf. rewrite firstn_length. lia. }
  pose proof (bsearch_spec (S (length buf)) buf k 0 (Z.of_nat (length buf) - 1) Hsb
                ltac:(lia) ltac:(lia) ltac:(lia)) as Hbs.
  destruct (bsearch (S (length buf)) buf k 0 (Z.of_nat (length buf) - 1)) as [i|] eqn:Eb.
  2:{ exfalso. eapply (Hbs (p - s)%nat h0); [lia|assumption|assumption]. }
  exists i. split; [reflexivity|]. split; [|congruence].
  destruct Hbs as [Hi [hi [Hni Hki]]].
  assert (Hil : (i < length buf)%nat) by lia.
  destruct (leftmost_spec buf k i Hil) as (H1 & H2 & H3).
  set (j := leftmost buf k i) in *.
  assert (Hj : exists hj, nth_error buf j = Some hj /\ hkey hj = k).
  { destruct (Nat.eq_dec j i) as [Heq|Hne].
    - rewrite Heq. exists hi; auto.
    - destruct (nth_error buf j) as [hj|] eqn:Ej.
      + exists hj. split; [reflexivity|]. eapply H2; [|eassumption]. lia.
      + apply nth_error_None in Ej. lia. }
  destruct Hj as [hj [Hnj Hkj]].
  assert (Hge : (p - s <= j)%nat).
  { destruct (Nat.le_gt_cases (p - s) j) as [|Hlt]; [assumption|]. exfalso.
    rewrite Hwin in Hnj by lia.
    eapply (Hbefore (s + j)%nat hj); [lia|assumption|assumption]. }
  destruct H3 as [H0|[hp [Hnp Hkp]]]; [lia|].
  destruct (Nat.eq_dec j (p - s)) as [|Hne]; [assumption|]. exfalso.
  assert (hkey h0 <= hkey hp) by (eapply (Hsb (p - s)%nat (j - 1)%nat); [lia|eassumption|eassumption]).
  assert (hkey hp <= hkey hj) by (eapply (Hsb (j - 1)%nat j); [lia|eassumption|eassumption]).
  lia.
Qed.

(* if no record has key k, the search fails in every window *)
Lemma window_search_absent : forall l k s n,
  ksorted l -> (forall h, In h l -> hkey h <> k) ->
  bsearch (S (length (firstn n (skipn s l)))) (firstn n (skipn s l)) k 0
          (Z.of_nat (length (firstn n (skipn s l))) - 1) = None.
Proof.
  intros l k s n Hs Habs.
  set (buf := firstn n (skipn s l)).
  assert (Hsb : ksorted buf) by (apply ksorted_window; assumption).
  pose proof (bsearch_spec (S (length buf)) buf k 0 (Z.of_nat (length buf) - 1) Hsb
                ltac:(lia) ltac:(lia) ltac:(lia)) as Hbs.
  destruct (bsearch (S (length buf)) buf k 0 (Z.of_nat (length buf) - 1)) as [i|]; [|reflexivity].
  exfalso. destruct Hbs as [Hi [hi [Hni Hki]]]. apply (Habs hi); [|assumption].
  apply nth_error_In in Hni. unfold buf in Hni. apply In_firstn_ in Hni. apply In_skipn_ in Hni. assumption.
Qed.

Lemma take_while_run : forall l rest k,
  Forall (fun h => hkey h = k) l -> Forall (fun h => hkey h <> k) rest ->
  take_while_key (l ++ rest) k = l.
Proof.
  induction l as [|h l IH]; intros rest k Hl Hr.
  - destruct rest as [|h r]; [reflexivity|]. inversion Hr as [|a b Hh Hr']; subst.
    cbn. apply N.eqb_neq in Hh. rewrite Hh. reflexivity.
  - inversion Hl as [|a b Hh Hl']; subst. cbn. rewrite N.eqb_refl. rewrite IH by assumption. reflexivity.
Qed.

(** ** Position of a key in the flat record array *)

Fixpoint pos (m : inmem) (k : N) : nat :=
  match m with
  | [] => 0%nat
  | (k', v) :: r => if k' <? k then (length v + pos r k)%nat else 0%nat
  end.

Lemma lookup_split : forall m k v, lookup m k = Some v -> exists m1 m2, m = m1 ++ (k, v) :: m2.
Proof.
  induction m as [|[k' v'] m IH]; cbn; intros k v Hl; [discriminate|].
  destruct (k' =? k) eqn:E.
  - apply N.eqb_eq in E. injection Hl as Hv. subst. exists [], m. reflexivity.
  - destruct (IH _ _ Hl) as (m1 & m2 & Hm). subst m. exists ((k', v') :: m1), m2. reflexivity.
Qed.

Lemma lookup_none_In : forall m k k' v, lookup m k = None -> In (k', v) m -> k' <> k.
Proof.
  induction m as [|[k1 v1] m IH]; cbn; intros k k' v Hl Hin; [contradiction|].
  destruct (k1 =? k) eqn:E; [discriminate|]. apply N.eqb_neq in E.
  destruct Hin as [Heq|Hin].
  - injection Heq as Hk Hv. subst. assumption.
  - eapply IH; eassumption.
Qed.

Lemma lookup_none_flat : forall m k, wf m -> lookup m k = None -> forall h, In h (flat m) -> hkey h <> k.
Proof.
  intros m k Hw Hl h Hin. destruct (flat_In_key m h Hw Hin) as [v Hv].
  eapply lookup_none_In; eassumption.
Qed.

Lemma wf_split_lt : forall m1 k v m2, wf (m1 ++ (k, v) :: m2) ->
  Forall (fun kv => fst kv < k) m1 /\ Forall (fun kv => k < fst kv) m2.
Proof.
  induction m1 as [|[k1 v1] m1 IH]; intros k v m2 Hw; cbn in Hw.
  - apply wf_cons_inv in Hw. split; [constructor|tauto].
  - apply wf_cons_inv in Hw. destruct Hw as (_ & _ & Hlt & Hw). destruct (IH _ _ _ Hw) as [H1 H2].
    split; [|assumption]. constructor; [|assumption].
    rewrite Forall_forall in Hlt. apply (Hlt (k, v)). apply in_or_app. right. left. reflexivity.
Qed.

Lemma lookup_mid : forall m1 k v m2, wf (m1 ++ (k, v) :: m2) -> lookup (m1 ++ (k, v) :: m2) k = Some v.
Proof.
  intros m1 k v m2 Hw. destruct (wf_split_lt _ _ _ _ Hw) as [H1 _]. clear Hw.
  induction m1 as [|[k1 v1] m1 IH]; cbn.
  - rewrite N.eqb_refl. reflexivity.
  - inversion H1 as [|a b Hk H1']; subst. cbn in Hk.
    assert (E : (k1 =? k) = false) by (apply N.eqb_neq; lia). rewrite E. apply IH. assumption.
Qed.

Lemma pos_mid : forall m1 k v m2, wf (m1 ++ (k, v) :: m2) -> pos (m1 ++ (k, v) :: m2) k = length (flat m1).
Proof.
  intros m1 k v m2 Hw. destruct (wf_split_lt _ _ _ _ Hw) as [H1 _]. clear Hw.
  induction m1 as [|[k1 v1] m1 IH]; cbn [app pos].
  - rewrite N.ltb_irrefl. reflexivity.
  - inversion H1 as [|a b Hk H1']; subst. cbn in Hk.
    assert (E : (k1 <? k) = true) by (apply N.ltb_lt; lia). rewrite E. rewrite IH by assumption.
    rewrite flat_cons, app_length, rev_length. reflexivity.
Qed.

Lemma first_at_flat : forall m1 k v m2, wf (m1 ++ (k, v) :: m2) ->
  first_at (flat (m1 ++ (k, v) :: m2)) k (length (flat m1)) /\
  nth_error (flat (m1 ++ (k, v) :: m2)) (length (flat m1)) = get_latest_mem (m1 ++ (k, v) :: m2) k /\
  Some (take_while_key (skipn (length (flat m1)) (flat (m1 ++ (k, v) :: m2))) k)
    = get_all_mem (m1 ++ (k, v) :: m2) k.
Proof.
  intros m1 k v m2 Hw.
  pose proof (lookup_mid _ _ _ _ Hw) as Hl.
  destruct (wf_split_lt _ _ _ _ Hw) as [Hlt1 Hlt2].
  destruct (wf_app_inv _ _ Hw) as [Hw1 Hw2].
  apply wf_cons_inv in Hw2. destruct Hw2 as (Hne & Hk & _ & Hw2).
  unfold BPTree.get_latest_mem, BPTree.get_all_mem. rewrite Hl.
  rewrite flat_app, flat_cons.
  destruct (rev v) as [|h t] eqn:Erev.
  { exfalso. apply Hne. rewrite <- (rev_involutive v), Erev. reflexivity. }
  assert (Hkr : Forall (fun h => hkey h = k) (h :: t)).
  { rewrite <- Erev. apply Forall_rev. assumption. }
  assert (Hnth : nth_error (flat m1 ++ (h :: t) ++ flat m2) (length (flat m1)) = Some h).
  { rewrite nth_error_app2 by lia. rewrite Nat.sub_diag. reflexivity. }
  split; [|split].
  - split.
    + exists h. split; [assumption|]. inversion Hkr; assumption.
    + intros i h' Hi Hn. rewrite nth_error_app1 in Hn by lia. apply nth_error_In in Hn.
      destruct (flat_In_key m1 h' Hw1 Hn) as [v' Hv']. rewrite Forall_forall in Hlt1.
      specialize (Hlt1 _ Hv'). cbn in Hlt1. lia.
  - assumption.
  - rewrite skipn_length_app. rewrite take_while_run; [reflexivity|assumption|].
    rewrite Forall_forall. intros h' Hn. destruct (flat_In_key m2 h' Hw2 Hn) as [v' Hv'].
    rewrite Forall_forall in Hlt2. specialize (Hlt2 _ Hv'). cbn in Hlt2. lia.
Qed.

(** ** The leaf part of the two lookups *)

Definition latest_at (f : file H) (k lo : N) : option H :=
  let '(_, buf) := buf_recs f lo in
  match bsearch (S (length buf)) buf k 0 (Z.of_nat (length buf) - 1) with
  | None => None
  | Some i => nth_error buf (leftmost buf k i)
  end.

Definition all_at (f : file H) (k lo : N) : option (list H) :=
  let '(idx0, buf) := buf_recs f lo in
  match bsearch (S (length buf)) buf k 0 (Z.of_nat (length buf) - 1) with
  | None => None
  | Some i => Some (take_while_key (skipn (N.to_nat idx0 + leftmost buf k i)
                                          (firstn (N.to_nat (f_count f)) (recs f))) k)
  end.

Lemma get_latest_file_eq f k :
  get_latest_file f k =
  match find_leaf (S (length (nodes f))) f k (tree_offset f) with
  | None => None | Some lo => latest_at f k lo end.
Proof. reflexivity. Qed.

Lemma get_all_file_eq f k :
  get_all_file f k =
  match find_leaf (S (length (nodes f))) f k (tree_offset f) with
  | None => None | Some lo => all_at f k lo end.
Proof. reflexivity. Qed.

(* absent key: every leaf offset gives None *)
Lemma leaf_lookup_absent : forall hdr_end m k lo,
  wf m -> lookup m k = None ->
  latest_at (serialize hdr_end m) k lo = None /\ all_at (serialize hdr_end m) k lo = None.
Proof.
  intros hdr_end m k lo Hw Hl.
  unfold latest_at, all_at, BPTree.buf_recs. rewrite recs_serialize.
  rewrite window_search_absent; [split; reflexivity| apply ksorted_flat; assumption |].
  apply lookup_none_flat; assumption.
Qed.

(* present key: any leaf offset whose B-byte buffer contains the first record of k *)
Lemma leaf_lookup_present : forall hdr_end m1 k v m2 start,
  let m := m1 ++ (k, v) :: m2 in
  let f := serialize hdr_end m in
  let lo := leaves_offset f + rhs * start in
  wf m -> 0 < rhs ->
  start <= N.of_nat (length (flat m1)) ->
  N.of_nat (length (flat m1)) < start + (N.min (file_size f - lo) B) / rhs ->
  latest_at f k lo = get_latest_mem m k /\ all_at f k lo = get_all_mem m k.
Proof.
  intros hdr_end m1 k v m2 start m f lo Hw Hrhs Hstart Hend.
  destruct (first_at_flat m1 k v m2 Hw) as (Hfirst & Hlatest & Hall). fold m in Hfirst, Hlatest, Hall.
  unfold latest_at, all_at, BPTree.buf_recs.
  assert (Eidx : (lo - leaves_offset f) / rhs = start).
  { unfold lo. replace (leaves_offset f + rhs * start - leaves_offset f) with (start * rhs) by lia.
    apply N.div_mul. lia. }
  rewrite Eidx.
  set (n := N.to_nat (N.min (file_size f - lo) B / rhs)).
  replace (recs f) with (flat m) by reflexivity.
  replace (f_count f) with (count m) by reflexivity.
  destruct (window_search (flat m) k (length (flat m1)) (N.to_nat start) n
              (ksorted_flat m Hw) Hfirst ltac:(lia)) as (i & Eb & El & En).
  rewrite Eb, El, En. split; [assumption|].
  rewrite firstn_count_flat.
  replace (N.to_nat start + (length (flat m1) - N.to_nat start))%nat with (length (flat m1)) by lia.
  assumption.
Qed.


(* the same, phrased with [lookup] and [pos] *)
Lemma leaf_lookup_present_pos : forall hdr_end m k v start,
  wf m -> 0 < rhs -> lookup m k = Some v ->
  start <= N.of_nat (pos m k) ->
  N.of_nat (pos m k) <
    start + (N.min (file_size (serialize hdr_end m) - (leaves_offset (serialize hdr_end m) + rhs * start)) B) / rhs ->
  latest_at (serialize hdr_end m) k (leaves_offset (serialize hdr_end m) + rhs * start) = get_latest_mem m k /\
  all_at (serialize hdr_end m) k (leaves_offset (serialize hdr_end m) + rhs * start) = get_all_mem m k.
Proof.
  intros hdr_end m k v start Hw Hrhs Hl.
  destruct (lookup_split _ _ _ Hl) as (m1 & m2 & Hm). subst m.
  rewrite pos_mid by assumption. intros H1 H2.
  apply (leaf_lookup_present hdr_end m1 k v m2 start Hw Hrhs H1 H2).
Qed.

(* ------------------------------------------------------------------ *)
(** * Stage 3: the tree *)

(** ** Node sizes and locating a node by offset *)

Definition nsz (n : node) : N := node_size (N.of_nat (length (nkeys n))).

Lemma node_size_pos x : 0 < node_size x.
Proof. unfold BPTree.node_size. lia. Qed.

Lemma nodes_size_acc : forall ns a,
  fold_left (fun a n => a + node_size (N.of_nat (length (nkeys n)))) ns a = a + nodes_size ns.
Proof.
  unfold BPTree.nodes_size.
  induction ns as [|n ns IH]; intros a; cbn [fold_left].
  - lia.
  - rewrite IH. rewrite (IH (0 + _)). lia.
Qed.

Lemma nodes_size_nil : nodes_size [] = 0.
Proof. reflexivity. Qed.

Lemma nodes_size_cons n ns : nodes_size (n :: ns) = nsz n + nodes_size ns.
Proof.
  unfold BPTree.nodes_size at 1. cbn [fold_left]. rewrite nodes_size_acc. unfold nsz. lia.
Qed.

Lemma nodes_size_app a b : nodes_size (a ++ b) = nodes_size a + nodes_size b.
Proof.
  induction a as [|n a IH]; cbn [app].
  - rewrite nodes_size_nil. lia.
  - rewrite !nodes_size_cons, IH. lia.
Qed.

Lemma node_at_aux_mid : forall pre n post cur,
  node_at_aux (pre ++ n :: post) cur (cur + nodes_size pre) = Some n.
Proof.
  induction pre as [|p pre IH]; intros n post cur; cbn [app BPTree.node_at_aux].
  - rewrite nodes_size_nil. replace (cur + 0) with cur by lia. rewrite N.eqb_refl. reflexivity.
  - rewrite nodes_size_cons. fold (nsz p).
    pose proof (node_size_pos (N.of_nat (length (nkeys p)))) as Hpos. fold (nsz p) in Hpos.
    assert (E : (cur =? cur + (nsz p + nodes_size pre)) = false) by (apply N.eqb_neq; lia).
    rewrite E. replace (cur + (nsz p + nodes_size pre)) with (cur + nsz p + nodes_size pre) by lia.
    apply IH.
Qed.

(** ** Selecting a child: the last entry whose key is <= k (or the first entry) *)

Definition cntk (ks : list N) (k : N) : nat := length (filter (fun x => x <=? k) ks).
Definition sel (arr : list (N * N)) (k : N) : N * N := nth (cntk (map fst (tl arr)) k) arr (0, 0).

Lemma cntk_le ks k : (cntk ks k <= length ks)%nat.
Proof. unfold cntk. induction ks as [|x ks IH]; cbn; [lia|]. destruct (x <=? k); cbn; lia. Qed.

Lemma cntk_app a b k : cntk (a ++ b) k = (cntk a k + cntk b k)%nat.
Proof. unfold cntk. rewrite filter_app, app_length. reflexivity. Qed.

Lemma cntk_all ks k : Forall (fun x => x <= k) ks -> cntk ks k = length ks.
Proof.
  unfold cntk. induction 1 as [|x ks Hx Hks IH]; cbn; [reflexivity|].
  apply N.leb_le in Hx. rewrite Hx. cbn. rewrite IH. reflexivity.
Qed.

Lemma cntk_none ks k : Forall (fun x => k < x) ks -> cntk ks k = 0%nat.
Proof.
  unfold cntk. induction 1 as [|x ks Hx Hks IH]; cbn; [reflexivity|].
  apply N.leb_gt in Hx. rewrite Hx. assumption.
Qed.

Lemma map_tl_ (A C : Type) (f : A -> C) l : map f (tl l) = tl (map f l).
Proof. destruct l; reflexivity. Qed.

Lemma sel_app_r : forall l1 e2 l2 k,
  l1 <> [] -> Forall (fun e => fst e <= k) l1 -> fst e2 <= k ->
  sel (l1 ++ e2 :: l2) k = sel (e2 :: l2) k.
Proof.
  intros [|e1 l1] e2 l2 k Hne Hall He2; [congruence|]. clear Hne.
  inversion Hall as [|a b He1 Hall']; subst.
  unfold sel. cbn [app tl]. rewrite map_app, cntk_app. cbn [map].
  rewrite cntk_all by (rewrite Forall_map; assumption). rewrite map_length.
  change (fst e2 :: map fst l2) with ([fst e2] ++ map fst l2). rewrite cntk_app.
  rewrite (cntk_all [fst e2]) by (constructor; [assumption|constructor]). cbn [length].
  change (e1 :: l1 ++ e2 :: l2) with ((e1 :: l1) ++ e2 :: l2).
  rewrite app_nth2 by (cbn [length]; lia).
  replace (length l1 + (1 + cntk (map fst l2) k) - length (e1 :: l1))%nat with (cntk (map fst l2) k)
    by (cbn [length]; lia).
  reflexivity.
Qed.

Lemma sel_app_l : forall l1 l2 k,
  l1 <> [] -> Forall (fun e => k < fst e) l2 -> sel (l1 ++ l2) k = sel l1 k.
Proof.
  intros [|e1 l1] l2 k Hne Hall; [congruence|]. clear Hne.
  unfold sel. cbn [app tl]. rewrite map_app, cntk_app.
  rewrite (cntk_none (map fst l2)) by (rewrite Forall_map; assumption).
  rewrite Nat.add_0_r.
  change (e1 :: l1 ++ l2) with ((e1 :: l1) ++ l2).
  apply app_nth1. pose proof (cntk_le (map fst l1) k) as Hle. rewrite map_length in Hle. cbn [length]. lia.
Qed.

Definition esorted (arr : list (N * N)) : Prop := StronglySorted (fun a b => fst a < fst b) arr.

Lemma esorted_app_inv a b : esorted (a ++ b) ->
  esorted a /\ esorted b /\ (forall x y, In x a -> In y b -> fst x < fst y).
Proof.
  unfold esorted. induction a as [|x a IH]; cbn [app]; intros Hs.
  - split; [constructor|]. split; [assumption|]. intros x y [].
  - apply StronglySorted_inv in Hs. destruct Hs as [Hs Hx]. destruct (IH Hs) as (Ha & Hb & Hab).
    apply Forall_app in Hx. destruct Hx as [Hxa Hxb].
    split; [constructor; assumption|]. split; [assumption|].
    intros y z [Hy|Hy] Hz.
    + subst y. rewrite Forall_forall in Hxb. apply Hxb. assumption.
    + apply Hab; assumption.
Qed.

Definition hdk (g : list (N * N)) : N := fst (hd (0, 0) g).

Lemma esorted_hd_lt e l x : esorted (e :: l) -> In x l -> fst e < fst x.
Proof.
  intros Hs Hin. apply StronglySorted_inv in Hs. destruct Hs as [_ Hf]. rewrite Forall_forall in Hf.
  apply Hf. assumption.
Qed.

Lemma esorted_hd_le e l x : esorted (e :: l) -> In x (e :: l) -> fst e <= fst x.
Proof.
  intros Hs [Heq|Hin]; [subst; lia|]. pose proof (esorted_hd_lt _ _ _ Hs Hin). lia.
Qed.

(* the entry selected in the concatenation is the entry selected inside the group selected by the
   groups' minimal keys *)
Lemma sel_groups : forall gs k,
  gs <> [] -> Forall (fun g => g <> []) gs -> esorted (concat gs) ->
  sel (nth (cntk (tl (map hdk gs)) k) gs []) k = sel (concat gs) k.
Proof.
  induction gs as [|g gs IH]; intros k Hne Hall Hs; [congruence|]. clear Hne.
  inversion Hall as [|a b Hg Hall']; subst.
  destruct gs as [|g1 gs].
  - cbn. rewrite app_nil_r. reflexivity.
  - cbn [map tl concat] in *.
    apply esorted_app_inv in Hs. destruct Hs as (Hsg & Hsr & Hlt).
    inversion Hall' as [|a b Hg1 Hall'']; subst.
    destruct g1 as [|e1 g1]; [congruence|].
    cbn [app] in *.
    destruct (fst e1 <=? k) eqn:E.
    + apply N.leb_le in E.
      change (hdk (e1 :: g1) :: map hdk gs) with ([hdk (e1 :: g1)] ++ map hdk gs).
      rewrite cntk_app. rewrite (cntk_all [hdk (e1 :: g1)]) by (constructor; [exact E|constructor]).
      cbn [length Nat.add].
      change (nth (S (cntk (map hdk gs) k)) (g :: (e1 :: g1) :: gs) [])
        with (nth (cntk (map hdk gs) k) ((e1 :: g1) :: gs) []).
      specialize (IH k ltac:(congruence) Hall' Hsr). cbn [map tl concat app] in IH. rewrite IH.
      symmetry. apply sel_app_r; [assumption| |assumption].
      rewrite Forall_forall. intros x Hx. specialize (Hlt x e1 Hx ltac:(left; reflexivity)). lia.
    + apply N.leb_gt in E.
      assert (Hgt : Forall (fun e => k < fst e) (e1 :: g1 ++ concat gs)).
      { rewrite Forall_forall. intros x Hx. pose proof (esorted_hd_le _ _ _ Hsr Hx). lia. }
      rewrite cntk_none.
      * cbn [nth]. symmetry. apply sel_app_l; assumption.
      * rewrite Forall_forall. intros x Hx. change (hdk (e1 :: g1) :: map hdk gs) with (map hdk ((e1 :: g1) :: gs)) in Hx.
        rewrite in_map_iff in Hx. destruct Hx as (g' & Hx & Hin). subst x.
        assert (Hg' : g' <> []). { rewrite Forall_forall in Hall'. apply Hall'. assumption. }
        destruct g' as [|e' g']; [congruence|]. unfold hdk. cbn [hd].
        rewrite Forall_forall in Hgt. apply Hgt.
        change (e1 :: g1 ++ concat gs) with (concat ((e1 :: g1) :: gs)).
        apply in_concat. exists (e' :: g'). split; [assumption|left; reflexivity].
Qed.

Definition mknode (base : N) (g : list (N * N)) : node :=
  {| nkeys := map fst (tl g); noffs := map (fun kv => snd kv + base) g |}.

Lemma child_mknode base g k : g <> [] -> child (mknode base g) k = snd (sel g k) + base.
Proof.
  intros Hg. unfold BPTree.child, mknode, sel. cbn [nkeys noffs]. fold (cntk (map fst (tl g)) k).
  assert (Hlt : (cntk (map fst (tl g)) k < length g)%nat).
  { pose proof (cntk_le (map fst (tl g)) k) as Hle. rewrite map_length in Hle.
    destruct g; [congruence|]. cbn [tl length] in *. lia. }
  transitivity (nth (cntk (map fst (tl g)) k) (map (fun kv : N * N => snd kv + base) g)
                    ((fun kv : N * N => snd kv + base) (0, 0))).
  { apply nth_indep. rewrite map_length. assumption. }
  apply (map_nth (fun kv : N * N => snd kv + base) g (0, 0)).
Qed.


(** ** Grouping of a layer into nodes *)

Definition gsz (g : list (N * N)) : N := node_size (N.of_nat (length g) - 1).

Lemma gsz_pos g : 0 < gsz g.
Proof. apply node_size_pos. Qed.

Lemma nsz_mknode base g : nsz (mknode base g) = gsz g.
Proof.
  unfold nsz, gsz, mknode. cbn [nkeys]. rewrite map_length. f_equal. destruct g; cbn [tl length]; lia.
Qed.

Lemma length_ne (A : Type) (l : list A) : (1 <= length l)%nat -> l <> [].
Proof. destruct l; cbn; [lia|congruence]. Qed.

Lemma ne_length (A : Type) (l : list A) : l <> [] -> (1 <= length l)%nat.
Proof. destruct l; cbn; [congruence|lia]. Qed.

Lemma groups_S f arr : groups (S f) arr =
  if max_amount <? N.of_nat (length arr) then
    firstn (N.to_nat (N.min max_amount (N.of_nat (length arr) - min_amount))) arr ::
    groups f (skipn (N.to_nat (N.min max_amount (N.of_nat (length arr) - min_amount))) arr)
  else [arr].
Proof. reflexivity. Qed.

Lemma groups_concat : forall fuel arr, concat (groups fuel arr) = arr.
Proof.
  induction fuel as [|f IH]; intros arr.
  - cbn. apply app_nil_r.
  - rewrite groups_S. destruct (max_amount <? N.of_nat (length arr)).
    + cbn [concat]. rewrite IH. apply firstn_skipn.
    + cbn. apply app_nil_r.
Qed.

Lemma groups_not_nil : forall fuel arr, groups fuel arr <> [].
Proof.
  intros [|f] arr; [cbn; congruence|]. rewrite groups_S. destruct (max_amount <? _); congruence.
Qed.

Section Tree.
Hypothesis Hmax : 2 <= max_amount.

Lemma min_amount_bounds : 1 <= min_amount /\ min_amount + 1 <= max_amount.
Proof.
  assert (Hgen : forall M, 2 <= M -> 1 <= (M - 1) / 2 + 1 /\ (M - 1) / 2 + 1 + 1 <= M).
  { intros M HM. assert (Hq : (M - 1) / 2 < M - 1) by (apply N.div_lt_upper_bound; lia).
    revert Hq. generalize ((M - 1) / 2). intros q Hq. lia. }
  apply Hgen. exact Hmax.
Qed.

Lemma B_ge_16 : 16 <= B.
Proof.
  destruct (N.lt_ge_cases B 16) as [Hlt|]; [|assumption]. exfalso.
  unfold BPTree.max_amount in Hmax. replace (B - 8 - 8) with 0 in Hmax by lia.
  rewrite N.div_0_l in Hmax by lia. lia.
Qed.

Lemma gsz_le_B g : N.of_nat (length g) <= max_amount -> gsz g <= B.
Proof.
  intros Hg. pose proof B_ge_16 as HB. unfold gsz, BPTree.node_size. unfold BPTree.max_amount in Hg.
  set (q := (B - 8 - 8) / (ksz + 8)) in *.
  set (x := N.of_nat (length g) - 1).
  assert (Hx : x <= q) by lia.
  assert (Hq : (ksz + 8) * q <= B - 8 - 8) by (apply N.mul_div_le; lia).
  clearbody q.
  assert (Hm : (ksz + 8) * x <= (ksz + 8) * q) by (apply N.mul_le_mono_l; assumption).
  lia.
Qed.

Lemma amount_bounds (arr : list (N * N)) : max_amount < N.of_nat (length arr) ->
  (2 <= N.to_nat (N.min max_amount (N.of_nat (length arr) - min_amount)) < length arr)%nat /\
  N.of_nat (N.to_nat (N.min max_amount (N.of_nat (length arr) - min_amount))) <= max_amount.
Proof. intros Hlt. pose proof min_amount_bounds as Hmin. lia. Qed.

Lemma groups_nonempty : forall fuel arr, arr <> [] -> Forall (fun g => g <> []) (groups fuel arr).
Proof.
  induction fuel as [|f IH]; intros arr Hne.
  - cbn. constructor; [assumption|constructor].
  - rewrite groups_S. destruct (max_amount <? N.of_nat (length arr)) eqn:E.
    + apply N.ltb_lt in E. destruct (amount_bounds arr E) as [Ha _].
      set (a := N.to_nat (N.min max_amount (N.of_nat (length arr) - min_amount))) in *.
      constructor.
      * apply length_ne. rewrite firstn_length. lia.
      * apply IH. apply length_ne. rewrite skipn_length. lia.
    + constructor; [assumption|constructor].
Qed.

Lemma groups_max : forall fuel arr, (length arr <= fuel)%nat ->
  Forall (fun g => N.of_nat (length g) <= max_amount) (groups fuel arr).
Proof.
  induction fuel as [|f IH]; intros arr Hlen.
  - cbn. constructor; [lia|constructor].
  - rewrite groups_S. destruct (max_amount <? N.of_nat (length arr)) eqn:E.
    + apply N.ltb_lt in E. destruct (amount_bounds arr E) as [Ha Hb].
      set (a := N.to_nat (N.min max_amount (N.of_nat (length arr) - min_amount))) in *.
      constructor.
      * rewrite firstn_length. lia.
      * apply IH. rewrite skipn_length. lia.
    + apply N.ltb_ge in E. constructor; [assumption|constructor].
Qed.

Lemma groups_length_le : forall fuel arr, (1 <= length arr)%nat -> (length (groups fuel arr) <= length arr)%nat.
Proof.
  induction fuel as [|f IH]; intros arr Hlen.
  - cbn. lia.
  - rewrite groups_S. destruct (max_amount <? N.of_nat (length arr)) eqn:E.
    + apply N.ltb_lt in E. destruct (amount_bounds arr E) as [Ha Hb].
      set (a := N.to_nat (N.min max_amount (N.of_nat (length arr) - min_amount))) in *.
      cbn [length]. specialize (IH (skipn a arr)). rewrite skipn_length in IH. lia.
    + cbn. lia.
Qed.

Lemma groups_count : forall fuel arr, (2 <= length arr)%nat -> (length (groups fuel arr) < length arr)%nat.
Proof.
  intros [|f] arr Hlen.
  - cbn. lia.
  - rewrite groups_S. destruct (max_amount <? N.of_nat (length arr)) eqn:E.
    + apply N.ltb_lt in E. destruct (amount_bounds arr E) as [Ha Hb].
      set (a := N.to_nat (N.min max_amount (N.of_nat (length arr) - min_amount))) in *.
      cbn [length]. pose proof (groups_length_le f (skipn a arr)) as Hle. rewrite skipn_length in Hle. lia.
    + cbn. lia.
Qed.

(** ** next_layer and write_layer over the same groups *)

Fixpoint nl (off : N) (gs : list (list (N * N))) : list (N * N) :=
  match gs with [] => [] | g :: r => (hdk g, off) :: nl (off + gsz g) r end.
Fixpoint lsz (gs : list (list (N * N))) : N :=
  match gs with [] => 0 | g :: r => gsz g + lsz r end.

Lemma next_layer_fold : forall gs acc off,
  fold_left (fun '(acc, off) g => (acc ++ [(fst (hd (0, 0) g), off)], off + node_size (N.of_nat (length g) - 1)))
            gs (acc, off) = (acc ++ nl off gs, off + lsz gs).
Proof.
  induction gs as [|g gs IH]; intros acc off; cbn [fold_left nl lsz].
  - rewrite app_nil_r. f_equal. lia.
  - rewrite IH. rewrite <- app_assoc. cbn [app]. unfold hdk, gsz. f_equal. lia.
Qed.

Lemma next_layer_eq arr : next_layer arr = (nl 0 (mk_groups arr), lsz (mk_groups arr)).
Proof. unfold BPTree.next_layer. rewrite next_layer_fold. reflexivity. Qed.

Lemma write_layer_eq arr base : write_layer arr base = map (mknode base) (mk_groups arr).
Proof. reflexivity. Qed.

Lemma nodes_size_mknodes base gs : nodes_size (map (mknode base) gs) = lsz gs.
Proof.
  induction gs as [|g gs IH]; cbn [map lsz]; [reflexivity|].
  rewrite nodes_size_cons, nsz_mknode, IH. reflexivity.
Qed.

Lemma nl_length : forall gs off, length (nl off gs) = length gs.
Proof. induction gs as [|g gs IH]; intros off; cbn; [reflexivity|]. rewrite IH. reflexivity. Qed.

Lemma nl_keys : forall gs off, map fst (nl off gs) = map hdk gs.
Proof. induction gs as [|g gs IH]; intros off; cbn; [reflexivity|]. rewrite IH. reflexivity. Qed.

Lemma nl_nth : forall gs off j, (j < length gs)%nat ->
  snd (nth j (nl off gs) (0, 0)) = off + lsz (firstn j gs).
Proof.
  induction gs as [|g gs IH]; intros off j Hj; cbn [length] in Hj; [lia|].
  destruct j as [|j]; cbn [nl nth firstn lsz snd].
  - lia.
  - rewrite IH by lia. lia.
Qed.

Lemma lsz_app a b : lsz (a ++ b) = lsz a + lsz b.
Proof. induction a as [|g a IH]; cbn [app lsz]; [lia|]. rewrite IH. lia. Qed.

Lemma split_nth (A : Type) (l : list A) j d : (j < length l)%nat ->
  l = firstn j l ++ nth j l d :: skipn (S j) l.
Proof.
  revert j; induction l as [|x l IH]; intros j Hj; cbn [length] in Hj; [lia|].
  destruct j as [|j]; cbn [firstn nth skipn app]; [reflexivity|]. f_equal. apply IH. lia.
Qed.

(* heads of consecutive non-empty groups of a sorted list are sorted *)
Lemma esorted_heads : forall gs off, Forall (fun g => g <> []) gs -> esorted (concat gs) -> esorted (nl off gs).
Proof.
  induction gs as [|g gs IH]; intros off Hall Hs; cbn [nl]; [constructor|].
  inversion Hall as [|a b Hg Hall']; subst. cbn [concat] in Hs.
  apply esorted_app_inv in Hs. destruct Hs as (Hsg & Hsr & Hlt).
  constructor; [apply IH; assumption|].
  rewrite Forall_forall. intros x Hx. cbn [fst].
  assert (Hk : In (fst x) (map hdk gs)). { rewrite <- (nl_keys gs (off + gsz g)). apply in_map. assumption. }
  rewrite in_map_iff in Hk. destruct Hk as (g' & Hk & Hin). rewrite <- Hk.
  assert (Hg' : g' <> []). { rewrite Forall_forall in Hall'. apply Hall'. assumption. }
  destruct g as [|e g]; [congruence|]. destruct g' as [|e' g']; [congruence|]. unfold hdk. cbn [hd].
  apply Hlt; [left; reflexivity|]. apply in_concat. exists (e' :: g'). split; [assumption|left; reflexivity].
Qed.


(** ** build_tree and the descent *)

Lemma build_tree_small : forall fuel arr to, (length arr <= 1)%nat -> build_tree fuel arr to [] = [].
Proof. intros [|f] [|a [|b arr]] to Hl; cbn [length] in Hl; try reflexivity; lia. Qed.

Lemma build_tree_step : forall f a b arr to,
  build_tree (S f) (a :: b :: arr) to [] =
  build_tree f (nl 0 (mk_groups (a :: b :: arr))) to [] ++
  map (mknode (to + lsz (mk_groups (a :: b :: arr))
               + nodes_size (build_tree f (nl 0 (mk_groups (a :: b :: arr))) to [])))
      (mk_groups (a :: b :: arr)).
Proof. intros. cbn [BPTree.build_tree]. rewrite next_layer_eq. reflexivity. Qed.

Lemma find_leaf_node : forall fu (f : file H) k off n,
  off < leaves_offset f -> node_at f off = Some n ->
  find_leaf (S fu) f k off = find_leaf fu f k (child n k).
Proof.
  intros fu f k off n Hlt Hn. cbn [BPTree.find_leaf]. apply N.ltb_lt in Hlt. rewrite Hlt, Hn. reflexivity.
Qed.

Lemma find_leaf_done : forall fu (f : file H) k off,
  leaves_offset f <= off -> find_leaf fu f k off = Some off.
Proof.
  intros fu f k off Hle. apply N.ltb_ge in Hle. destruct fu; cbn [BPTree.find_leaf]; rewrite Hle; reflexivity.
Qed.

Lemma node_at_mid : forall (f : file H) pre n post,
  nodes f = pre ++ n :: post -> nsz n <= B ->
  tree_offset f + nodes_size pre + B <= file_size f ->
  node_at f (tree_offset f + nodes_size pre) = Some n.
Proof.
  intros f pre n post Hn Hsz Hend. unfold BPTree.node_at. rewrite Hn, node_at_aux_mid.
  fold (nsz n). apply N.leb_le in Hsz. apply N.leb_le in Hend. rewrite Hsz, Hend.
  rewrite orb_true_r. reflexivity.
Qed.

Lemma descent : forall fuel arr (f : file H) rest k,
  (1 <= length arr)%nat -> (length arr <= S fuel)%nat ->
  esorted arr -> snd (hd (0, 0) arr) = 0 ->
  nodes f = build_tree fuel arr (tree_offset f) [] ++ rest ->
  tree_offset f + nodes_size (build_tree fuel arr (tree_offset f) []) <= leaves_offset f ->
  (build_tree fuel arr (tree_offset f) [] <> [] -> leaves_offset f + B <= file_size f) ->
  exists d, (d <= length (build_tree fuel arr (tree_offset f) []))%nat /\
    forall fuel2,
      find_leaf (d + fuel2) f k (tree_offset f) =
      find_leaf fuel2 f k
        (tree_offset f + nodes_size (build_tree fuel arr (tree_offset f) []) + snd (sel arr k)).
Proof.
  induction fuel as [|fu IH]; intros arr f rest k Hlen1 Hlen2 Hs Hhd Hnodes Hlo Hbig.
  - destruct arr as [|a [|b arr]]; cbn [length] in *; try lia.
    exists 0%nat. split; [cbn; lia|]. intros fuel2. cbn [BPTree.build_tree].
    rewrite nodes_size_nil. cbn in Hhd. unfold sel. cbn. rewrite Hhd.
    replace (tree_offset f + 0 + 0) with (tree_offset f) by lia. reflexivity.
  - destruct arr as [|a [|b arr]]; cbn [length] in Hlen1; try lia.
    { exists 0%nat. split; [cbn; lia|]. intros fuel2. cbn [BPTree.build_tree].
      rewrite nodes_size_nil. cbn in Hhd. unfold sel. cbn. rewrite Hhd.
      replace (tree_offset f + 0 + 0) with (tree_offset f) by lia. reflexivity. }
    rewrite build_tree_step in *.
    set (arr0 := a :: b :: arr) in *.
    set (gs := mk_groups arr0) in *.
    assert (Harrne : arr0 <> []) by (unfold arr0; congruence).
    assert (Hgne : gs <> []) by apply groups_not_nil.
    assert (Hgall : Forall (fun g => g <> []) gs) by (apply groups_nonempty; assumption).
    assert (Hgcat : concat gs = arr0) by apply groups_concat.
    assert (Hgmax : Forall (fun g => N.of_nat (length g) <= max_amount) gs) by (apply groups_max; lia).
    assert (Hgcnt : (length gs < length arr0)%nat) by (apply groups_count; unfold arr0; cbn [length]; lia).
    set (nn := nl 0 gs) in *.
    set (up := build_tree fu nn (tree_offset f) []) in *.
    set (base := tree_offset f + lsz gs + nodes_size up) in *.
    rewrite nodes_size_app, nodes_size_mknodes in Hlo.
    rewrite nodes_size_app, nodes_size_mknodes.
    assert (Hnsne : up ++ map (mknode base) gs <> []).
    { intros Heq. apply app_eq_nil in Heq. destruct Heq as [_ HW]. apply map_eq_nil in HW. contradiction. }
    specialize (Hbig Hnsne).
    assert (Hsnn : esorted nn).
    { apply esorted_heads; [assumption|]. rewrite Hgcat. assumption. }
    destruct (IH nn f (map (mknode base) gs ++ rest) k) as (d' & Hd' & Hfl).
    { unfold nn. rewrite nl_length. apply ne_length. assumption. }
    { unfold nn. rewrite nl_length. lia. }
    { assumption. }
    { unfold nn. destruct gs; [congruence|reflexivity]. }
    { rewrite app_assoc. assumption. }
    { fold up. lia. }
    { intros _. assumption. }
    fold up in Hd', Hfl.
    set (j := cntk (map fst (tl nn)) k) in *.
    assert (Hjeq : j = cntk (tl (map hdk gs)) k).
    { unfold j, nn. rewrite map_tl_, nl_keys. reflexivity. }
    assert (Hj : (j < length gs)%nat).
    { rewrite Hjeq. pose proof (cntk_le (tl (map hdk gs)) k) as Hle.
      destruct gs as [|g0 gs']; [congruence|]. cbn [map tl length] in *. rewrite map_length in Hle. lia. }
    assert (Hseln : snd (sel nn k) = lsz (firstn j gs)).
    { unfold sel. fold j. unfold nn. rewrite nl_nth by assumption. lia. }
    set (g := nth j gs []).
    assert (Hsplit : gs = firstn j gs ++ g :: skipn (S j) gs) by (apply split_nth; assumption).
    assert (Hgin : In g gs) by (apply nth_In; assumption).
    assert (Hg1 : g <> []). { rewrite Forall_forall in Hgall. apply Hgall. assumption. }
    assert (Hg2 : N.of_nat (length g) <= max_amount). { rewrite Forall_forall in Hgmax. apply Hgmax. assumption. }
    assert (Hselg : sel g k = sel arr0 k).
    { unfold g. rewrite Hjeq. rewrite <- Hgcat. apply sel_groups; [assumption|assumption|]. rewrite Hgcat. assumption. }
    assert (Hlsz : lsz gs = lsz (firstn j gs) + gsz g + lsz (skipn (S j) gs)).
    { rewrite Hsplit at 1. rewrite lsz_app. cbn [lsz]. lia. }
    pose proof (gsz_pos g) as Hgpos.
    exists (S d'). split.
    { rewrite app_length, map_length. apply ne_length in Hgne. lia. }
    intros fuel2. replace (S d' + fuel2)%nat with (d' + S fuel2)%nat by lia.
    rewrite Hfl, Hseln.
    rewrite (find_leaf_node fuel2 f k _ (mknode base g)).
    + rewrite child_mknode by assumption. rewrite Hselg. f_equal. unfold base. lia.
    + lia.
    + replace (tree_offset f + nodes_size up + lsz (firstn j gs))
        with (tree_offset f + nodes_size (up ++ map (mknode base) (firstn j gs)))
        by (rewrite nodes_size_app, nodes_size_mknodes; lia).
      apply (node_at_mid f _ _ (map (mknode base) (skipn (S j) gs) ++ rest)).
      * rewrite Hnodes. rewrite Hsplit at 1. rewrite map_app. cbn [map].
        rewrite <- !app_assoc. reflexivity.
      * rewrite nsz_mknode. apply gsz_le_B. assumption.
      * rewrite nodes_size_app, nodes_size_mknodes. lia.
Qed.

End Tree.


(** ** Leaf packing *)

Fixpoint leaves_from (off rem mk mo : N) (m : inmem) : list (N * N) :=
  match m with
  | [] => [(mk, mo)]
  | (k, v) :: m' =>
    if rem <? rhs
    then (mk, mo) :: leaves_from (off + N.of_nat (length v) * rhs) (B - N.of_nat (length v) * rhs) k off m'
    else leaves_from (off + N.of_nat (length v) * rhs) (rem - N.of_nat (length v) * rhs) mk mo m'
  end.

Lemma leaf_step_eq off rem mk mo acc k (v : list H) :
  leaf_step (off, rem, mk, mo, acc) (k, v) =
  if rem <? rhs
  then (off + N.of_nat (length v) * rhs, B - N.of_nat (length v) * rhs, k, off, acc ++ [(mk, mo)])
  else (off + N.of_nat (length v) * rhs, rem - N.of_nat (length v) * rhs, mk, mo, acc).
Proof. unfold BPTree.leaf_step. destruct (rem <? rhs); reflexivity. Qed.

Lemma leaves_fold : forall m off rem mk mo acc,
  (let '(_, _, mk', mo', acc') := fold_left leaf_step m (off, rem, mk, mo, acc) in acc' ++ [(mk', mo')])
  = acc ++ leaves_from off rem mk mo m.
Proof.
  induction m as [|[k v] m IH]; intros off rem mk mo acc; cbn [fold_left leaves_from].
  - reflexivity.
  - rewrite leaf_step_eq. destruct (rem <? rhs).
    + rewrite IH. rewrite <- app_assoc. reflexivity.
    + apply IH.
Qed.

Lemma leaves_cons k0 v0 m : rhs <= B ->
  leaves ((k0, v0) :: m) =
  leaves_from (N.of_nat (length v0) * rhs) (B - N.of_nat (length v0) * rhs) k0 0 m.
Proof.
  intros HB. unfold BPTree.leaves. rewrite leaves_fold. cbn [app leaves_from].
  assert (E : (B <? rhs) = false) by (apply N.ltb_ge; assumption). rewrite E.
  replace (0 + N.of_nat (length v0) * rhs) with (N.of_nat (length v0) * rhs) by lia. reflexivity.
Qed.

Lemma leaves_from_cons : forall m off rem mk mo,
  leaves_from off rem mk mo m = (mk, mo) :: tl (leaves_from off rem mk mo m).
Proof.
  induction m as [|[k v] m IH]; intros off rem mk mo; cbn [leaves_from].
  - reflexivity.
  - destruct (rem <? rhs); [reflexivity|apply IH].
Qed.

Lemma leaves_from_ne m off rem mk mo : leaves_from off rem mk mo m <> [].
Proof. rewrite leaves_from_cons. congruence. Qed.

Lemma leaves_from_hdk m off rem mk mo : hdk (leaves_from off rem mk mo m) = mk.
Proof. rewrite leaves_from_cons. reflexivity. Qed.

Lemma leaves_from_hd m off rem mk mo : hd (0, 0) (leaves_from off rem mk mo m) = (mk, mo).
Proof. rewrite leaves_from_cons. reflexivity. Qed.

Lemma leaves_from_tl_keys : forall (P : N -> Prop) m off rem mk mo,
  Forall (fun kv => P (fst kv)) m -> Forall (fun e => P (fst e)) (tl (leaves_from off rem mk mo m)).
Proof.
  intros P. induction m as [|[k v] m IH]; intros off rem mk mo Hall; cbn [leaves_from].
  - constructor.
  - inversion Hall as [|x l Hk Hall']; subst. cbn [fst] in Hk.
    destruct (rem <? rhs).
    + cbn [tl]. rewrite leaves_from_cons. constructor; [exact Hk|]. apply IH. assumption.
    + apply IH. assumption.
Qed.

Lemma leaves_from_length : forall m off rem mk mo,
  (1 <= length (leaves_from off rem mk mo m) <= S (length m))%nat.
Proof.
  induction m as [|[k v] m IH]; intros off rem mk mo; cbn [leaves_from length].
  - lia.
  - destruct (rem <? rhs); cbn [length].
    + specialize (IH (off + N.of_nat (length v) * rhs) (B - N.of_nat (length v) * rhs) k off). lia.
    + specialize (IH (off + N.of_nat (length v) * rhs) (rem - N.of_nat (length v) * rhs) mk mo). lia.
Qed.

Lemma leaves_from_sorted : forall m off rem mk mo,
  StronglySorted N.lt (mk :: map fst m) -> esorted (leaves_from off rem mk mo m).
Proof.
  induction m as [|[k v] m IH]; intros off rem mk mo Hs; cbn [leaves_from].
  - constructor; constructor.
  - cbn [map fst] in Hs. apply StronglySorted_inv in Hs. destruct Hs as [Hs Hmk].
    pose proof (Forall_inv Hmk) as Hmkk. pose proof (Forall_inv_tail Hmk) as Hmkm.
    destruct (rem <? rhs).
    + constructor; [apply IH; assumption|].
      rewrite leaves_from_cons. constructor; [exact Hmkk|].
      apply (leaves_from_tl_keys (fun x => mk < x)). rewrite <- Forall_map. assumption.
    + apply IH. apply StronglySorted_inv in Hs. destruct Hs as [Hs' _]. constructor; assumption.
Qed.

Lemma leaves_from_sel_low : forall m off rem mk mo k,
  Forall (fun kv => k < fst kv) m -> sel (leaves_from off rem mk mo m) k = (mk, mo).
Proof.
  intros m off rem mk mo k Hall. unfold sel. rewrite cntk_none.
  - rewrite leaves_from_cons. reflexivity.
  - rewrite Forall_map. apply (leaves_from_tl_keys (fun x => k < x)). assumption.
Qed.

Lemma sel_skip e1 L k : L <> [] -> fst e1 <= k -> hdk L <= k -> sel (e1 :: L) k = sel L k.
Proof.
  intros HL H1 H2. destruct L as [|e2 L]; [congruence|]. unfold hdk in H2. cbn [hd] in H2.
  apply (sel_app_r [e1] e2 L k); [congruence| |assumption]. constructor; [assumption|constructor].
Qed.

Lemma wf_keys_sorted m : wf m -> StronglySorted N.lt (map fst m).
Proof.
  intros [Hs _]. induction Hs as [|a l Hs IH Hf]; cbn [map]; constructor; [assumption|].
  rewrite Forall_map. assumption.
Qed.

(* the leaf selected for a present key starts at a record index s at or before the first record of
   the key, and that record lies inside the first B bytes of the leaf *)
Lemma leaves_from_sel : forall m1 k v m2 off rem mk mo c cm,
  StronglySorted N.lt (mk :: map fst (m1 ++ (k, v) :: m2)) ->
  0 < rhs -> rhs <= B ->
  off = c * rhs -> mo = cm * rhs -> cm <= c -> rem = mo + B - off ->
  exists ki s, sel (leaves_from off rem mk mo (m1 ++ (k, v) :: m2)) k = (ki, s * rhs) /\
     s <= c + N.of_nat (length (flat m1)) /\
     (c + N.of_nat (length (flat m1))) * rhs + rhs <= s * rhs + B.
Proof.
  induction m1 as [|[k1 v1] m1 IH]; intros k v m2 off rem mk mo c cm Hs Hrhs HB Hoff Hmo Hcm Hrem.
  - cbn [app leaves_from]. cbn [app map fst] in Hs.
    apply StronglySorted_inv in Hs. destruct Hs as [Hs Hmk].
    apply StronglySorted_inv in Hs. destruct Hs as [Hs2 Hk].
    pose proof (Forall_inv Hmk) as Hmkk.
    assert (Hlow : Forall (fun kv : N * list H => k < fst kv) m2) by (rewrite <- Forall_map; assumption).
    change (length (flat [])) with 0%nat.
    destruct (rem <? rhs) eqn:E.
    + apply N.ltb_lt in E.
      rewrite sel_skip; [|apply leaves_from_ne|cbn [fst]; lia|rewrite leaves_from_hdk; lia].
      rewrite leaves_from_sel_low by assumption. exists k, c. split; [rewrite Hoff; reflexivity|]. split; lia.
    + apply N.ltb_ge in E. rewrite leaves_from_sel_low by assumption.
      exists mk, cm. split; [rewrite Hmo; reflexivity|]. split; [lia|]. subst off mo rem. lia.
  - cbn [app leaves_from]. cbn [app map fst] in Hs.
    apply StronglySorted_inv in Hs. destruct Hs as [Hs Hmk].
    pose proof (Forall_inv Hmk) as Hmk1. pose proof (Forall_inv_tail Hmk) as Hmkm.
    assert (Hk1k : k1 < k).
    { pose proof Hs as Hs'. apply StronglySorted_inv in Hs'. destruct Hs' as [_ Hf]. rewrite Forall_forall in Hf.
      apply Hf. rewrite map_app. apply in_or_app. right. left. reflexivity. }
    rewrite flat_cons, app_length, rev_length.
    destruct (rem <? rhs) eqn:E.
    + apply N.ltb_lt in E.
      destruct (IH k v m2 (off + N.of_nat (length v1) * rhs) (B - N.of_nat (length v1) * rhs) k1 off
                   (c + N.of_nat (length v1)) c Hs Hrhs HB ltac:(subst off; lia) Hoff ltac:(lia) ltac:(lia))
        as (ki & s & Hsel & H1 & H2).
      exists ki, s. split; [|split; lia].
      rewrite sel_skip; [exact Hsel|apply leaves_from_ne|cbn [fst]; lia|rewrite leaves_from_hdk; lia].
    + apply N.ltb_ge in E.
      assert (Hs' : StronglySorted N.lt (mk :: map fst (m1 ++ (k, v) :: m2))).
      { apply StronglySorted_inv in Hs. destruct Hs as [Hs' _]. constructor; assumption. }
      destruct (IH k v m2 (off + N.of_nat (length v1) * rhs) (rem - N.of_nat (length v1) * rhs) mk mo
                   (c + N.of_nat (length v1)) cm Hs' Hrhs HB ltac:(subst off; lia) Hmo ltac:(lia) ltac:(lia))
        as (ki & s & Hsel & H1 & H2).
      exists ki, s. split; [exact Hsel|split; lia].
Qed.

(* two leaves or more: the record region is larger than a block *)
Lemma leaves_from_big : forall m off rem mk mo,
  0 < rhs ->
  Forall (fun kv : N * list H => snd kv <> []) m -> rem = mo + B - off -> mo <= off ->
  (2 <= length (leaves_from off rem mk mo m))%nat ->
  mo + B < off + N.of_nat (length (flat m)) * rhs.
Proof.
  induction m as [|[k v] m IH]; intros off rem mk mo Hrhs Hne Hrem Hmo Hlen; cbn [leaves_from] in Hlen.
  - cbn in Hlen. lia.
  - inversion Hne as [|x l Hv Hne']; subst x l. cbn [snd] in Hv. apply ne_length in Hv.
    rewrite flat_cons, app_length, rev_length.
    destruct (rem <? rhs) eqn:E.
    + apply N.ltb_lt in E.
      assert (Hmul : 1 * rhs <= N.of_nat (length v + length (flat m)) * rhs) by (apply N.mul_le_mono_r; lia).
      lia.
    + apply N.ltb_ge in E.
      specialize (IH (off + N.of_nat (length v) * rhs) (rem - N.of_nat (length v) * rhs) mk mo
                     Hrhs Hne' ltac:(lia) ltac:(lia) Hlen).
      rewrite Nat2N.inj_add, N.mul_add_distr_r. lia.
Qed.


(** ** Putting the pieces together *)

Lemma max_amount_ge2 : ksz + 24 <= B -> 2 <= max_amount.
Proof.
  intros HB. unfold BPTree.max_amount.
  assert (Hq : 1 <= (B - 8 - 8) / (ksz + 8)) by (apply N.div_le_lower_bound; lia).
  revert Hq. generalize ((B - 8 - 8) / (ksz + 8)). intros q Hq. lia.
Qed.

(* facts about the leaf list of a well-formed non-empty map, relative to a present key *)
Lemma leaves_facts : forall m1 k v m2,
  wf (m1 ++ (k, v) :: m2) -> 0 < rhs -> rhs <= B ->
  (1 <= length (leaves (m1 ++ (k, v) :: m2)) <= length (m1 ++ (k, v) :: m2))%nat /\
  esorted (leaves (m1 ++ (k, v) :: m2)) /\
  snd (hd (0, 0) (leaves (m1 ++ (k, v) :: m2))) = 0 /\
  ((2 <= length (leaves (m1 ++ (k, v) :: m2)))%nat ->
     B < N.of_nat (length (flat (m1 ++ (k, v) :: m2))) * rhs) /\
  exists ki s, sel (leaves (m1 ++ (k, v) :: m2)) k = (ki, s * rhs) /\
     s <= N.of_nat (length (flat m1)) /\
     N.of_nat (length (flat m1)) * rhs + rhs <= s * rhs + B.
Proof.
  intros m1 k v m2 Hw Hrhs HB.
  pose proof (wf_keys_sorted _ Hw) as Hks.
  assert (Hvne : Forall (fun kv : N * list H => snd kv <> []) (m1 ++ (k, v) :: m2)).
  { destruct Hw as [_ Hf]. eapply Forall_impl; [|exact Hf]. cbn. tauto. }
  destruct m1 as [|[k0 v0] m1]; cbn [app] in *.
  - rewrite leaves_cons by assumption.
    cbn [map fst] in Hks. apply StronglySorted_inv in Hks. destruct Hks as [Hks Hk].
    assert (Hlow : Forall (fun kv : N * list H => k < fst kv) m2) by (rewrite <- Forall_map; assumption).
    pose proof (Forall_inv Hvne) as Hv. cbn [snd] in Hv. apply ne_length in Hv.
    pose proof (Forall_inv_tail Hvne) as Hvne'.
    split; [|split; [|split; [|split]]].
    + pose proof (leaves_from_length m2 (N.of_nat (length v) * rhs) (B - N.of_nat (length v) * rhs) k 0) as Hl.
      cbn [length]. lia.
    + apply leaves_from_sorted. constructor; assumption.
    + rewrite leaves_from_hd. reflexivity.
    + intros Hlen. rewrite flat_cons, app_length, rev_length.
      pose proof (leaves_from_big m2 (N.of_nat (length v) * rhs) (B - N.of_nat (length v) * rhs) k 0
                    Hrhs Hvne' ltac:(lia) ltac:(lia) Hlen) as Hbig.
      rewrite Nat2N.inj_add, N.mul_add_distr_r. lia.
    + exists k, 0. rewrite leaves_from_sel_low by assumption. split; [f_equal; lia|].
      change (length (flat [])) with 0%nat. split; lia.
  - rewrite leaves_cons by assumption.
    cbn [map fst] in Hks.
    pose proof (Forall_inv Hvne) as Hv. cbn [snd] in Hv. apply ne_length in Hv.
    pose proof (Forall_inv_tail Hvne) as Hvne'.
    split; [|split; [|split; [|split]]].
    + pose proof (leaves_from_length (m1 ++ (k, v) :: m2) (N.of_nat (length v0) * rhs)
                    (B - N.of_nat (length v0) * rhs) k0 0) as Hl.
      cbn [length]. lia.
    + apply leaves_from_sorted. assumption.
    + rewrite leaves_from_hd. reflexivity.
    + intros Hlen. rewrite flat_cons, app_length, rev_length.
      pose proof (leaves_from_big (m1 ++ (k, v) :: m2) (N.of_nat (length v0) * rhs)
                    (B - N.of_nat (length v0) * rhs) k0 0
                    Hrhs Hvne' ltac:(lia) ltac:(lia) Hlen) as Hbig.
      rewrite Nat2N.inj_add, N.mul_add_distr_r. lia.
    + destruct (leaves_from_sel m1 k v m2 (N.of_nat (length v0) * rhs) (B - N.of_nat (length v0) * rhs) k0 0
                  (N.of_nat (length v0)) 0 Hks Hrhs HB eq_refl ltac:(lia) ltac:(lia) ltac:(lia))
        as (ki & s & Hsel & H1 & H2).
      exists ki, s. split; [exact Hsel|].
      rewrite flat_cons, app_length, rev_length, Nat2N.inj_add. split; lia.
Qed.

(* Stage 3: the descent ends on a leaf whose B-byte buffer contains the first record of the key *)
Theorem find_leaf_serialize : forall hdr_end m1 k v m2,
  wf (m1 ++ (k, v) :: m2) -> 0 < rhs -> rhs <= B -> 2 <= max_amount ->
  exists s,
    find_leaf (S (length (nodes (serialize hdr_end (m1 ++ (k, v) :: m2)))))
              (serialize hdr_end (m1 ++ (k, v) :: m2)) k
              (tree_offset (serialize hdr_end (m1 ++ (k, v) :: m2)))
      = Some (leaves_offset (serialize hdr_end (m1 ++ (k, v) :: m2)) + rhs * s) /\
    s <= N.of_nat (length (flat m1)) /\
    N.of_nat (length (flat m1)) * rhs + rhs <= s * rhs + B.
Proof.
  intros hdr_end m1 k v m2 Hw Hrhs HB Hmax.
  destruct (leaves_facts m1 k v m2 Hw Hrhs HB) as (Hlen & Hsort & Hhd & Hbig & ki & s & Hsel & Hs1 & Hs2).
  set (m := m1 ++ (k, v) :: m2) in *.
  set (f := serialize hdr_end m).
  set (ns := build_tree (length m) (leaves m) hdr_end []).
  assert (Hnodes : nodes f = ns) by reflexivity.
  assert (Hto : tree_offset f = hdr_end) by reflexivity.
  assert (Hlo : leaves_offset f = hdr_end + nodes_size ns) by reflexivity.
  assert (Hfs : file_size f = hdr_end + nodes_size ns + N.of_nat (length (flat m)) * rhs) by reflexivity.
  destruct (descent Hmax (length m) (leaves m) f [] k) as (d & Hd & Hfl).
  - lia.
  - lia.
  - assumption.
  - assumption.
  - rewrite Hto. fold ns. rewrite app_nil_r. assumption.
  - rewrite Hto. fold ns. lia.
  - rewrite Hto. fold ns. intros Hne.
    destruct (Nat.le_gt_cases (length (leaves m)) 1) as [Hle|Hgt].
    + exfalso. apply Hne. unfold ns. apply build_tree_small; assumption.
    + specialize (Hbig ltac:(lia)). lia.
  - rewrite Hto in Hd, Hfl. fold ns in Hd, Hfl.
    exists s. split; [|split; assumption].
    rewrite Hnodes, Hto.
    replace (S (length ns)) with (d + (S (length ns) - d))%nat by lia.
    rewrite Hfl, Hsel. cbn [snd].
    rewrite find_leaf_done by lia. f_equal. lia.
Qed.

Theorem serialize_equiv : forall hdr_end m,
  wf m -> 0 < rhs -> rhs <= B -> ksz + 24 <= B ->
  (forall k, get_latest_file (serialize hdr_end m) k = get_latest_mem m k) /\
  (forall k, get_all_file (serialize hdr_end m) k = get_all_mem m k) /\
  f_count (serialize hdr_end m) = count m /\
  load_file (serialize hdr_end m) = m.
Proof.
  intros hdr_end m Hw Hrhs HB HB2.
  pose proof (max_amount_ge2 HB2) as Hmax.
  assert (Hboth : forall k, get_latest_file (serialize hdr_end m) k = get_latest_mem m k /\
                            get_all_file (serialize hdr_end m) k = get_all_mem m k).
  { intros k. rewrite get_latest_file_eq, get_all_file_eq.
    destruct (lookup m k) as [v|] eqn:El.
    - destruct (lookup_split _ _ _ El) as (m1 & m2 & Hm). subst m.
      destruct (find_leaf_serialize hdr_end m1 k v m2 Hw Hrhs HB Hmax) as (s & Hfind & Hs1 & Hs2).
      rewrite Hfind.
      apply (leaf_lookup_present hdr_end m1 k v m2 s Hw Hrhs Hs1).
      set (m := m1 ++ (k, v) :: m2) in *.
      set (LO := leaves_offset (serialize hdr_end m)).
      change (file_size (serialize hdr_end m)) with (LO + N.of_nat (length (flat m)) * rhs).
      set (P := N.of_nat (length (flat m1))) in *.
      set (T := N.of_nat (length (flat m))).
      assert (HT : P + 1 <= T).
      { unfold T, P, m. rewrite flat_app, flat_cons, !app_length, rev_length.
        destruct (wf_app_inv _ _ Hw) as [_ Hw2]. apply wf_cons_inv in Hw2. destruct Hw2 as (Hne & _).
        apply ne_length in Hne. lia. }
      assert (HTm : (P + 1) * rhs <= T * rhs) by (apply N.mul_le_mono_r; assumption).
      assert (Hq : P + 1 - s <= N.min (LO + T * rhs - (LO + rhs * s)) B / rhs).
      { apply N.div_le_lower_bound; [lia|]. rewrite N.mul_comm, N.mul_sub_distr_r. lia. }
      revert Hq. generalize (N.min (LO + T * rhs - (LO + rhs * s)) B / rhs). intros q Hq. lia.
    - unfold BPTree.get_latest_mem, BPTree.get_all_mem. rewrite El.
      destruct (find_leaf _ _ _ _) as [lo|]; [|split; reflexivity].
      apply leaf_lookup_absent; assumption. }
  split; [intros k; apply Hboth|]. split; [intros k; apply Hboth|].
  split; [apply count_serialize|apply load_serialize; assumption].
Qed.

End Proofs.

(** * The real instance: B = 4096, rhs = ksz + 57, 1 <= ksz <= 1000 *)

Corollary serialize_equiv_pearl : forall (H : Type) (hkey : H -> N) ksz hdr_end (m : inmem H),
  1 <= ksz -> ksz <= 1000 -> wf H hkey m ->
  let f := serialize H 4096 ksz (ksz + 57) hdr_end m in
  (forall k, get_latest_file H hkey 4096 ksz (ksz + 57) f k = get_latest_mem H m k) /\
  (forall k, get_all_file H hkey 4096 ksz (ksz + 57) f k = get_all_mem H m k) /\
  f_count f = count H m /\
  load_file H hkey f = m.
Proof.
  intros H hkey ksz hdr_end m Hk1 Hk2 Hw. apply serialize_equiv; [assumption|lia|lia|lia].
Qed.

Corollary load_serialize_pearl : forall (H : Type) (hkey : H -> N) ksz hdr_end (m : inmem H),
  wf H hkey m -> load_file H hkey (serialize H 4096 ksz (ksz + 57) hdr_end m) = m.
Proof. intros. apply load_serialize. assumption. Qed.

(* the statement in the shape used by the property check (the hypothesis m <> [] is not needed) *)
Corollary serialize_equiv_nonempty : forall (H : Type) (hkey : H -> N) (B ksz rhs hdr_end : N) (m : inmem H),
  wf H hkey m -> m <> [] -> 0 < rhs -> rhs <= B -> ksz + 24 <= B ->
  let f := serialize H B ksz rhs hdr_end m in
  (forall k, get_latest_file H hkey B ksz rhs f k = get_latest_mem H m k) /\
  (forall k, get_all_file H hkey B ksz rhs f k = get_all_mem H m k) /\
  f_count f = count H m /\ load_file H hkey f = m.
Proof. intros H hkey B ksz rhs hdr_end m Hw _ H1 H2 H3. apply serialize_equiv; assumption. Qed.

Print Assumptions count_serialize.
Print Assumptions recs_serialize.
Print Assumptions load_serialize.
Print Assumptions leaf_lookup_present.
Print Assumptions leaf_lookup_absent.
Print Assumptions find_leaf_serialize.
Print Assumptions serialize_equiv.
Print Assumptions serialize_equiv_pearl.
