(* SyncAcctProofs.v -- proofs about the model in SyncAcct.v *)
From Coq Require Import List NArith Arith Lia Bool.
Require Import Pearl.Conc.SyncAcct.
Import ListNotations.
Arguments N.add : simpl never.
Arguments N.sub : simpl never.
Arguments N.eqb : simpl never.
Arguments N.ltb : simpl never.
Arguments N.leb : simpl never.
Arguments N.max : simpl never.
Arguments N.min : simpl never.
Open Scope N_scope.

(* ================================================================== *)
(* Part 0: concrete witnesses (computed)                               *)
(* ================================================================== *)

(* 3. the code before the repair: sync loads [size] *)
Theorem old_protocol_refuted :
  exists b ths sched,
    fresh ths /\
    let '(g, _) := run POldSyncLoadsSize (init b ths) sched in
    g_durable g < g_synced g.
Proof.
  exists 10, [TA (ANew 5); TS SNew], [0; 0; 1; 1; 1]%nat.
  split; [reflexivity | vm_compute; reflexivity].
Qed.

(* 4. decrement first, load size afterwards *)
Theorem load_after_decrement_refuted :
  exists b ths sched,
    fresh ths /\
    let '(g, _) := run PLoadAfterDecrement (init b ths) sched in
    g_durable g < g_synced g.
Proof.
  exists 0, [TA (ANew 5); TA (ANew 7); TS SNew],
         [0; 0; 0; 0; 1; 1; 0; 2; 2; 2]%nat.
  split; [reflexivity | vm_compute; reflexivity].
Qed.

(* 6. without the serialising lock the counter is safe but not exact *)
Theorem concurrent_appends_may_underestimate :
  exists b ths sched,
    fresh ths /\
    let '(g, ths') := run PNew (init b ths) sched in
    forallb is_done ths' = true /\ g_pending g = 0 /\ g_written g < g_size g.
Proof.
  exists 0, [TA (ANew 5); TA (ANew 7)],
         [0; 0; 0; 0; 1; 1; 1; 1; 1; 0]%nat.
  split; [reflexivity | vm_compute; repeat split; reflexivity].
Qed.

(* 7. non-vacuity *)
Definition ex_ths : list thread :=
  [TA (ANew 5); TA (ANew 7); TS SNew; TA (ANew 11); TS SNew].

Definition ex_sched : list nat :=
  [0; 1; 2; 1; 0; 3; 2; 0; 3; 2; 1; 0; 0; 3; 1; 3; 1; 3; 4; 4; 4]%nat.

Example ex_fresh : fresh ex_ths.
Proof. reflexivity. Qed.

Example ex_final :
  run PNew (init 100 ex_ths) ex_sched
  = (mkG 123 0 123 123 123,
     [TA ADone; TA ADone; TS SDone; TA ADone; TS SDone]).
Proof. vm_compute. reflexivity. Qed.

Example ex_final_synced_is_size :
  let '(g, ths') := run PNew (init 100 ex_ths) ex_sched in
  forallb is_done ths' = true /\ g_synced g = g_size g /\ g_size g = 123.
Proof. vm_compute. repeat split; reflexivity. Qed.

(* the first sync of the same run, observed midway: it ran while appends were
   in flight and is strictly behind [size] but not ahead of [durable] *)
Example ex_midway :
  let '(g, _) := run PNew (init 100 ex_ths) (firstn 10 ex_sched) in
  g_synced g = 100 /\ g_durable g = 100 /\ g_size g = 123.
Proof. vm_compute. repeat split; reflexivity. Qed.

(* ================================================================== *)
(* Part 1: generic lemmas on [upd], [clp] and the in-flight count      *)
(* ================================================================== *)

(* weight of a thread in appends_in_flight *)
Definition wt (t : thread) : N :=
  match t with
  | TA (AIncd _) | TA (AReserved _ _) | TA (ALanded _ _) | TA (ALoaded _) => 1
  | _ => 0
  end.

Fixpoint count (ths : list thread) : N :=
  match ths with
  | [] => 0
  | t :: r => wt t + count r
  end.

Definition isres (t : thread) : bool :=
  match t with
  | TA (AReserved _ _) => true
  | _ => false
  end.

Lemma wt_le_1 : forall t, wt t <= 1.
Proof. intros [[]|[]]; cbn [wt]; lia. Qed.

Lemma clp_cons_nonres :
  forall t r s, isres t = false -> clp (t :: r) s = clp r s.
Proof.
  intros t r s Hres. destruct t as [[]|[]]; cbn [clp]; try reflexivity.
  discriminate Hres.
Qed.

Lemma clp_le : forall ths s, clp ths s <= s.
Proof.
  induction ths as [|t r IH]; intros s; cbn [clp]; [lia|].
  specialize (IH s).
  destruct t as [[]|[]]; try exact IH. lia.
Qed.

Lemma count_upd :
  forall ths i t t',
    nth_error ths i = Some t ->
    count (upd ths i t') + wt t = count ths + wt t'.
Proof.
  induction ths as [|x r IH]; intros i t t' Hn.
  - destruct i; discriminate Hn.
  - destruct i as [|j]; cbn [nth_error] in Hn; cbn [upd count].
    + injection Hn as Hx. subst x. lia.
    + specialize (IH j t t' Hn). lia.
Qed.

Lemma wt_le_count :
  forall ths i t, nth_error ths i = Some t -> wt t <= count ths.
Proof.
  induction ths as [|x r IH]; intros i t Hn.
  - destruct i; discriminate Hn.
  - destruct i as [|j]; cbn [nth_error] in Hn; cbn [count].
    + injection Hn as Hx. subst x. lia.
    + specialize (IH j t Hn). lia.
Qed.

Lemma clp_upd_same :
  forall ths i t t' s,
    nth_error ths i = Some t -> isres t = false -> isres t' = false ->
    clp (upd ths i t') s = clp ths s.
Proof.
  induction ths as [|x r IH]; intros i t t' s Hn Ht Ht'.
  - destruct i; discriminate Hn.
  - destruct i as [|j]; cbn [nth_error] in Hn; cbn [upd].
    + injection Hn as Hx. subst x.
      rewrite (clp_cons_nonres t' r s Ht'), (clp_cons_nonres t r s Ht).
      reflexivity.
    + specialize (IH j t t' s Hn Ht Ht').
      destruct x as [[]|[]]; cbn [clp]; rewrite IH; reflexivity.
Qed.

Lemma clp_upd_land :
  forall ths i t' s,
    isres t' = false -> clp ths s <= clp (upd ths i t') s.
Proof.
  induction ths as [|x r IH]; intros i t' s Ht'.
  - cbn [upd]. lia.
  - destruct i as [|j]; cbn [upd].
    + rewrite (clp_cons_nonres t' r s Ht').
      destruct x as [[]|[]]; cbn [clp]; lia.
    + specialize (IH j t' s Ht').
      destruct x as [[]|[]]; cbn [clp]; lia.
Qed.

Lemma clp_grow :
  forall r s len, N.min s (clp r (s + len)) = clp r s.
Proof.
  induction r as [|x r IH]; intros s len; cbn [clp]; [lia|].
  specialize (IH s len).
  destruct x as [[]|[]]; try exact IH. lia.
Qed.

Lemma clp_upd_reserve :
  forall ths i t s len,
    nth_error ths i = Some t -> isres t = false ->
    clp (upd ths i (TA (AReserved s len))) (s + len) = clp ths s.
Proof.
  induction ths as [|x r IH]; intros i t s len Hn Ht.
  - destruct i; discriminate Hn.
  - destruct i as [|j]; cbn [nth_error] in Hn; cbn [upd].
    + injection Hn as Hx. subst x.
      rewrite (clp_cons_nonres t r s Ht). cbn [clp]. apply clp_grow.
    + specialize (IH j t s len Hn Ht).
      destruct x as [[]|[]]; cbn [clp]; rewrite IH; reflexivity.
Qed.

Lemma count0_clp : forall ths s, count ths = 0 -> clp ths s = s.
Proof.
  induction ths as [|x r IH]; intros s Hc; cbn [clp]; [reflexivity|].
  cbn [count] in Hc.
  assert (Hr : count r = 0) by lia.
  specialize (IH s Hr).
  destruct x as [[]|[]]; try exact IH.
  cbn [wt] in Hc. lia.
Qed.

Lemma Forall_upd :
  forall (P : thread -> Prop) ths i t',
    Forall P ths -> P t' -> Forall P (upd ths i t').
Proof.
  intros P. induction ths as [|x r IH]; intros i t' Hall Ht'.
  - cbn [upd]. constructor.
  - inversion Hall as [|x0 r0 Hx Hr]; subst.
    destruct i as [|j]; cbn [upd]; constructor; auto.
Qed.

Lemma Forall_nth :
  forall (P : thread -> Prop) ths i t,
    Forall P ths -> nth_error ths i = Some t -> P t.
Proof.
  intros P ths i t Hall Hn.
  rewrite Forall_forall in Hall. apply Hall.
  eapply nth_error_In; eassumption.
Qed.

Lemma count0_Forall :
  forall (Q : thread -> Prop) ths,
    (forall u, wt u = 0 -> Q u) -> count ths = 0 -> Forall Q ths.
Proof.
  intros Q. induction ths as [|x r IH]; intros HQ Hc; constructor.
  - apply HQ. cbn [count] in Hc. lia.
  - apply IH; [exact HQ|]. cbn [count] in Hc. lia.
Qed.

(* if thread i is the only one that may be in flight, a predicate that is
   trivial on not-in-flight threads holds everywhere after updating i *)
Lemma Forall_upd_sole :
  forall (Q : thread -> Prop) ths i t t',
    nth_error ths i = Some t -> count ths = wt t ->
    (forall u, wt u = 0 -> Q u) -> Q t' ->
    Forall Q (upd ths i t').
Proof.
  intros Q. induction ths as [|x r IH]; intros i t t' Hn Hc HQ Ht'.
  - destruct i; discriminate Hn.
  - destruct i as [|j]; cbn [nth_error] in Hn; cbn [upd count] in *.
    + injection Hn as Hx. subst x. constructor; [exact Ht'|].
      apply count0_Forall; [exact HQ | lia].
    + pose proof (wt_le_count r j t Hn) as Hle.
      constructor.
      * apply HQ. lia.
      * apply (IH j t t' Hn); [lia | exact HQ | exact Ht'].
Qed.

Lemma fresh_facts :
  forall ths, fresh ths ->
    count ths = 0 /\ Forall (fun t => is_fresh t = true) ths.
Proof.
  unfold fresh. induction ths as [|x r IH]; intros Hf.
  - split; [reflexivity | constructor].
  - cbn [forallb] in Hf. apply andb_true_iff in Hf. destruct Hf as [Hx Hr].
    destruct (IH Hr) as [Hc Hall]. split.
    + cbn [count]. rewrite Hc.
      destruct x as [[]|[]]; cbn [wt]; try reflexivity; discriminate Hx.
    + constructor; assumption.
Qed.

(* ================================================================== *)
(* Part 2: the invariant of the repaired protocol                      *)
(* ================================================================== *)

Definition tok (sz c : N) (t : thread) : Prop :=
  match t with
  | TA (AReserved off len) => off + len <= sz
  | TA (ALanded off len) => off + len <= sz
  | TA (ALoaded s) => s <= sz
  | TA (ADecd _) => False
  | TS (SLoaded w) => w <= c
  | TS (SBegun w k) => w <= k /\ k <= c
  | _ => True
  end.

Definition Inv (st : glob * list thread) : Prop :=
  let g := fst st in
  let ths := snd st in
  g_pending g = count ths /\
  g_written g <= clp ths (g_size g) /\
  Forall (tok (g_size g) (clp ths (g_size g))) ths /\
  g_synced g <= g_durable g /\
  g_durable g <= clp ths (g_size g).

Lemma tok_mono :
  forall sz c sz' c' t, sz <= sz' -> c <= c' -> tok sz c t -> tok sz' c' t.
Proof.
  intros sz c sz' c' t Hs Hc Ht.
  destruct t as [[]|[]]; cbn [tok] in *; lia.
Qed.

Lemma Forall_tok_mono :
  forall sz c sz' c' ths,
    sz <= sz' -> c <= c' -> Forall (tok sz c) ths -> Forall (tok sz' c') ths.
Proof.
  intros sz c sz' c' ths Hs Hc Hall.
  eapply Forall_impl; [|exact Hall].
  intros t Ht. eapply tok_mono; eassumption.
Qed.

Lemma init_inv : forall b ths, fresh ths -> Inv (init b ths).
Proof.
  intros b ths Hf. destruct (fresh_facts ths Hf) as [Hc Hall].
  unfold Inv, init. cbn [fst snd g_size g_pending g_written g_synced g_durable].
  rewrite (count0_clp ths b Hc).
  repeat split; try lia.
  eapply Forall_impl; [|exact Hall].
  intros t Ht. destruct t as [[]|[]]; cbn [tok]; try exact I; discriminate Ht.
Qed.

Lemma step_inv : forall st i, Inv st -> Inv (step PNew st i).
Proof.
  intros [g ths] i HI.
  pose proof HI as (Hp & Hw & Hall & Hsd & Hdc).
  cbn [fst snd] in Hp, Hw, Hall, Hsd, Hdc.
  unfold step. cbn [fst snd].
  destruct (nth_error ths i) as [t|] eqn:Hn; [|exact HI].
  pose proof (Forall_nth _ _ _ _ Hall Hn) as Ht.
  pose proof (clp_le ths (g_size g)) as Hcs.
  destruct t as [a|s]; [destruct a as [len|len|off len|off len|s|last|]
                       | destruct s as [|w|w c|]].
  - (* A1 *)
    pose proof (count_upd ths i _ (TA (AIncd len)) Hn) as Hcnt.
    pose proof (clp_upd_same ths i _ (TA (AIncd len)) (g_size g) Hn eq_refl eq_refl) as Hclp.
    cbn [wt] in Hcnt.
    unfold Inv. cbn [fst snd g_size g_pending g_written g_synced g_durable].
    rewrite Hclp. repeat split; try lia.
    apply Forall_upd; [exact Hall | exact I].
  - (* A2 *)
    pose proof (count_upd ths i _ (TA (AReserved (g_size g) len)) Hn) as Hcnt.
    pose proof (clp_upd_reserve ths i _ (g_size g) len Hn eq_refl) as Hclp.
    cbn [wt] in Hcnt.
    unfold Inv. cbn [fst snd g_size g_pending g_written g_synced g_durable].
    rewrite Hclp. repeat split; try lia.
    apply Forall_upd.
    + apply (Forall_tok_mono (g_size g) (clp ths (g_size g))); [lia | lia | exact Hall].
    + cbn [tok]. lia.
  - (* A3 *)
    pose proof (count_upd ths i _ (TA (ALanded off len)) Hn) as Hcnt.
    pose proof (clp_upd_land ths i (TA (ALanded off len)) (g_size g) eq_refl) as Hclp.
    cbn [wt] in Hcnt. cbn [tok] in Ht.
    unfold Inv. cbn [fst snd].
    repeat split; try lia.
    apply Forall_upd.
    + apply (Forall_tok_mono (g_size g) (clp ths (g_size g))); [lia | lia | exact Hall].
    + cbn [tok]. lia.
  - (* A4 *)
    pose proof (count_upd ths i _ (TA (ALoaded (g_size g))) Hn) as Hcnt.
    pose proof (clp_upd_same ths i _ (TA (ALoaded (g_size g))) (g_size g) Hn eq_refl eq_refl) as Hclp.
    cbn [wt] in Hcnt.
    unfold Inv. cbn [fst snd].
    rewrite Hclp. repeat split; try lia.
    apply Forall_upd; [exact Hall | cbn [tok]; lia].
  - (* A5 *)
    pose proof (count_upd ths i _ (TA ADone) Hn) as Hcnt.
    pose proof (clp_upd_same ths i _ (TA ADone) (g_size g) Hn eq_refl eq_refl) as Hclp.
    cbn [wt] in Hcnt. cbn [tok] in Ht.
    unfold Inv. cbn [fst snd g_size g_pending g_written g_synced g_durable].
    rewrite Hclp. repeat split; try lia.
    + destruct (g_pending g =? 1) eqn:He; [|exact Hw].
      apply N.eqb_eq in He.
      assert (Hc0 : count (upd ths i (TA ADone)) = 0) by lia.
      pose proof (count0_clp _ (g_size g) Hc0) as Hfull.
      rewrite Hclp in Hfull. lia.
    + apply Forall_upd; [exact Hall | exact I].
  - (* ADecd: does not occur under PNew *)
    cbn [tok] in Ht. contradiction.
  - (* ADone *) exact HI.
  - (* S1 *)
    pose proof (count_upd ths i _ (TS (SLoaded (g_written g))) Hn) as Hcnt.
    pose proof (clp_upd_same ths i _ (TS (SLoaded (g_written g))) (g_size g) Hn eq_refl eq_refl) as Hclp.
    cbn [wt] in Hcnt.
    unfold Inv. cbn [fst snd].
    rewrite Hclp. repeat split; try lia.
    apply Forall_upd; [exact Hall | cbn [tok]; lia].
  - (* S2 *)
    pose proof (count_upd ths i _ (TS (SBegun w (clp ths (g_size g)))) Hn) as Hcnt.
    pose proof (clp_upd_same ths i _ (TS (SBegun w (clp ths (g_size g)))) (g_size g) Hn eq_refl eq_refl) as Hclp.
    cbn [wt] in Hcnt. cbn [tok] in Ht.
    unfold Inv. cbn [fst snd].
    rewrite Hclp. repeat split; try lia.
    apply Forall_upd; [exact Hall | cbn [tok]; lia].
  - (* S3 *)
    pose proof (count_upd ths i _ (TS SDone) Hn) as Hcnt.
    pose proof (clp_upd_same ths i _ (TS SDone) (g_size g) Hn eq_refl eq_refl) as Hclp.
    cbn [wt] in Hcnt. cbn [tok] in Ht.
    unfold Inv. cbn [fst snd g_size g_pending g_written g_synced g_durable].
    rewrite Hclp. repeat split; try lia.
    apply Forall_upd; [exact Hall | exact I].
  - (* SDone *) exact HI.
Qed.

Lemma run_inv : forall sched st, Inv st -> Inv (run PNew st sched).
Proof.
  unfold run. induction sched as [|i r IH]; intros st HI; cbn [fold_left].
  - exact HI.
  - apply IH. apply step_inv. exact HI.
Qed.

(* 1 *)
Theorem acct_sound :
  forall b ths sched,
    fresh ths ->
    let '(g, ths') := run PNew (init b ths) sched in
    g_synced g <= g_durable g /\
    g_durable g <= clp ths' (g_size g) /\
    g_written g <= clp ths' (g_size g).
Proof.
  intros b ths sched Hf.
  pose proof (run_inv sched _ (init_inv b ths Hf)) as HI.
  destruct (run PNew (init b ths) sched) as [g ths'].
  destruct HI as (Hp & Hw & Hall & Hsd & Hdc). cbn [fst snd] in *.
  repeat split; assumption.
Qed.

(* 2 *)
Theorem dirty_overapproximates :
  forall b ths sched,
    fresh ths ->
    let '(g, _) := run PNew (init b ths) sched in
    g_size g - g_synced g >= g_size g - g_durable g.
Proof.
  intros b ths sched Hf.
  pose proof (acct_sound b ths sched Hf) as H.
  destruct (run PNew (init b ths) sched) as [g ths'].
  destruct H as (Hsd & Hdc & Hw). lia.
Qed.

(* the ghost [durable] and [written] really are below [size] *)
Theorem acct_below_size :
  forall b ths sched,
    fresh ths ->
    let '(g, _) := run PNew (init b ths) sched in
    g_synced g <= g_durable g /\ g_durable g <= g_size g /\ g_written g <= g_size g.
Proof.
  intros b ths sched Hf.
  pose proof (acct_sound b ths sched Hf) as H.
  destruct (run PNew (init b ths) sched) as [g ths'].
  destruct H as (Hsd & Hdc & Hw).
  pose proof (clp_le ths' (g_size g)) as Hcs. lia.
Qed.

(* ================================================================== *)
(* Part 3: serialised appends: the counter is exact                    *)
(* ================================================================== *)

Definition srun (st : glob * list thread) (sched : list nat) : glob * list thread :=
  fold_left sstep sched st.

Lemma sstep_cases : forall st i, sstep st i = st \/ sstep st i = step PNew st i.
Proof.
  intros st i. unfold sstep.
  destruct (nth_error (snd st) i) as [[[]|]|]; try (right; reflexivity).
  destruct (g_pending (fst st) =? 0); [right | left]; reflexivity.
Qed.

Lemma sstep_inv : forall st i, Inv st -> Inv (sstep st i).
Proof.
  intros st i HI. destruct (sstep_cases st i) as [He|He]; rewrite He.
  - exact HI.
  - apply step_inv. exact HI.
Qed.

Definition tok2 (sz w : N) (t : thread) : Prop :=
  match t with
  | TA (AIncd _) => w = sz
  | TA (ALoaded s) => s = sz
  | _ => True
  end.

Lemma tok2_idle : forall sz w u, wt u = 0 -> tok2 sz w u.
Proof.
  intros sz w u Hu. destruct u as [[]|[]]; cbn [tok2]; try exact I;
    cbn [wt] in Hu; lia.
Qed.

Definition SInv (st : glob * list thread) : Prop :=
  let g := fst st in
  let ths := snd st in
  g_pending g <= 1 /\
  (g_pending g = 0 -> g_written g = g_size g) /\
  Forall (tok2 (g_size g) (g_written g)) ths.

Lemma init_sinv : forall b ths, fresh ths -> SInv (init b ths).
Proof.
  intros b ths Hf. destruct (fresh_facts ths Hf) as [Hc Hall].
  unfold SInv, init. cbn [fst snd g_size g_pending g_written].
  repeat split; try lia.
  apply count0_Forall; [|exact Hc]. intros u Hu. apply tok2_idle. exact Hu.
Qed.

Lemma sstep_sinv : forall st i, Inv st -> SInv st -> SInv (sstep st i).
Proof.
  intros [g ths] i HI HS.
  pose proof HI as (Hp & Hw & Hall & Hsd & Hdc).
  pose proof HS as (Hp1 & Hq & Hall2).
  cbn [fst snd] in Hp, Hw, Hall, Hsd, Hdc, Hp1, Hq, Hall2.
  unfold sstep, step. cbn [fst snd].
  destruct (nth_error ths i) as [t|] eqn:Hn; [|exact HS].
  pose proof (Forall_nth _ _ _ _ Hall Hn) as Ht.
  pose proof (Forall_nth _ _ _ _ Hall2 Hn) as Ht2.
  pose proof (clp_le ths (g_size g)) as Hcs.
  pose proof (wt_le_count ths i t Hn) as Hwc.
  destruct t as [a|s]; [destruct a as [len|len|off len|off len|s|last|]
                       | destruct s as [|w|w c|]].
  - (* A1, gated *)
    destruct (g_pending g =? 0) eqn:He; [|exact HS].
    apply N.eqb_eq in He.
    unfold SInv. cbn [fst snd g_size g_pending g_written].
    repeat split; try lia.
    apply Forall_upd; [exact Hall2 | cbn [tok2]; auto].
  - (* A2 *)
    cbn [wt] in Hwc.
    unfold SInv. cbn [fst snd g_size g_pending g_written].
    repeat split; try lia.
    apply (Forall_upd_sole _ ths i _ _ Hn).
    + cbn [wt]. lia.
    + intros u Hu. apply tok2_idle. exact Hu.
    + exact I.
  - (* A3 *)
    cbn [wt] in Hwc.
    unfold SInv. cbn [fst snd].
    repeat split; try lia.
    apply Forall_upd; [exact Hall2 | exact I].
  - (* A4 *)
    cbn [wt] in Hwc.
    unfold SInv. cbn [fst snd].
    repeat split; try lia.
    apply Forall_upd; [exact Hall2 | reflexivity].
  - (* A5 *)
    cbn [wt] in Hwc. cbn [tok2] in Ht2.
    assert (Hone : g_pending g = 1) by lia.
    rewrite Hone. rewrite N.eqb_refl.
    unfold SInv. cbn [fst snd g_size g_pending g_written].
    repeat split; try lia.
    apply (Forall_upd_sole _ ths i _ _ Hn).
    + cbn [wt]. lia.
    + intros u Hu. apply tok2_idle. exact Hu.
    + exact I.
  - (* ADecd: does not occur *)
    cbn [tok] in Ht. contradiction.
  - exact HS.
  - (* S1 *)
    unfold SInv. cbn [fst snd]. repeat split; try assumption.
    apply Forall_upd; [exact Hall2 | exact I].
  - (* S2 *)
    unfold SInv. cbn [fst snd]. repeat split; try assumption.
    apply Forall_upd; [exact Hall2 | exact I].
  - (* S3 *)
    unfold SInv. cbn [fst snd g_size g_pending g_written].
    repeat split; try assumption.
    apply Forall_upd; [exact Hall2 | exact I].
  - exact HS.
Qed.

Lemma srun_inv :
  forall sched st, Inv st -> SInv st -> Inv (srun st sched) /\ SInv (srun st sched).
Proof.
  unfold srun. induction sched as [|i r IH]; intros st HI HS; cbn [fold_left].
  - split; assumption.
  - apply IH; [apply sstep_inv | apply sstep_sinv]; assumption.
Qed.

(* 5 *)
Theorem single_writer_precise :
  forall b ths sched,
    fresh ths ->
    let '(g, ths') := fold_left sstep sched (init b ths) in
    g_pending g = 0 -> g_written g = g_size g.
Proof.
  intros b ths sched Hf.
  destruct (srun_inv sched _ (init_inv b ths Hf) (init_sinv b ths Hf)) as [HI HS].
  unfold srun in HI, HS.
  destruct (fold_left sstep sched (init b ths)) as [g ths'].
  destruct HS as (Hp1 & Hq & Hall2). exact Hq.
Qed.

(* serialised appends are still sound, of course *)
Theorem single_writer_sound :
  forall b ths sched,
    fresh ths ->
    let '(g, ths') := fold_left sstep sched (init b ths) in
    g_synced g <= g_durable g /\
    g_durable g <= clp ths' (g_size g) /\
    g_written g <= clp ths' (g_size g).
Proof.
  intros b ths sched Hf.
  destruct (srun_inv sched _ (init_inv b ths Hf) (init_sinv b ths Hf)) as [HI HS].
  unfold srun in HI.
  destruct (fold_left sstep sched (init b ths)) as [g ths'].
  destruct HI as (Hp & Hw & Hall & Hsd & Hdc). cbn [fst snd] in *.
  repeat split; assumption.
Qed.

Lemma nth_error_snoc :
  forall (l : list thread) x, nth_error (l ++ [x]) (length l) = Some x.
Proof.
  induction l as [|y r IH]; intros x; cbn [app length nth_error]; auto.
Qed.

Lemma upd_snoc :
  forall (l : list thread) x y, upd (l ++ [x]) (length l) y = l ++ [y].
Proof.
  induction l as [|z r IH]; intros x y; cbn [app length upd].
  - reflexivity.
  - rewrite IH. reflexivity.
Qed.

Lemma count_snoc : forall l x, count (l ++ [x]) = count l + wt x.
Proof.
  induction l as [|z r IH]; intros x; cbn [app count].
  - lia.
  - rewrite IH. lia.
Qed.

(* a sync that starts when no append is in flight, and runs S1,S2,S3 with no
   append step in between, makes synced = durable = size *)
Theorem sync_when_quiet_covers_everything :
  forall b ths sched,
    fresh ths ->
    let '(g, ths') := fold_left sstep sched (init b ths) in
    g_pending g = 0 ->
    let k := length ths' in
    let '(g2, ths2) := sstep (sstep (sstep (g, ths' ++ [TS SNew]) k) k) k in
    g_synced g2 = g_size g2 /\ g_durable g2 = g_size g2 /\
    g_size g2 = g_size g /\ ths2 = ths' ++ [TS SDone].
Proof.
  intros b ths sched Hf.
  destruct (srun_inv sched _ (init_inv b ths Hf) (init_sinv b ths Hf)) as [HI HS].
  unfold srun in HI, HS.
  destruct (fold_left sstep sched (init b ths)) as [g ths'].
  intros Hp0 k. subst k.
  destruct HI as (Hp & Hw & Hall & Hsd & Hdc).
  destruct HS as (Hp1 & Hq & Hall2).
  cbn [fst snd] in *.
  specialize (Hq Hp0).
  pose proof (clp_le ths' (g_size g)) as Hcs.
  (* S1 *)
  unfold sstep at 3. cbn [fst snd]. rewrite nth_error_snoc.
  unfold step at 1. cbn [fst snd]. rewrite nth_error_snoc, upd_snoc.
  (* S2 *)
  unfold sstep at 2. cbn [fst snd]. rewrite nth_error_snoc.
  unfold step at 1. cbn [fst snd]. rewrite nth_error_snoc, upd_snoc.
  (* S3 *)
  unfold sstep at 1. cbn [fst snd]. rewrite nth_error_snoc.
  unfold step at 1. cbn [fst snd]. rewrite nth_error_snoc, upd_snoc.
  cbn [g_size g_synced g_durable].
  assert (Hc0 : count (ths' ++ [TS (SLoaded (g_written g))]) = 0).
  { rewrite count_snoc. cbn [wt]. lia. }
  rewrite (count0_clp _ (g_size g) Hc0).
  repeat split; try lia.
Qed.

Print Assumptions acct_sound.
Print Assumptions dirty_overapproximates.
Print Assumptions acct_below_size.
Print Assumptions old_protocol_refuted.
Print Assumptions load_after_decrement_refuted.
Print Assumptions single_writer_precise.
Print Assumptions single_writer_sound.
Print Assumptions sync_when_quiet_covers_everything.
Print Assumptions concurrent_appends_may_underestimate.
Print Assumptions ex_final.
Print Assumptions ex_final_synced_is_size.

(* the gate of [sstep]: a second append cannot start while one is in flight,
   and the same 3 appends + 2 syncs finish under [sstep] with synced = size *)
Example ex_sstep_gate :
  fold_left sstep [0; 1; 1; 3]%nat (init 100 ex_ths)
  = (mkG 100 1 100 100 100,
     [TA (AIncd 5); TA (ANew 7); TS SNew; TA (ANew 11); TS SNew]).
Proof. vm_compute. reflexivity. Qed.

Example ex_sstep_final :
  fold_left sstep
    [0; 1; 2; 0; 3; 0; 2; 0; 2; 0; 1; 3; 1; 1; 1; 1; 3; 3; 3; 3; 3; 4; 4; 4]%nat
    (init 100 ex_ths)
  = (mkG 123 0 123 123 123,
     [TA ADone; TA ADone; TS SDone; TA ADone; TS SDone]).
Proof. vm_compute. reflexivity. Qed.
