Require Import Pearl.Base.Prelude Pearl.Storage.Model Pearl.Storage.Spec Pearl.Storage.Theorems Pearl.Conc.Steps.

Section K.
Variable K : N.
Variable cfg : config.

(* every interleaving IS a sequential history (its linearization): same final state, same answers in order *)
Lemma run_sched_is_sequential : forall sched s progs,
  fst (run_sched K cfg s progs sched) = fst (run K cfg s (linearization progs sched)) /\
  map snd (snd (run_sched K cfg s progs sched)) = snd (run K cfg s (linearization progs sched)).
Proof.
  induction sched as [|c rest IH]; intros s progs; cbn [run_sched linearization]; [split; reflexivity|].
  destruct (take_op progs c) as [[o progs']|]; [|apply IH].
  cbn [run]. destruct (step_q K cfg s o) as [s' x] eqn:E.
  specialize (IH s' progs'). destruct (run_sched K cfg s' progs' rest) as [s'' xs].
  destruct (run K cfg s' (linearization progs' rest)) as [t ys]. cbn [fst snd map] in *.
  destruct IH as [IH1 IH2]. split; [exact IH1|f_equal; exact IH2].
Qed.

(* the linearization respects every client's program order: it is a merge of the programs *)
Fixpoint client_ops (progs : list (list op)) (sched : list nat) (me : nat) : list op :=
  match sched with
  | [] => []
  | c :: rest =>
    match take_op progs c with
    | None => client_ops progs rest me
    | Some (o, progs') => if Nat.eqb c me then o :: client_ops progs' rest me else client_ops progs' rest me
    end
  end.

Lemma take_op_nth progs c o progs' : take_op progs c = Some (o, progs') ->
  nth c progs [] = o :: nth c progs' [] /\ forall d, d <> c -> nth d progs' [] = nth d progs [].
Proof.
  revert c o progs'. induction progs as [|p r IH]; intros c o progs' H; [destruct c; discriminate|].
  destruct c as [|c].
  - destruct p as [|o0 p0]; cbn in H; [discriminate|]. inversion H; subst. split; [reflexivity|].
    intros d Hd. destruct d; [contradiction|reflexivity].
  - cbn in H. destruct (take_op r c) as [[o1 r']|] eqn:E.
    + destruct p; inversion H; subst; destruct (IH c o r' E) as [H1 H2]; (split; [exact H1|]);
        intros d Hd; (destruct d; [reflexivity|]); cbn [nth]; apply H2; congruence.
    + destruct p; discriminate.
Qed.

Lemma client_order_preserved : forall sched progs me,
  exists rest, nth me progs [] = client_ops progs sched me ++ rest.
Proof.
  induction sched as [|c rest IH]; intros progs me; cbn [client_ops].
  - exists (nth me progs []). reflexivity.
  - destruct (take_op progs c) as [[o progs']|] eqn:E; [|apply IH].
    destruct (take_op_nth progs c o progs' E) as [H1 H2].
    destruct (Nat.eqb_spec c me) as [->|Hne].
    + destruct (IH progs' me) as [r Hr]. exists r. rewrite H1, Hr. reflexivity.
    + destruct (IH progs' me) as [r Hr]. exists r. rewrite <- Hr. symmetry. apply H2. congruence.
Qed.

End K.

(* REFUTATION (finding F12): with duplicates disallowed the code's write is two steps -- check, then append.
   Two clients writing the same fresh key, both checks first: both records are stored, which no sequential
   order of two dup-disallowed writes produces. The two-step write is expressed with the model's own
   operations: the check is OContains, the unconditional append is OWrite under c_dup = true. *)
Definition cfg_nodup : config := {| c_dup := false; c_maxrec := 1000; c_maxsize := 1000000 |}.
Definition cfg_dup : config := {| c_dup := true; c_maxrec := 1000; c_maxsize := 1000000 |}.
Lemma f12_interleaving_stores_both :
  let s0 := fst (run 4 cfg_nodup init_storage [OOpen false]) in
  (* both checks answer NotFound in s0, then both appends run *)
  snd (step_q 4 cfg_nodup s0 (OContains 1)) = RRead NotFound /\
  length (abs (fst (run 4 cfg_dup s0 [OWrite 1 7 None 8 5 1; OWrite 1 8 None 8 5 2]))) = 2%nat /\
  (* whereas every sequential order of the two writes under the no-duplicates policy stores one *)
  length (abs (fst (run 4 cfg_nodup s0 [OWrite 1 7 None 8 5 1; OWrite 1 8 None 8 5 2]))) = 1%nat /\
  length (abs (fst (run 4 cfg_nodup s0 [OWrite 1 8 None 8 5 2; OWrite 1 7 None 8 5 1]))) = 1%nat.
Proof. vm_compute. repeat split; reflexivity. Qed.

Lemma preach_old_trans cap a b c : preach_old cap a b -> preach_old cap b c -> preach_old cap a c.
Proof. induction 1 as [|x y z Hs Hr IH]; intros H; [exact H|]. econstructor 2; [exact Hs|apply IH, H]. Qed.

(* The protocol of the pinned code (send().await while the storage lock is held; finding F10), for EVERY channel
   capacity: cap + 1 writers and one rotation request reach a deadlocked state *)
Lemma f10_old_protocol_deadlocks : forall cap, 0 < cap ->
  exists s, preach_old cap proto_init s /\ deadlocked cap s.
Proof.
  intros cap Hc. unfold proto_init.
  assert (Hfill : forall n q w, q + N.of_nat n <= cap ->
            preach_old cap {| p_blocked_senders := 0; p_queue := q; p_worker_waits_write := w |}
                       {| p_blocked_senders := 0; p_queue := q + N.of_nat n; p_worker_waits_write := w |}).
  { induction n as [|n IH]; intros q w Hq.
    - replace (q + N.of_nat 0) with q by lia. constructor.
    - econstructor 2.
      + apply (POSend cap {| p_blocked_senders := 0; p_queue := q; p_worker_waits_write := w |}). cbn. lia.
      + cbn [p_blocked_senders p_queue p_worker_waits_write].
        replace (q + N.of_nat (S n)) with ((q + 1) + N.of_nat n) by lia. apply IH. lia. }
  exists {| p_blocked_senders := 1; p_queue := cap; p_worker_waits_write := true |}. split.
  - eapply preach_old_trans; [apply (Hfill (N.to_nat cap) 0 false); lia|].
    replace (0 + N.of_nat (N.to_nat cap)) with cap by lia.
    econstructor 2.
    { apply (POWorkerTake cap {| p_blocked_senders := 0; p_queue := cap; p_worker_waits_write := false |}); cbn; [lia|reflexivity]. }
    cbn [p_blocked_senders p_queue].
    econstructor 2.
    { apply (POSend cap {| p_blocked_senders := 0; p_queue := cap - 1; p_worker_waits_write := true |}). cbn. lia. }
    cbn [p_blocked_senders p_queue p_worker_waits_write]. replace (cap - 1 + 1) with cap by lia.
    econstructor 2; [|constructor].
    replace {| p_blocked_senders := 1; p_queue := cap; p_worker_waits_write := true |}
      with {| p_blocked_senders := p_blocked_senders {| p_blocked_senders := 0; p_queue := cap; p_worker_waits_write := true |} + 1;
              p_queue := cap; p_worker_waits_write := true |} by reflexivity.
    apply (POBlock cap {| p_blocked_senders := 0; p_queue := cap; p_worker_waits_write := true |}). reflexivity.
  - unfold deadlocked. cbn. repeat split; lia.
Qed.

(* and there a deadlocked state is a trap: the only possible move is one more writer blocking *)
Lemma old_deadlocked_is_trap cap s : deadlocked cap s -> forall s', pstep_old cap s s' -> deadlocked cap s'.
Proof.
  intros (Hb & Hq & Hw) s' H. inversion H; subst; unfold deadlocked; cbn in *; try lia; try congruence.
  split; [lia|]. split; assumption.
Qed.

(* The protocol since commit 62ff185 (try_send): no writer ever waits in send while it holds the lock ... *)
Lemma pstep_no_blocked cap s s' : pstep cap s s' -> p_blocked_senders s = 0 -> p_blocked_senders s' = 0.
Proof. intros H H0. inversion H; subst; cbn; assumption || reflexivity. Qed.

Lemma no_sender_ever_blocks cap s : preach cap proto_init s -> p_blocked_senders s = 0.
Proof.
  assert (G : forall a b, preach cap a b -> p_blocked_senders a = 0 -> p_blocked_senders b = 0).
  { induction 1 as [|x y z Hs Hr IH]; intros H0; [exact H0|]. apply IH. eapply pstep_no_blocked; eauto. }
  intros H. apply (G _ _ H). reflexivity.
Qed.

(* ... hence no reachable state is deadlocked, for every capacity and every number of writers ... *)
Lemma never_deadlocked cap s : preach cap proto_init s -> ~ deadlocked cap s.
Proof. intros H (Hb & _). rewrite (no_sender_ever_blocks cap s H) in Hb. lia. Qed.

(* ... the queue never exceeds the capacity, and a worker waiting for the write lock is always granted it *)
Lemma queue_bounded cap s : preach cap proto_init s -> p_queue s <= cap.
Proof.
  assert (G : forall a b, preach cap a b -> p_queue a <= cap -> p_queue b <= cap).
  { induction 1 as [|x y z Hs Hr IH]; intros H0; [exact H0|]. apply IH. inversion Hs; subst; cbn in *; lia. }
  intros H. apply (G _ _ H). cbn. lia.
Qed.

Lemma worker_gets_the_lock cap s : preach cap proto_init s -> p_worker_waits_write s = true ->
  exists s', pstep cap s s' /\ p_worker_waits_write s' = false.
Proof.
  intros H Hw. eexists. split; [apply PWorkerGetsLock; [exact Hw | apply (no_sender_ever_blocks cap s H)]|reflexivity].
Qed.
