(* Model of the size / appends_in_flight / written_size / synced_size accounting of the File wrapper
   (src/io/unix/sync.rs: AppendInFlight::reserve, its Drop, File::fsyncdata) as interleavings of atomic steps.
   Blob::write only holds an upgradable read lock and a sync a read lock, so a sync can run while an append is between
   reserving its range and having written it (finding F25). Definitions only; all computable. The orderings of the
   atomic accesses assumed here are re-extracted from the source on every run (Generated/Facts.v:
   APPEND_RESERVES_THEN_WRITES, WRITTEN_SIZE_ADVANCES_ONLY_WHEN_QUIET, SYNCED_SIZE_CAPTURED_BEFORE_SYNC).
   Not modelled: appends that fail (the size falls back to the file length; sampled by the fault sweep of C11). *)
From Coq Require Import List NArith Arith Lia Bool.
Import ListNotations.
Arguments N.add : simpl never.
Arguments N.sub : simpl never.
Arguments N.eqb : simpl never.
Arguments N.ltb : simpl never.
Arguments N.leb : simpl never.
Arguments N.max : simpl never.
Arguments N.min : simpl never.
Open Scope N_scope.

(* ---- thread-local states ------------------------------------------- *)

Inductive athread :=
| ANew (len : N)             (* nothing done yet                               *)
| AIncd (len : N)            (* after A1: appends_in_flight.fetch_add(1)       *)
| AReserved (off len : N)    (* after A2: size.fetch_add(len) returned off     *)
| ALanded (off len : N)      (* after A3: pwrite done                          *)
| ALoaded (s : N)            (* after A4: s = size.load()                      *)
| ADecd (last : bool)        (* PLoadAfterDecrement only: decrement done first *)
| ADone.

Inductive sthread :=
| SNew
| SLoaded (w : N)            (* after S1: w = written_size.load()              *)
| SBegun (w c : N)           (* after S2: fdatasync began; c = landed prefix   *)
| SDone.

Inductive thread := TA (a : athread) | TS (s : sthread).

Record glob := mkG {
  g_size : N;
  g_pending : N;
  g_written : N;
  g_synced : N;
  g_durable : N  (* ghost *)
}.

Inductive proto := PNew | POldSyncLoadsSize | PLoadAfterDecrement.

(* ---- contiguous landed prefix ------------------------------------- *)

Fixpoint clp (ths : list thread) (size : N) : N :=
  match ths with
  | [] => size
  | TA (AReserved off _) :: r => N.min off (clp r size)
  | _ :: r => clp r size
  end.

(* ---- functional update of one thread ------------------------------ *)

Fixpoint upd (ths : list thread) (i : nat) (x : thread) : list thread :=
  match ths, i with
  | [], _ => []
  | _ :: r, O => x :: r
  | y :: r, S j => y :: upd r j x
  end.

(* ---- one atomic step of thread number i --------------------------- *)

Definition step (p : proto) (st : glob * list thread) (i : nat)
  : glob * list thread :=
  let g := fst st in
  let ths := snd st in
  match nth_error ths i with
  | None => st
  | Some t =>
    match t with
    | TA (ANew len) =>                                         (* A1 *)
        (mkG (g_size g) (g_pending g + 1) (g_written g) (g_synced g) (g_durable g),
         upd ths i (TA (AIncd len)))
    | TA (AIncd len) =>                                        (* A2 *)
        (mkG (g_size g + len) (g_pending g) (g_written g) (g_synced g) (g_durable g),
         upd ths i (TA (AReserved (g_size g) len)))
    | TA (AReserved off len) =>                                (* A3 *)
        (g, upd ths i (TA (ALanded off len)))
    | TA (ALanded off len) =>
        match p with
        | PLoadAfterDecrement =>                               (* A4': decrement first *)
            (mkG (g_size g) (g_pending g - 1) (g_written g) (g_synced g) (g_durable g),
             upd ths i (TA (ADecd (g_pending g =? 1))))
        | _ =>                                                 (* A4 *)
            (g, upd ths i (TA (ALoaded (g_size g))))
        end
    | TA (ALoaded s) =>                                        (* A5 *)
        (mkG (g_size g) (g_pending g - 1)
             (if g_pending g =? 1 then N.max (g_written g) s else g_written g)
             (g_synced g) (g_durable g),
         upd ths i (TA ADone))
    | TA (ADecd last) =>                                       (* A5': load size afterwards *)
        (mkG (g_size g) (g_pending g)
             (if last then N.max (g_written g) (g_size g) else g_written g)
             (g_synced g) (g_durable g),
         upd ths i (TA ADone))
    | TA ADone => st
    | TS SNew =>                                               (* S1 *)
        (g, upd ths i (TS (SLoaded (match p with
                                    | POldSyncLoadsSize => g_size g
                                    | _ => g_written g
                                    end))))
    | TS (SLoaded w) =>                                        (* S2 *)
        (g, upd ths i (TS (SBegun w (clp ths (g_size g)))))
    | TS (SBegun w c) =>                                       (* S3 *)
        (mkG (g_size g) (g_pending g) (g_written g)
             (N.max (g_synced g) w) (N.max (g_durable g) c),
         upd ths i (TS SDone))
    | TS SDone => st
    end
  end.

Definition run (p : proto) (st : glob * list thread) (sched : list nat)
  : glob * list thread :=
  fold_left (step p) sched st.

Definition init (b : N) (ths : list thread) : glob * list thread :=
  (mkG b 0 b b b, ths).

Definition is_fresh (t : thread) : bool :=
  match t with
  | TA (ANew _) => true
  | TS SNew => true
  | _ => false
  end.

Definition fresh (ths : list thread) : Prop := forallb is_fresh ths = true.

(* ---- serialised appends (upgradable lock in the caller) ----------- *)

Definition sstep (st : glob * list thread) (i : nat) : glob * list thread :=
  match nth_error (snd st) i with
  | Some (TA (ANew _)) =>
      if g_pending (fst st) =? 0 then step PNew st i else st
  | _ => step PNew st i
  end.

Definition is_done (t : thread) : bool :=
  match t with
  | TA ADone => true
  | TS SDone => true
  | _ => false
  end.
