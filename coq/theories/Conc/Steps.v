(* L5: interleavings of client operations. Each public operation is ONE atomic step of the L3 model; the
   justification is the lock structure of the code (DESIGN.md C08): a write holds the storage read lock and
   the blob's single upgradable lock from offset reservation to index push; a read holds the storage read
   lock over the whole merge; rotation / close / restore hold the storage write lock. The exception is the
   duplicate check of a write (allow_duplicates = false), which runs BEFORE those locks are taken: it is
   modelled as a separate step (finding F12). The real scheduler is not modelled. *)
Require Import Pearl.Base.Prelude Pearl.Storage.Model Pearl.Storage.Spec.

Section K.
Variable K : N.
Variable cfg : config.

(* client programs and a schedule (which client moves next); a client whose program is exhausted skips *)
Fixpoint take_op (progs : list (list op)) (c : nat) : option (op * list (list op)) :=
  match progs, c with
  | [], _ => None
  | [] :: r, O => None
  | (o :: p) :: r, O => Some (o, p :: r)
  | p :: r, S c' => match take_op r c' with Some (o, r') => Some (o, p :: r') | None => None end
  end.

Fixpoint run_sched (s : storage) (progs : list (list op)) (sched : list nat) : storage * list (nat * out) :=
  match sched with
  | [] => (s, [])
  | c :: rest =>
    match take_op progs c with
    | None => run_sched s progs rest
    | Some (o, progs') =>
      let '(s', x) := step_q K cfg s o in
      let '(s'', xs) := run_sched s' progs' rest in (s'', (c, x) :: xs)
    end
  end.

(* the sequential history a schedule amounts to *)
Fixpoint linearization (progs : list (list op)) (sched : list nat) : list op :=
  match sched with
  | [] => []
  | c :: rest =>
    match take_op progs c with
    | None => linearization progs rest
    | Some (o, progs') => o :: linearization progs' rest
    end
  end.

(* ---------- the observer channel / storage lock protocol ----------
   state: number of writers that hold the storage READ lock and are blocked in `send` on the full channel,
   messages queued, whether the worker is blocked waiting for the storage WRITE lock.
   `pstep_old` is the protocol of the pinned code (send().await under the lock: finding F10);
   `pstep` is the protocol since commit 62ff185 of the code (try_send: a request is dropped when the channel is full). *)
Record proto := { p_blocked_senders : N; p_queue : N; p_worker_waits_write : bool }.
Definition proto_init : proto := {| p_blocked_senders := 0; p_queue := 0; p_worker_waits_write := false |}.

Inductive pstep_old (cap : N) : proto -> proto -> Prop :=
| POSend s : p_queue s < cap ->                       (* a writer (holding the read lock) enqueues and releases the lock *)
    pstep_old cap s {| p_blocked_senders := p_blocked_senders s; p_queue := p_queue s + 1; p_worker_waits_write := p_worker_waits_write s |}
| POBlock s : p_queue s = cap ->                      (* channel full: the writer blocks in send, still holding the read lock *)
    pstep_old cap s {| p_blocked_senders := p_blocked_senders s + 1; p_queue := p_queue s; p_worker_waits_write := p_worker_waits_write s |}
| POWorkerTake s : 0 < p_queue s -> p_worker_waits_write s = false ->   (* the worker dequeues a rotation request and asks for the write lock *)
    pstep_old cap s {| p_blocked_senders := p_blocked_senders s; p_queue := p_queue s - 1; p_worker_waits_write := true |}
| POWorkerGetsLock s : p_worker_waits_write s = true -> p_blocked_senders s = 0 ->  (* granted only when no reader is left *)
    pstep_old cap s {| p_blocked_senders := 0; p_queue := p_queue s; p_worker_waits_write := false |}
| POUnblock s : 0 < p_blocked_senders s -> p_queue s < cap ->             (* room in the channel: a blocked sender completes *)
    pstep_old cap s {| p_blocked_senders := p_blocked_senders s - 1; p_queue := p_queue s + 1; p_worker_waits_write := p_worker_waits_write s |}.

Inductive pstep (cap : N) : proto -> proto -> Prop :=
| PSend s : p_queue s < cap ->                       (* try_send succeeds; the writer goes on and releases the lock *)
    pstep cap s {| p_blocked_senders := p_blocked_senders s; p_queue := p_queue s + 1; p_worker_waits_write := p_worker_waits_write s |}
| PDrop s : p_queue s = cap ->                       (* channel full: the request is dropped; the writer goes on and releases the lock *)
    pstep cap s s
| PWorkerTake s : 0 < p_queue s -> p_worker_waits_write s = false ->
    pstep cap s {| p_blocked_senders := p_blocked_senders s; p_queue := p_queue s - 1; p_worker_waits_write := true |}
| PWorkerGetsLock s : p_worker_waits_write s = true -> p_blocked_senders s = 0 ->
    pstep cap s {| p_blocked_senders := 0; p_queue := p_queue s; p_worker_waits_write := false |}.

Inductive preach_old (cap : N) : proto -> proto -> Prop :=
| pro_refl s : preach_old cap s s
| pro_step a b c : pstep_old cap a b -> preach_old cap b c -> preach_old cap a c.
Inductive preach (cap : N) : proto -> proto -> Prop :=
| pr_refl s : preach cap s s
| pr_step a b c : pstep cap a b -> preach cap b c -> preach cap a c.

(* stuck: a writer is blocked in send (channel full, read lock held) and the worker waits for the write lock *)
Definition deadlocked (cap : N) (s : proto) : Prop :=
  0 < p_blocked_senders s /\ p_queue s = cap /\ p_worker_waits_write s = true.

End K.
