(* Model of the "sync hint" protocol (src/storage/core.rs write / should_try_fsync / Inner::fsyncdata,
   src/storage/observer_worker.rs try_run_fsync_task): un-synced bytes over the limit must be synced in the background
   without any further client write. Interleavings of atomic steps of any number of client writes, the maintenance
   worker and the background sync task. Definitions only; everything is computable. The shape of the code assumed here
   is re-extracted from the source on every run (Generated/Facts.v: BACKGROUND_SYNC_LOOKS_AGAIN, FSYNC_FLAG_IS_SEQCST,
   WORKER_REPLACES_TASK_PAST_ITS_LAST_LOOK). Assumptions of the model, not proved about the code: a hint is never
   dropped (the observer channel has room), syncs succeed, one active blob, the append and the reading of the dirty
   bytes are one step (Blob::write holds the blob's upgradable lock). POld is the protocol before commit 590f0ec
   (finding F13). *)
From Coq Require Import List NArith Arith Lia Bool.
Import ListNotations.
Arguments N.add : simpl never.
Arguments N.sub : simpl never.
Arguments N.eqb : simpl never.
Arguments N.ltb : simpl never.
Arguments N.leb : simpl never.
Arguments N.max : simpl never.
Arguments N.min : simpl never.
Local Open Scope N_scope.

(* A client write: not started / appended and remembers the dirty count it
   read under the lock / finished. *)
Inductive wthread := WNew (len : N) | WAppended (d : N) | WDone.

(* The sync task.  One atomic access per step:
   T0 compare_exchange(false,true); T1 read size-synced; T2 capture size
   (fdatasync begins); T3 c fdatasync returns, synced := max synced c;
   T4 flag.store(false); T5 the second look; TReturning -> TFinished. *)
Inductive tstate :=
  TNone | T0 | T1 | T2 | T3 (c : N) | T4 | T5 | TReturning | TFinished.

(* The maintenance worker: idle / holds a hint and is at its gate / waits
   for the old task to be finished before it spawns. *)
Inductive kstate := KIdle | KGot | KWait.

Record glob := {
  g_size : N;
  g_synced : N;
  g_flag : bool;
  g_chan : nat;
  g_task : tstate;
  g_worker : kstate
}.

Inductive proto := PNew | POld | PNewLoopOldGate.
Inductive actor := AW (i : nat) | AK | AT.

Definition set_size (g : glob) (v : N) : glob :=
  {| g_size := v; g_synced := g_synced g; g_flag := g_flag g;
     g_chan := g_chan g; g_task := g_task g; g_worker := g_worker g |}.
Definition set_synced (g : glob) (v : N) : glob :=
  {| g_size := g_size g; g_synced := v; g_flag := g_flag g;
     g_chan := g_chan g; g_task := g_task g; g_worker := g_worker g |}.
Definition set_flag (g : glob) (v : bool) : glob :=
  {| g_size := g_size g; g_synced := g_synced g; g_flag := v;
     g_chan := g_chan g; g_task := g_task g; g_worker := g_worker g |}.
Definition set_chan (g : glob) (v : nat) : glob :=
  {| g_size := g_size g; g_synced := g_synced g; g_flag := g_flag g;
     g_chan := v; g_task := g_task g; g_worker := g_worker g |}.
Definition set_task (g : glob) (v : tstate) : glob :=
  {| g_size := g_size g; g_synced := g_synced g; g_flag := g_flag g;
     g_chan := g_chan g; g_task := v; g_worker := g_worker g |}.
Definition set_worker (g : glob) (v : kstate) : glob :=
  {| g_size := g_size g; g_synced := g_synced g; g_flag := g_flag g;
     g_chan := g_chan g; g_task := g_task g; g_worker := v |}.

Definition dirty (g : glob) : N := g_size g - g_synced g.

(* Does the task look again after the store (T5)? *)
Definition task_loops (p : proto) : bool :=
  match p with POld => false | PNew | PNewLoopOldGate => true end.

(* Does the worker's gate also read the flag? *)
Definition gate_reads_flag (p : proto) : bool :=
  match p with PNew => true | POld | PNewLoopOldGate => false end.

(* The JoinHandle exists and does not report finished. *)
Definition task_running (t : tstate) : bool :=
  match t with TNone | TFinished => false | _ => true end.

(* ---- client write ---- *)
Definition wstep (L : N) (g : glob) (w : wthread) : glob * wthread :=
  match w with
  | WNew len =>
      let g' := set_size g (g_size g + len) in (g', WAppended (dirty g'))
  | WAppended d =>
      ((if (L <? d) && negb (g_flag g)
        then set_chan g (S (g_chan g)) else g), WDone)
  | WDone => (g, WDone)
  end.

(* ---- maintenance worker ---- *)
Definition kstep (p : proto) (g : glob) : glob :=
  match g_worker g with
  | KIdle =>
      match g_chan g with
      | O => g
      | S n => set_worker (set_chan g n) KGot
      end
  | KGot =>
      if task_running (g_task g)
         && (if gate_reads_flag p then g_flag g else true)
      then set_worker g KIdle            (* drop the hint *)
      else set_worker g KWait
  | KWait =>
      if task_running (g_task g) then g  (* blocked on the JoinHandle *)
      else set_worker (set_task g T0) KIdle
  end.

(* ---- sync task ---- *)
Definition tstep (p : proto) (L : N) (g : glob) : glob :=
  match g_task g with
  | TNone | TFinished => g
  | T0 => if g_flag g then set_task g TReturning
          else set_task (set_flag g true) T1
  | T1 => if L <? dirty g then set_task g T2 else set_task g T4
  | T2 => set_task g (T3 (g_size g))
  | T3 c => set_task (set_synced g (N.max (g_synced g) c)) T4
  | T4 => set_task (set_flag g false)
            (if task_loops p then T5 else TReturning)
  | T5 => if L <? dirty g then set_task g T0 else set_task g TReturning
  | TReturning => set_task g TFinished
  end.

Fixpoint upd (i : nat) (w : wthread) (ws : list wthread) : list wthread :=
  match ws, i with
  | [], _ => []
  | _ :: r, O => w :: r
  | x :: r, S j => x :: upd j w r
  end.

Definition step (p : proto) (L : N) (st : glob * list wthread) (a : actor)
  : glob * list wthread :=
  let (g, ws) := st in
  match a with
  | AW i =>
      match nth_error ws i with
      | Some w => let (g', w') := wstep L g w in (g', upd i w' ws)
      | None => (g, ws)
      end
  | AK => (kstep p g, ws)
  | AT => (tstep p L g, ws)
  end.

Definition run (p : proto) (L : N) (st : glob * list wthread)
  (sched : list actor) : glob * list wthread :=
  fold_left (step p L) sched st.

Definition init (b : N) (ws : list wthread) : glob * list wthread :=
  ({| g_size := b; g_synced := b; g_flag := false; g_chan := 0%nat;
      g_task := TNone; g_worker := KIdle |}, ws).

Definition is_new (w : wthread) : bool :=
  match w with WNew _ => true | _ => false end.
Definition is_done (w : wthread) : bool :=
  match w with WDone => true | _ => false end.

Definition fresh (ws : list wthread) : Prop := forallb is_new ws = true.

Definition terminal (st : glob * list wthread) : bool :=
  let (g, ws) := st in
  forallb is_done ws
  && Nat.eqb (g_chan g) 0
  && match g_worker g with KIdle => true | _ => false end
  && negb (task_running (g_task g)).
