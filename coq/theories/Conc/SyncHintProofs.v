From Coq Require Import List NArith Arith Lia Bool.
Require Import Pearl.Conc.SyncHint.
Import ListNotations.
Arguments N.add : simpl never.
Arguments N.sub : simpl never.
Arguments N.eqb : simpl never.
Arguments N.ltb : simpl never.
Arguments N.leb : simpl never.
Arguments N.max : simpl never.
Arguments N.min : simpl never.
Local Open Scope N_scope.

(* ================= witnesses ================= *)

Definition old_sched : list actor :=
  [ AW 0; AW 0;            (* a appends 20 (> 10) and sends *)
    AK; AK; AK;            (* worker: recv, gate, spawn *)
    AT; AT; AT;            (* CAS, look, capture c = 20 *)
    AW 1; AW 1;            (* b appends 20 with the flag up: no send *)
    AT; AT; AT ]%nat.      (* synced := 20, store false, finished *)

Theorem old_protocol_refuted :
  exists L b ws sched, fresh ws /\
    let '(g, ws') := run POld L (init b ws) sched in
    terminal (g, ws') = true /\ L < g_size g - g_synced g.
Proof.
  exists 10, 0, [WNew 20; WNew 20], old_sched.
  split; [reflexivity|]. vm_compute. split; reflexivity.
Qed.

Definition gate_sched : list actor :=
  [ AW 0; AW 0;            (* a appends 20 and sends *)
    AK; AK; AK;            (* recv, gate, spawn *)
    AT; AT; AT; AT; AT; AT;(* CAS, look, capture, synced := 20, store, last look: clean -> Returning *)
    AW 1; AW 1;            (* b appends 20, flag is down: sends *)
    AK; AK;                (* recv; gate: the task exists and is not Finished: drop *)
    AT ]%nat.              (* Returning -> Finished *)

Theorem new_loop_old_gate_refuted :
  exists L b ws sched, fresh ws /\
    let '(g, ws') := run PNewLoopOldGate L (init b ws) sched in
    terminal (g, ws') = true /\ L < g_size g - g_synced g.
Proof.
  exists 10, 0, [WNew 20; WNew 20], gate_sched.
  split; [reflexivity|]. vm_compute. split; reflexivity.
Qed.

(* The same two schedules are harmless under PNew. *)
Example old_sched_under_new_not_terminal :
  terminal (run PNew 10 (init 0 [WNew 20; WNew 20]) old_sched) = false.
Proof. vm_compute. reflexivity. Qed.
Example gate_sched_under_new_not_terminal :
  terminal (run PNew 10 (init 0 [WNew 20; WNew 20]) gate_sched) = false.
Proof. vm_compute. reflexivity. Qed.

Definition ex_ws : list wthread := [WNew 20; WNew 3; WNew 15].
Definition ex_sched : list actor :=
  [ AW 0; AW 0; AK; AK; AK; AT; AT; AT;   (* ... capture c = 20 *)
    AW 2; AW 2;                            (* +15 with the flag up: no send *)
    AT; AT; AT;                            (* synced := 20; store; look: 15 > 10 -> T0 *)
    AT; AT; AT;                            (* CAS, look, capture c = 35 *)
    AW 1; AW 1;                            (* +3, under the limit *)
    AT; AT; AT; AT ]%nat.                  (* synced := 35; store; look: 3 <= 10; finished *)

Example new_protocol_run :
  fresh ex_ws /\
  let '(g, ws') := run PNew 10 (init 0 ex_ws) ex_sched in
  terminal (g, ws') = true /\ g_size g = 38 /\ g_synced g = 35
  /\ g_size g - g_synced g <= 10 /\ 0 < g_synced g.
Proof. split; [reflexivity|]. vm_compute. repeat split; congruence. Qed.

Example terminal_reachable_over_limit_midway :
  exists pre post, ex_sched = pre ++ post /\
    let '(g, _) := run PNew 10 (init 0 ex_ws) pre in
    10 < g_size g - g_synced g.
Proof.
  exists (firstn 9 ex_sched), (skipn 9 ex_sched).
  split; [reflexivity|]. vm_compute. reflexivity.
Qed.

(* ================= the invariant ================= *)

Definition task_holds (t : tstate) : bool :=
  match t with T1 | T2 | T3 _ | T4 => true | _ => false end.
Definition task_active (t : tstate) : bool :=
  match t with T0 | T1 | T2 | T3 _ | T4 | T5 => true | _ => false end.
Definition is_over (L : N) (w : wthread) : bool :=
  match w with WAppended d => L <? d | _ => false end.
Definition has_over (L : N) (ws : list wthread) : bool :=
  existsb (is_over L) ws.

(* Somebody is still going to look at the dirty count. *)
Definition responsible (L : N) (g : glob) (ws : list wthread) : Prop :=
  (0 < g_chan g)%nat \/ g_worker g <> KIdle
  \/ task_active (g_task g) = true \/ has_over L ws = true.

Definition Inv (L : N) (st : glob * list wthread) : Prop :=
  let (g, ws) := st in
  g_synced g <= g_size g
  /\ g_flag g = task_holds (g_task g)
  /\ (forall c, g_task g = T3 c -> c <= g_size g)
  /\ (L < dirty g -> responsible L g ws).

Ltac proj1 :=
  unfold Inv, responsible, dirty, task_loops, gate_reads_flag, set_size, set_synced, set_flag, set_chan, set_task,
    set_worker in *;
  cbn [g_size g_synced g_flag g_chan g_task g_worker fst snd wstep] in *.
Ltac proj := proj1; proj1.
Ltac red_ := proj; cbv beta iota; proj.

Lemma has_over_mid : forall L l1 w l2,
  has_over L (l1 ++ w :: l2) = has_over L l1 || (is_over L w || has_over L l2).
Proof.
  intros L l1 w l2. unfold has_over. rewrite existsb_app. reflexivity.
Qed.

Lemma upd_split : forall ws i w,
  nth_error ws i = Some w ->
  exists l1 l2, ws = l1 ++ w :: l2 /\ forall w', upd i w' ws = l1 ++ w' :: l2.
Proof.
  induction ws as [|x r IH]; intros i w Hn.
  - destruct i; discriminate Hn.
  - destruct i as [|j].
    + injection Hn as Hx. subst x. exists [], r. split; [reflexivity|].
      intros w'. reflexivity.
    + cbn [nth_error] in Hn. destruct (IH j w Hn) as (l1 & l2 & He & Hu).
      exists (x :: l1), l2. split.
      * rewrite He. reflexivity.
      * intros w'. cbn [upd]. rewrite Hu. reflexivity.
Qed.

Lemma holds_active : forall t, task_holds t = true -> task_active t = true.
Proof. intros t Ht. destruct t; try discriminate Ht; reflexivity. Qed.

Lemma inv_init : forall L b ws, Inv L (init b ws).
Proof.
  intros L b ws. unfold Inv, init, dirty. cbn.
  split; [lia|]. split; [reflexivity|]. split; [intros c Hc; discriminate Hc|].
  intros Hd. lia.
Qed.

Lemma inv_wstep : forall L g l1 w l2,
  Inv L (g, l1 ++ w :: l2) ->
  Inv L (fst (wstep L g w), l1 ++ snd (wstep L g w) :: l2).
Proof.
  intros L g l1 w l2 (Hle & Hfl & Hc & Hr).
  destruct g as [size synced flag chan task worker].
  unfold responsible in *. proj.
  destruct w as [len | d |].
  - (* W1: append *)
    proj.
    split; [lia|]. split; [exact Hfl|].
    split; [intros c Ht; specialize (Hc c Ht); lia|].
    intros Hd. right. right. right.
    rewrite has_over_mid. cbn [is_over].
    apply N.ltb_lt in Hd. rewrite Hd. rewrite orb_true_r. reflexivity.
  - (* W2: maybe send *)
    proj. rewrite has_over_mid in Hr. cbn [is_over] in Hr.
    rewrite has_over_mid. cbn [is_over].
    destruct (L <? d) eqn:Hd; destruct flag; cbn [andb negb]; proj.
    + (* over, flag up: the task is between its CAS and its store *)
      split; [exact Hle|]. split; [exact Hfl|]. split; [exact Hc|].
      intros _. right. right. left. apply holds_active. symmetry. exact Hfl.
    + (* over, flag down: send *)
      split; [exact Hle|]. split; [exact Hfl|]. split; [exact Hc|].
      intros _. left. lia.
    + split; [exact Hle|]. split; [exact Hfl|]. split; [exact Hc|]. exact Hr.
    + split; [exact Hle|]. split; [exact Hfl|]. split; [exact Hc|]. exact Hr.
  - proj. split; [exact Hle|]. split; [exact Hfl|]. split; [exact Hc|]. exact Hr.
Qed.

Lemma inv_kstep : forall L g ws, Inv L (g, ws) -> Inv L (kstep PNew g, ws).
Proof.
  intros L g ws (Hle & Hfl & Hc & Hr).
  destruct g as [size synced flag chan task worker].
  unfold kstep in *. red_.
  destruct worker.
  - destruct chan as [|n]; red_.
    + split; [exact Hle|]. split; [exact Hfl|]. split; [exact Hc|]. exact Hr.
    + split; [exact Hle|]. split; [exact Hfl|]. split; [exact Hc|].
      intros _. right. left. discriminate.
  - destruct (task_running task && flag) eqn:Hg; red_.
    + apply andb_true_iff in Hg. destruct Hg as [_ Hflag].
      split; [exact Hle|]. split; [exact Hfl|]. split; [exact Hc|].
      intros _. right. right. left. apply holds_active.
      rewrite <- Hfl. exact Hflag.
    + split; [exact Hle|]. split; [exact Hfl|]. split; [exact Hc|].
      intros _. right. left. discriminate.
  - destruct (task_running task) eqn:Hrun; red_.
    + split; [exact Hle|]. split; [exact Hfl|]. split; [exact Hc|]. exact Hr.
    + split; [exact Hle|].
      split; [destruct task; try discriminate Hrun; exact Hfl|].
      split; [intros c Ht; discriminate Ht|].
      intros _. right. right. left. reflexivity.
Qed.

Lemma inv_tstep : forall L g ws, Inv L (g, ws) -> Inv L (tstep PNew L g, ws).
Proof.
  intros L g ws (Hle & Hfl & Hc & Hr).
  destruct g as [size synced flag chan task worker].
  unfold tstep in *. red_.
  destruct task as [| | | | c | | | |]; red_.
  - split; [exact Hle|]. split; [exact Hfl|]. split; [exact Hc|]. exact Hr.
  - (* T0: the flag is down, the CAS succeeds *)
    cbn [task_holds] in Hfl. rewrite Hfl. red_.
    split; [exact Hle|]. split; [reflexivity|].
    split; [intros c Ht; discriminate Ht|].
    intros _. right. right. left. reflexivity.
  - destruct (L <? size - synced); red_;
      (split; [exact Hle|]; split; [exact Hfl|];
       split; [intros c Ht; discriminate Ht|];
       intros _; right; right; left; reflexivity).
  - split; [exact Hle|]. split; [exact Hfl|].
    split; [intros c Ht; injection Ht as Ht; lia|].
    intros _. right. right. left. reflexivity.
  - specialize (Hc c eq_refl).
    split; [lia|]. split; [exact Hfl|].
    split; [intros c' Ht; discriminate Ht|].
    intros _. right. right. left. reflexivity.
  - split; [exact Hle|]. split; [reflexivity|].
    split; [intros c Ht; discriminate Ht|].
    intros _. right. right. left. reflexivity.
  - (* T5: the second look *)
    destruct (N.ltb_spec L (size - synced)) as [Hd | Hd]; red_.
    + split; [exact Hle|]. split; [exact Hfl|].
      split; [intros c Ht; discriminate Ht|].
      intros _. right. right. left. reflexivity.
    + split; [exact Hle|]. split; [exact Hfl|].
      split; [intros c Ht; discriminate Ht|].
      intros Hd'. lia.
  - split; [exact Hle|]. split; [exact Hfl|].
    split; [intros c Ht; discriminate Ht|].
    intros Hd. specialize (Hr Hd).
    destruct Hr as [H | [H | [H | H]]]; [left | right; left | discriminate H | right; right; right]; exact H.
  - split; [exact Hle|]. split; [exact Hfl|]. split; [exact Hc|]. exact Hr.
Qed.

Lemma inv_step : forall L st a, Inv L st -> Inv L (step PNew L st a).
Proof.
  intros L [g ws] a HI. destruct a as [i | |]; cbn [step].
  - destruct (nth_error ws i) as [w|] eqn:Hn; [|exact HI].
    destruct (upd_split ws i w Hn) as (l1 & l2 & He & Hu).
    pose proof (inv_wstep L g l1 w l2) as Hw. rewrite <- He in Hw.
    specialize (Hw HI). destruct (wstep L g w) as [g' w'].
    rewrite Hu. exact Hw.
  - apply inv_kstep. exact HI.
  - apply inv_tstep. exact HI.
Qed.

Lemma inv_run : forall L sched st, Inv L st -> Inv L (run PNew L st sched).
Proof.
  intros L sched. induction sched as [|a r IH]; intros st HI.
  - exact HI.
  - unfold run. cbn [fold_left]. apply IH. apply inv_step. exact HI.
Qed.

Lemma done_not_over : forall L ws,
  forallb is_done ws = true -> has_over L ws = false.
Proof.
  intros L ws. induction ws as [|w r IH]; intros Hd.
  - reflexivity.
  - cbn [forallb] in Hd. apply andb_true_iff in Hd. destruct Hd as [Hw Hr].
    unfold has_over. cbn [existsb]. fold (has_over L r). rewrite (IH Hr).
    destruct w; try discriminate Hw. reflexivity.
Qed.

Lemma inv_terminal : forall L g ws,
  Inv L (g, ws) -> terminal (g, ws) = true -> g_size g - g_synced g <= L.
Proof.
  intros L g ws (Hle & Hfl & Hc & Hr) Ht.
  unfold terminal in Ht.
  apply andb_true_iff in Ht. destruct Ht as [Ht Htask].
  apply andb_true_iff in Ht. destruct Ht as [Ht Hwork].
  apply andb_true_iff in Ht. destruct Ht as [Hdone Hchan].
  apply Nat.eqb_eq in Hchan.
  destruct (N.le_gt_cases (g_size g - g_synced g) L) as [Hok | Hbad]; [exact Hok|].
  exfalso. specialize (Hr Hbad).
  destruct Hr as [H | [H | [H | H]]].
  - lia.
  - destruct (g_worker g); try discriminate Hwork. apply H. reflexivity.
  - destruct (g_task g); try discriminate H; discriminate Htask.
  - rewrite (done_not_over L ws Hdone) in H. discriminate H.
Qed.

Theorem no_stuck_dirty_bytes : forall L b ws sched, fresh ws ->
  let '(g, ws') := run PNew L (init b ws) sched in
  terminal (g, ws') = true -> g_size g - g_synced g <= L.
Proof.
  intros L b ws sched _.
  pose proof (inv_run L sched (init b ws) (inv_init L b ws)) as HI.
  destruct (run PNew L (init b ws) sched) as [g ws'].
  intros Ht. exact (inv_terminal L g ws' HI Ht).
Qed.

(* ================= no deadlock ================= *)

Lemma upd_neq : forall ws i w w',
  nth_error ws i = Some w -> w' <> w -> upd i w' ws <> ws.
Proof.
  intros ws i w w' Hn Hne Heq.
  destruct (upd_split ws i w Hn) as (l1 & l2 & He & Hu).
  rewrite Hu in Heq. rewrite He in Heq.
  apply app_inv_head in Heq. injection Heq as Heq. exact (Hne Heq).
Qed.

Lemma not_done_nth : forall ws,
  forallb is_done ws = false ->
  exists i w, nth_error ws i = Some w /\ w <> WDone.
Proof.
  induction ws as [|x r IH]; intros Hf.
  - discriminate Hf.
  - cbn [forallb] in Hf. destruct (is_done x) eqn:Hx.
    + cbn in Hf. destruct (IH Hf) as (i & w & Hn & Hw).
      exists (S i), w. split; [exact Hn | exact Hw].
    + exists 0%nat, x. split; [reflexivity|].
      intros He. subst x. discriminate Hx.
Qed.

(* A state that is not terminal always has an actor whose step changes the
   state (this holds in every state, the invariant is not even needed). *)
Theorem progress_any : forall L g ws,
  terminal (g, ws) = false -> exists a, step PNew L (g, ws) a <> (g, ws).
Proof.
  intros L g ws Ht. unfold terminal in Ht.
  destruct (forallb is_done ws) eqn:Hdone.
  2:{ destruct (not_done_nth ws Hdone) as (i & w & Hn & Hw).
      exists (AW i). cbn [step]. rewrite Hn.
      destruct (wstep L g w) as [g' w'] eqn:Hs.
      assert (Hw' : w' <> w).
      { destruct w as [len | d |]; cbn in Hs; injection Hs as _ Hs; subst w';
          [discriminate | discriminate | exfalso; apply Hw; reflexivity]. }
      intros Heq. injection Heq as _ Heq.
      exact (upd_neq ws i w w' Hn Hw' Heq). }
  destruct g as [size synced flag chan task worker]. cbn in Ht.
  destruct (task_running task) eqn:Hrun.
  - (* a task that exists and is not Finished always has a step *)
    exists AT. cbn [step]. unfold tstep. cbn.
    destruct task as [| | | | c | | | |]; try discriminate Hrun.
    + destruct flag; cbn; intros Heq; discriminate Heq.
    + unfold dirty; cbn. destruct (L <? size - synced); intros Heq; discriminate Heq.
    + intros Heq; discriminate Heq.
    + intros Heq; discriminate Heq.
    + intros Heq; discriminate Heq.
    + unfold dirty; cbn. destruct (L <? size - synced); intros Heq; discriminate Heq.
    + intros Heq; discriminate Heq.
  - exists AK. cbn [step]. unfold kstep. cbn. rewrite Hrun. cbn.
    destruct worker.
    + destruct chan as [|n]; [cbn in Ht; discriminate Ht|].
      intros Heq; discriminate Heq.
    + intros Heq; discriminate Heq.
    + intros Heq; discriminate Heq.
Qed.

Theorem progress : forall L g ws,
  Inv L (g, ws) -> terminal (g, ws) = false ->
  exists a, step PNew L (g, ws) a <> (g, ws).
Proof. intros L g ws _ Ht. exact (progress_any L g ws Ht). Qed.

(* ================= no livelock ================= *)

(* A measure that every state-changing step of PNew strictly decreases.
   Hence the task's loop T5 -> T0 cannot go round for ever, the worker's
   KWait always ends, and every run that keeps picking enabled actors
   reaches a terminal state after at most [mu] steps. *)
Definition weight (w : wthread) : nat :=
  match w with WNew _ => 43 | WAppended _ => 32 | WDone => 0 end.
Definition wrank (k : kstate) : nat :=
  match k with KIdle => 0 | KWait => 1 | KGot => 2 end.
Definition trank (L : N) (g : glob) : nat :=
  match g_task g with
  | TNone | TFinished => 0
  | TReturning => 1
  | T5 => if (L <? dirty g)%N then 8 else 2
  | T4 => if (L <? dirty g)%N then 9 else 3
  | T3 c => if (L <? g_size g - N.max (g_synced g) c)%N then 10 else 4
  | T2 => 5
  | T1 => 6
  | T0 => 7
  end%nat.
Definition mu (L : N) (st : glob * list wthread) : nat :=
  let (g, ws) := st in
  (list_sum (map weight ws) + 8 * (3 * g_chan g + wrank (g_worker g))
   + trank L g)%nat.

Lemma trank_le : forall L g, (trank L g <= 10)%nat.
Proof.
  intros L g. unfold trank.
  destruct (g_task g); try lia;
    match goal with |- context [if ?b then _ else _] => destruct b end; lia.
Qed.

Lemma wsum_mid : forall l1 w l2,
  list_sum (map weight (l1 ++ w :: l2))
  = (list_sum (map weight l1) + weight w + list_sum (map weight l2))%nat.
Proof.
  intros l1 w l2. rewrite map_app, list_sum_app. cbn [map].
  change (list_sum (weight w :: map weight l2))
    with (weight w + list_sum (map weight l2))%nat. lia.
Qed.

Theorem step_decreases : forall L st a,
  step PNew L st a <> st -> (mu L (step PNew L st a) < mu L st)%nat.
Proof.
  intros L [g ws] a Hch. destruct a as [i | |]; cbn [step] in *.
  - destruct (nth_error ws i) as [w|] eqn:Hn; [|exfalso; apply Hch; reflexivity].
    destruct (upd_split ws i w Hn) as (l1 & l2 & He & Hu).
    destruct w as [len | d |].
    + cbn [wstep] in *. rewrite Hu. unfold mu. rewrite He.
      rewrite !wsum_mid. cbn [weight].
      set (g' := set_size g (g_size g + len)) in *.
      pose proof (trank_le L g') as Ht.
      change (g_chan g') with (g_chan g).
      change (g_worker g') with (g_worker g). lia.
    + cbn [wstep] in *. rewrite Hu. unfold mu. rewrite He.
      rewrite !wsum_mid. cbn [weight].
      destruct ((L <? d) && negb (g_flag g)).
      * assert (Ht : trank L (set_chan g (S (g_chan g))) = trank L g) by reflexivity.
        rewrite Ht.
        change (g_chan (set_chan g (S (g_chan g)))) with (S (g_chan g)).
        change (g_worker (set_chan g (S (g_chan g)))) with (g_worker g). lia.
      * lia.
    + exfalso. apply Hch. cbn [wstep]. rewrite Hu. rewrite <- He. reflexivity.
  - destruct g as [size synced flag chan task worker].
    unfold mu, kstep, trank in *. red_.
    destruct worker.
    + destruct chan as [|n]; [exfalso; apply Hch; reflexivity|].
      red_. cbn [wrank]. lia.
    + destruct (task_running task && flag); red_; cbn [wrank]; lia.
    + destruct (task_running task) eqn:Hrun; [exfalso; apply Hch; reflexivity|].
      red_. cbn [wrank].
      destruct task; try discriminate Hrun; lia.
  - destruct g as [size synced flag chan task worker].
    unfold mu, tstep, trank in *. red_.
    destruct task as [| | | | c | | | |]; red_.
    + exfalso; apply Hch; reflexivity.
    + destruct flag; red_; lia.
    + destruct (N.ltb_spec L (size - synced)) as [Hd | Hd]; red_; [lia|].
      destruct (N.ltb_spec L (size - synced)) as [Hd' | Hd']; lia.
    + destruct (N.ltb_spec L (size - N.max synced size)) as [Hd | Hd]; lia.
    + destruct (L <? size - N.max synced c); lia.
    + destruct (L <? size - synced); lia.
    + destruct (N.ltb_spec L (size - synced)) as [Hd | Hd]; red_; lia.
    + lia.
    + exfalso; apply Hch; reflexivity.
Qed.

(* Every step of the schedule changes the state. *)
Fixpoint all_effective (L : N) (st : glob * list wthread) (sched : list actor)
  : Prop :=
  match sched with
  | [] => True
  | a :: r => step PNew L st a <> st /\ all_effective L (step PNew L st a) r
  end.

Theorem effective_steps_bounded : forall L sched st,
  all_effective L st sched -> (length sched <= mu L st)%nat.
Proof.
  intros L sched. induction sched as [|a r IH]; intros st He.
  - cbn [length]. lia.
  - destruct He as [Hch Hr]. cbn [length].
    pose proof (step_decreases L st a Hch) as Hd.
    pose proof (IH _ Hr) as Hl. lia.
Qed.

(* From every state (reachable or not) some schedule drives PNew to a
   terminal state; by the main theorem (for reachable states) the dirty
   count is then within the limit. *)
Theorem terminal_reachable : forall L st,
  exists sched, terminal (run PNew L st sched) = true.
Proof.
  intros L st. remember (mu L st) as n eqn:Hn. revert st Hn.
  induction n as [n IH] using lt_wf_ind. intros [g ws] Hn.
  destruct (terminal (g, ws)) eqn:Ht.
  - exists []. exact Ht.
  - destruct (progress_any L g ws Ht) as [a Ha].
    pose proof (step_decreases L (g, ws) a Ha) as Hd.
    destruct (IH (mu L (step PNew L (g, ws) a)) ltac:(lia) _ eq_refl) as [r Hr].
    exists (a :: r). exact Hr.
Qed.

Corollary eventually_synced : forall L b ws pre, fresh ws ->
  exists post,
    let '(g, ws') := run PNew L (init b ws) (pre ++ post) in
    terminal (g, ws') = true /\ g_size g - g_synced g <= L.
Proof.
  intros L b ws pre Hf.
  destruct (terminal_reachable L (run PNew L (init b ws) pre)) as [post Hp].
  exists post.
  pose proof (no_stuck_dirty_bytes L b ws (pre ++ post) Hf) as Hs.
  unfold run in *. rewrite fold_left_app in *.
  destruct (fold_left (step PNew L) post (fold_left (step PNew L) pre (init b ws)))
    as [g ws'].
  split; [exact Hp | exact (Hs Hp)].
Qed.

Print Assumptions no_stuck_dirty_bytes.
Print Assumptions old_protocol_refuted.
Print Assumptions new_loop_old_gate_refuted.
Print Assumptions progress.
Print Assumptions step_decreases.
Print Assumptions eventually_synced.
Print Assumptions effective_steps_bounded.
